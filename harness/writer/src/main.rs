//! C09 — Writer delivers exactly the formatted bytes, in order, whatever the fill level of its buffer
//! when a write starts, however the sink accepts them, in both build profiles; and the Reader reads the
//! text back to the original values.
//!
//! The writer's only state is its fill level (0..=B, B observed at run time).  ALL (or, quick, the
//! boundary-dense subset of) fill levels x a write alphabet (every integer type and every rendered
//! length 1..=40, chars, strings around 0/45/B/2B, vectors, tuples of arity 2..8) x {flush, drop};
//! every one of the 128 ASCII chars through `write_char` at every boundary-dense fill level and in short
//! histories, and inside &str / String / Vec<String> / tuple values (`char_sweep`, `char_histories`);
//! the same writes through the public trait method `Writable::write` (pending bytes also in the
//! flush-per-write build); the writer going out of scope by unwinding (user code panics after the writes);
//! sink deviations (partial acceptance, Interrupted) enumerated up to two per execution; every value of
//! the 8- and 16-bit integer types (thorough: of u32/i32) rendered and compared with `to_string()`.
//! The same enumeration runs in a second binary built with debug assertions (flush-per-write) and both
//! must produce the same bytes.

use rayon::prelude::*;
use rlib_io::make_output_macro_;
use rlib_io::{Reader, Writer};
use serde::{Deserialize, Serialize};
use std::cell::{Cell, RefCell};
use std::io::Write;
use vcore::*;

#[derive(Clone, Debug, Serialize, Deserialize, PartialEq)]
enum IntVal {
    I8(i8),
    U8(u8),
    I16(i16),
    U16(u16),
    I32(i32),
    U32(u32),
    I64(i64),
    U64(u64),
    #[serde(with = "dec_str")]
    I128(i128),
    #[serde(with = "dec_str")]
    U128(u128),
    Isize(isize),
    Usize(usize),
}

/// 128-bit integers travel through JSON as decimal strings (serde_json's Value has no 128-bit numbers)
mod dec_str {
    use serde::{Deserialize, Deserializer, Serializer};
    pub fn serialize<T: ToString, S: Serializer>(v: &T, s: S) -> Result<S::Ok, S::Error> {
        s.serialize_str(&v.to_string())
    }
    pub fn deserialize<'de, T: std::str::FromStr, D: Deserializer<'de>>(d: D) -> Result<T, D::Error> {
        let s = String::deserialize(d)?;
        s.parse::<T>().map_err(|_| serde::de::Error::custom("bad 128-bit integer"))
    }
}

impl IntVal {
    fn render(&self) -> String {
        match self {
            IntVal::I8(v) => v.to_string(),
            IntVal::U8(v) => v.to_string(),
            IntVal::I16(v) => v.to_string(),
            IntVal::U16(v) => v.to_string(),
            IntVal::I32(v) => v.to_string(),
            IntVal::U32(v) => v.to_string(),
            IntVal::I64(v) => v.to_string(),
            IntVal::U64(v) => v.to_string(),
            IntVal::I128(v) => v.to_string(),
            IntVal::U128(v) => v.to_string(),
            IntVal::Isize(v) => v.to_string(),
            IntVal::Usize(v) => v.to_string(),
        }
    }
    fn write(&self, w: &mut Writer) {
        match self {
            IntVal::I8(v) => w.write(v),
            IntVal::U8(v) => w.write(v),
            IntVal::I16(v) => w.write(v),
            IntVal::U16(v) => w.write(v),
            IntVal::I32(v) => w.write(v),
            IntVal::U32(v) => w.write(v),
            IntVal::I64(v) => w.write(v),
            IntVal::U64(v) => w.write(v),
            IntVal::I128(v) => w.write(v),
            IntVal::U128(v) => w.write(v),
            IntVal::Isize(v) => w.write(v),
            IntVal::Usize(v) => w.write(v),
        }
    }
    /// the same value through the public trait method `Writable::write(&value, &mut writer)` — what a
    /// user-defined `Writable` impl calls for its parts; it does not go through `Writer::write`
    fn write_via_trait(&self, w: &mut Writer) {
        use rlib_io::Writable as W;
        match self {
            IntVal::I8(v) => W::write(v, w),
            IntVal::U8(v) => W::write(v, w),
            IntVal::I16(v) => W::write(v, w),
            IntVal::U16(v) => W::write(v, w),
            IntVal::I32(v) => W::write(v, w),
            IntVal::U32(v) => W::write(v, w),
            IntVal::I64(v) => W::write(v, w),
            IntVal::U64(v) => W::write(v, w),
            IntVal::I128(v) => W::write(v, w),
            IntVal::U128(v) => W::write(v, w),
            IntVal::Isize(v) => W::write(v, w),
            IntVal::Usize(v) => W::write(v, w),
        }
    }
    fn read_back(&self, r: &mut Reader) -> String {
        match self {
            IntVal::I8(_) => r.read::<i8>().to_string(),
            IntVal::U8(_) => r.read::<u8>().to_string(),
            IntVal::I16(_) => r.read::<i16>().to_string(),
            IntVal::U16(_) => r.read::<u16>().to_string(),
            IntVal::I32(_) => r.read::<i32>().to_string(),
            IntVal::U32(_) => r.read::<u32>().to_string(),
            IntVal::I64(_) => r.read::<i64>().to_string(),
            IntVal::U64(_) => r.read::<u64>().to_string(),
            IntVal::I128(_) => r.read::<i128>().to_string(),
            IntVal::U128(_) => r.read::<u128>().to_string(),
            IntVal::Isize(_) => r.read::<isize>().to_string(),
            IntVal::Usize(_) => r.read::<usize>().to_string(),
        }
    }
}

#[derive(Clone, Debug, Serialize, Deserialize, PartialEq)]
enum WAct {
    Int(IntVal),
    Ch(u8),
    /// &str of this length (content = position pattern with this salt)
    Str(usize, u8),
    /// owned String
    Owned(usize, u8),
    VecI64(Vec<i64>),
    VecStr(Vec<usize>),
    VecVec,
    Tup(u8),
    /// the out!/outln! macros of output_macro.rs
    Macro(u8),
    /// &str / String of `len` bytes with separator bytes inside the pattern: `sep` 0 = LF, 1 = CR, 2 = SP,
    /// 3 = CR LF; `places` bit 0 = at the start, bit 1 = in the middle, bit 2 = at the end, bit 3 = every 17th byte
    Text { len: usize, salt: u8, sep: u8, places: u8, owned: bool },
    /// the string of the ASCII chars lo..=hi in ascending order, as &str or (owned) String
    Ascii { lo: u8, hi: u8, owned: bool },
    /// Vec<String> of the 128 one-char strings, in ascending order
    VecAscii,
    /// the tuple (&str, String, &str) of the ASCII chars 0..=42, 43..=85 and 86..=127
    TupAscii,
}

fn ascii_range(lo: u8, hi: u8) -> String {
    (lo..=hi).map(|c| c as char).collect()
}

const TUP_ASCII: [(u8, u8); 3] = [(0, 42), (43, 85), (86, 127)];

fn pattern(len: usize, salt: u8) -> String {
    // position-dependent letters: loss, duplication or reordering of a piece changes the text
    // (letter i = 'a' + (7 i + 3 + salt) mod 26: period 26, written unit by unit)
    let unit: Vec<u8> = (0..26).map(|i| b'a' + ((i * 7 + 3 + salt as usize) % 26) as u8).collect();
    let mut v = Vec::with_capacity(len);
    while v.len() + 26 <= len {
        v.extend_from_slice(&unit);
    }
    v.extend_from_slice(&unit[..len - v.len()]);
    String::from_utf8(v).unwrap()
}

/// `pattern(len, salt)` with separator bytes written over it (see `WAct::Text`)
fn text(len: usize, salt: u8, sep: u8, places: u8) -> String {
    let mut v = pattern(len, salt).into_bytes();
    let sepb: &[u8] = match sep {
        0 => b"\n",
        1 => b"\r",
        2 => b" ",
        _ => b"\r\n",
    };
    let mut put = |p: usize| {
        for (i, &c) in sepb.iter().enumerate() {
            if p + i < len {
                v[p + i] = c;
            }
        }
    };
    if places & 1 != 0 {
        put(0);
    }
    if places & 2 != 0 {
        put(len / 2);
    }
    if places & 4 != 0 {
        put(len.saturating_sub(sepb.len()));
    }
    if places & 8 != 0 {
        (5..len).step_by(17).for_each(&mut put);
    }
    String::from_utf8(v).unwrap()
}

static FILL_BASE: std::sync::OnceLock<String> = std::sync::OnceLock::new();

/// the string that brings the buffer to fill level f: letters, the last byte a space (so that the next
/// token is separated for the read-back)
fn filler(f: usize) -> String {
    if f == 0 {
        return String::new();
    }
    let base = FILL_BASE.get_or_init(|| pattern(1 << 18, 11));
    let mut s = if f - 1 <= base.len() { base[..f - 1].to_string() } else { pattern(f - 1, 11) };
    s.push(' ');
    s
}

const T8: (i8, u8, i16, u16, i32, u32, i64, &str) = (i8::MIN, u8::MAX, i16::MIN, u16::MAX, i32::MIN, u32::MAX, i64::MIN, "end");

impl WAct {
    fn expected(&self) -> String {
        match self {
            WAct::Int(v) => v.render(),
            WAct::Ch(c) => (*c as char).to_string(),
            WAct::Str(n, s) | WAct::Owned(n, s) => pattern(*n, *s),
            WAct::VecI64(v) => v.iter().map(|x| x.to_string()).collect::<Vec<_>>().join(" "),
            WAct::VecStr(ls) => ls.iter().enumerate().map(|(i, l)| pattern(*l, i as u8)).collect::<Vec<_>>().join(" "),
            WAct::VecVec => "1 2 3 4".to_string(),
            WAct::Tup(k) => {
                let f: [String; 8] = [T8.0.to_string(), T8.1.to_string(), T8.2.to_string(), T8.3.to_string(), T8.4.to_string(), T8.5.to_string(), T8.6.to_string(), T8.7.to_string()];
                // arity k uses the LAST k fields so that every arity ends with the string field
                f[8 - *k as usize..].join(" ")
            }
            WAct::Macro(0) => "1 two -3\n".to_string(),
            WAct::Macro(1) => "\n".to_string(),
            WAct::Macro(2) => "x 18446744073709551615".to_string(),
            WAct::Macro(_) => "7\n8 9\n".to_string(),
            WAct::Text { len, salt, sep, places, .. } => text(*len, *salt, *sep, *places),
            WAct::Ascii { lo, hi, .. } => ascii_range(*lo, *hi),
            WAct::VecAscii => (0..128u8).map(|c| ascii_range(c, c)).collect::<Vec<_>>().join(" "),
            WAct::TupAscii => TUP_ASCII.map(|(lo, hi)| ascii_range(lo, hi)).join(" "),
        }
    }

    fn apply(&self, w: &mut Writer) {
        match self {
            WAct::Int(v) => v.write(w),
            WAct::Ch(c) => w.write_char(*c as char),
            WAct::Str(n, s) => {
                let p = pattern(*n, *s);
                w.write(&p.as_str());
            }
            WAct::Owned(n, s) => w.write(&pattern(*n, *s)),
            WAct::VecI64(v) => w.write(v),
            WAct::VecStr(ls) => {
                let v: Vec<String> = ls.iter().enumerate().map(|(i, l)| pattern(*l, i as u8)).collect();
                w.write(&v)
            }
            WAct::VecVec => w.write(&vec![vec![1u8, 2], vec![3, 4]]),
            WAct::Tup(k) => match k {
                2 => w.write(&(T8.6, T8.7)),
                3 => w.write(&(T8.5, T8.6, T8.7)),
                4 => w.write(&(T8.4, T8.5, T8.6, T8.7)),
                5 => w.write(&(T8.3, T8.4, T8.5, T8.6, T8.7)),
                6 => w.write(&(T8.2, T8.3, T8.4, T8.5, T8.6, T8.7)),
                7 => w.write(&(T8.1, T8.2, T8.3, T8.4, T8.5, T8.6, T8.7)),
                _ => w.write(&T8),
            },
            WAct::Macro(_) => unreachable!("macro actions are applied by apply_macro"),
            WAct::Text { owned: true, .. } | WAct::Ascii { owned: true, .. } => w.write(&self.expected()),
            WAct::Text { .. } | WAct::Ascii { .. } => w.write(&self.expected().as_str()),
            WAct::VecAscii => w.write(&(0..128u8).map(|c| ascii_range(c, c)).collect::<Vec<String>>()),
            WAct::TupAscii => {
                let p = TUP_ASCII.map(|(lo, hi)| ascii_range(lo, hi));
                w.write(&(p[0].as_str(), p[1].clone(), p[2].as_str()))
            }
        }
    }
}

impl WAct {
    /// the action through `Writable::write(&value, &mut writer)` (chars have no `Writable` impl and keep
    /// `write_char`)
    fn apply_via_trait(&self, w: &mut Writer) {
        use rlib_io::Writable as W;
        match self {
            WAct::Int(v) => v.write_via_trait(w),
            WAct::Ch(c) => w.write_char(*c as char),
            WAct::Str(n, s) => {
                let p = pattern(*n, *s);
                W::write(&p.as_str(), w);
            }
            WAct::Owned(n, s) => W::write(&pattern(*n, *s), w),
            WAct::VecI64(v) => W::write(v, w),
            WAct::VecStr(ls) => {
                let v: Vec<String> = ls.iter().enumerate().map(|(i, l)| pattern(*l, i as u8)).collect();
                W::write(&v, w)
            }
            WAct::VecVec => W::write(&vec![vec![1u8, 2], vec![3, 4]], w),
            WAct::Tup(k) => match k {
                2 => W::write(&(T8.6, T8.7), w),
                3 => W::write(&(T8.5, T8.6, T8.7), w),
                4 => W::write(&(T8.4, T8.5, T8.6, T8.7), w),
                5 => W::write(&(T8.3, T8.4, T8.5, T8.6, T8.7), w),
                6 => W::write(&(T8.2, T8.3, T8.4, T8.5, T8.6, T8.7), w),
                7 => W::write(&(T8.1, T8.2, T8.3, T8.4, T8.5, T8.6, T8.7), w),
                _ => W::write(&T8, w),
            },
            WAct::Macro(_) => unreachable!("macro actions are applied by apply_macro"),
            WAct::Text { owned: true, .. } | WAct::Ascii { owned: true, .. } => W::write(&self.expected(), w),
            WAct::Text { .. } | WAct::Ascii { .. } => W::write(&self.expected().as_str(), w),
            WAct::VecAscii => W::write(&(0..128u8).map(|c| ascii_range(c, c)).collect::<Vec<String>>(), w),
            WAct::TupAscii => {
                let p = TUP_ASCII.map(|(lo, hi)| ascii_range(lo, hi));
                W::write(&(p[0].as_str(), p[1].clone(), p[2].as_str()), w)
            }
        }
    }
}

/// payload of the panic raised by the harness's "user code" while the writer is alive
struct UserPanic;

/// The writer goes out of scope by unwinding: user code that owns it panics after all its writes returned.
/// Returns normally iff the only panic was that one.
fn user_code_panics_owning(w: Writer) {
    let r = std::panic::catch_unwind(std::panic::AssertUnwindSafe(move || {
        let _alive = w;
        std::panic::panic_any(UserPanic);
    }));
    match r {
        Err(e) if e.is::<UserPanic>() => {}
        Err(e) => std::panic::resume_unwind(e),
        Ok(()) => unreachable!(),
    }
}

// ---------------------------------------------------------------------------------------------
// the environment: a Write object whose every answer is chosen by the harness

#[derive(Clone, Copy, Debug, PartialEq, Serialize, Deserialize)]
enum WStep {
    /// accept at most k bytes of what is offered (k >= 1)
    Accept(usize),
    Interrupted,
}

struct Sink<'a> {
    out: &'a RefCell<Vec<u8>>,
    plan: &'a [WStep],
    next: usize,
    calls: &'a Cell<usize>,
    first_len: &'a Cell<usize>,
}

impl Write for Sink<'_> {
    fn write(&mut self, buf: &[u8]) -> std::io::Result<usize> {
        self.calls.set(self.calls.get() + 1);
        if self.first_len.get() == 0 {
            self.first_len.set(buf.len());
        }
        let step = if self.next < self.plan.len() {
            self.next += 1;
            self.plan[self.next - 1]
        } else {
            WStep::Accept(usize::MAX)
        };
        match step {
            WStep::Interrupted => Err(std::io::Error::new(std::io::ErrorKind::Interrupted, "interrupted")),
            WStep::Accept(k) => {
                let n = k.min(buf.len());
                self.out.borrow_mut().extend_from_slice(&buf[..n]);
                Ok(n)
            }
        }
    }
    fn flush(&mut self) -> std::io::Result<()> {
        Ok(())
    }
}

#[derive(Clone, Debug, Serialize, Deserialize)]
struct Case {
    fill: usize,
    acts: Vec<WAct>,
    /// true: explicit flush() then drop; false: drop only
    flush: bool,
    plan: Vec<WStep>,
    /// the writes go through the public trait method `Writable::write(&v, &mut writer)` instead of
    /// `Writer::write(&v)` (in flush-per-write builds the former leaves the bytes pending)
    #[serde(default)]
    via_trait: bool,
    /// the writer is not dropped at the end of its scope but by unwinding: user code panics after the writes
    #[serde(default)]
    unwind: bool,
}

impl Case {
    fn new(fill: usize, acts: Vec<WAct>, flush: bool, plan: Vec<WStep>) -> Case {
        Case { fill, acts, flush, plan, via_trait: false, unwind: false }
    }
    fn finish_name(&self) -> &'static str {
        match (self.flush, self.unwind) {
            (true, false) => "flush, then drop",
            (false, false) => "drop",
            (true, true) => "flush, then user code panics (drop by unwinding)",
            (false, true) => "user code panics (drop by unwinding)",
        }
    }
    fn signature(&self, family: &str) -> String {
        let mut sig = format!("{}:fill={}:acts={}:flush={}:plan={}", family, self.fill, serde_json::to_string(&self.acts).unwrap().chars().take(200).collect::<String>(), self.flush, serde_json::to_string(&self.plan).unwrap());
        if self.via_trait {
            sig.push_str(":via_trait");
        }
        if self.unwind {
            sig.push_str(":unwind");
        }
        sig
    }
}

struct Exec {
    out: Result<Vec<u8>, String>,
    calls: usize,
    first_len: usize,
    /// sink length observed right after the explicit flush (before drop), if any
    after_flush: Option<usize>,
    /// sink length right before the writer was dropped (by scope end or by unwinding), if it got that far
    before_drop: Option<usize>,
}

fn run_case(c: &Case) -> Exec {
    let out = RefCell::new(Vec::new());
    let calls = Cell::new(0);
    let first_len = Cell::new(0);
    let after_flush = Cell::new(None);
    let before_drop = Cell::new(None);
    let r = catch(|| {
        let sink = Sink { out: &out, plan: &c.plan, next: 0, calls: &calls, first_len: &first_len };
        // ManuallyDrop: if an operation panics the writer is leaked instead of dropped, so its Drop
        // (which flushes and may panic again) cannot turn one panic into a process abort
        let mut w = std::mem::ManuallyDrop::new(Writer::new(Box::new(sink)));
        if c.fill > 0 {
            let f = filler(c.fill);
            if c.via_trait {
                rlib_io::Writable::write(&f.as_str(), &mut w);
            } else {
                w.write(&f.as_str());
            }
        }
        let mut macro_acts = vec![];
        for a in &c.acts {
            if let WAct::Macro(k) = a {
                macro_acts.push(*k);
            } else if c.via_trait {
                a.apply_via_trait(&mut w);
            } else {
                a.apply(&mut w);
            }
        }
        if !macro_acts.is_empty() {
            // the macros rebind the identifiers they are given: run them last
            let src: &[u8] = b"";
            let rd = Reader::new(Box::new(src));
            let wr = w;
            rlib_io::make_output_macro!(rd, wr);
            for k in macro_acts {
                match k {
                    0 => {
                        outln!(1, "two", -3);
                    }
                    1 => {
                        outln!();
                    }
                    2 => {
                        out!("x", u64::MAX);
                    }
                    _ => {
                        outln!(7);
                        outln!(8, 9);
                    }
                }
            }
            if c.flush {
                wr.flush();
                after_flush.set(Some(out.borrow().len()));
            }
            // every write has returned: only now does the writer become an ordinary owned value again
            before_drop.set(Some(out.borrow().len()));
            if c.unwind {
                user_code_panics_owning(std::mem::ManuallyDrop::into_inner(wr));
            } else {
                drop(std::mem::ManuallyDrop::into_inner(wr));
            }
            let _ = rd;
            return;
        }
        if c.flush {
            w.flush();
            after_flush.set(Some(out.borrow().len()));
        }
        before_drop.set(Some(out.borrow().len()));
        if c.unwind {
            user_code_panics_owning(std::mem::ManuallyDrop::into_inner(w));
        } else {
            drop(std::mem::ManuallyDrop::into_inner(w));
        }
    });
    Exec { out: r.map(|_| out.borrow().clone()), calls: calls.get(), first_len: first_len.get(), after_flush: after_flush.get(), before_drop: before_drop.get() }
}

fn expected_bytes(c: &Case) -> Vec<u8> {
    let mut s = filler(c.fill);
    // macro actions run after the others (see run_case)
    for a in c.acts.iter().filter(|a| !matches!(a, WAct::Macro(_))) {
        s.push_str(&a.expected());
    }
    for a in c.acts.iter().filter(|a| matches!(a, WAct::Macro(_))) {
        s.push_str(&a.expected());
    }
    s.into_bytes()
}

fn diff_summary(got: &[u8], exp: &[u8]) -> String {
    let p = got.iter().zip(exp.iter()).position(|(a, b)| a != b).unwrap_or(got.len().min(exp.len()));
    let show = |v: &[u8]| -> String {
        let a = p.saturating_sub(12);
        let b = (p + 24).min(v.len());
        format!("{:?}", String::from_utf8_lossy(&v[a..b]))
    };
    format!("sink has {} bytes, expected {}; first difference at offset {}: got …{}… expected …{}…", got.len(), exp.len(), p, show(got), show(exp))
}

/// Err(message) if the execution violates the property
fn judge(c: &Case) -> Result<Exec, String> {
    let ex = run_case(c);
    let exp = expected_bytes(c);
    match &ex.out {
        Err(p) => return Err(format!("the writer panicked: {p}")),
        Ok(got) => {
            if *got != exp {
                return Err(diff_summary(got, &exp));
            }
            if let Some(n) = ex.after_flush {
                if n != exp.len() {
                    return Err(format!("after flush() the sink had {} of the {} bytes written", n, exp.len()));
                }
            }
        }
    }
    // read the text back with the real Reader
    let got = ex.out.as_ref().unwrap();
    if c.acts.len() == 1 {
        let rb = catch(|| {
            // the filler ends with a space: start reading right after it
            let mut r = Reader::new(Box::new(&got[c.fill..]));
            let consumed_all = match &c.acts[0] {
                WAct::Int(v) => {
                    let back = v.read_back(&mut r);
                    if back != v.render() {
                        return Err(format!("wrote {}, the reader read back {}", v.render(), back));
                    }
                    true
                }
                WAct::VecI64(v) => {
                    let back: Vec<i64> = r.read_vec(v.len());
                    if back != *v {
                        return Err(format!("wrote {:?}, the reader read back {:?}", v, back));
                    }
                    true
                }
                WAct::Tup(8) => {
                    let back: (i8, u8, i16, u16, i32, u32, i64, String) = r.read();
                    if (back.0, back.1, back.2, back.3, back.4, back.5, back.6, back.7.as_str()) != T8 {
                        return Err(format!("wrote {:?}, the reader read back {:?}", T8, back));
                    }
                    true
                }
                WAct::Tup(2) => {
                    let back: (i64, String) = r.read();
                    if (back.0, back.1.as_str()) != (T8.6, T8.7) {
                        return Err(format!("wrote {:?}, the reader read back {:?}", (T8.6, T8.7), back));
                    }
                    true
                }
                WAct::Str(n, s) | WAct::Owned(n, s) if *n > 0 && *n <= 4096 => {
                    let back: String = r.read();
                    if back != pattern(*n, *s) {
                        return Err(format!("wrote a {}-byte word, the reader read back a different {}-byte word", n, back.len()));
                    }
                    true
                }
                // a char that the reader does not skip as white space comes back as itself; after a white-space
                // char the reader finds nothing
                WAct::Ch(c) => {
                    if !c.is_ascii_whitespace() {
                        let back: char = r.read();
                        if back != *c as char {
                            return Err(format!("wrote the char {:?}, the reader read back {:?}", *c as char, back));
                        }
                    }
                    true
                }
                // strings of arbitrary ASCII chars: the reader returns their white-space separated words
                a @ (WAct::Ascii { .. } | WAct::VecAscii | WAct::TupAscii) => {
                    let text = a.expected();
                    let words: Vec<&str> = text.split_ascii_whitespace().collect();
                    let mut back: Vec<String> = vec![];
                    while back.len() <= words.len() && !r.is_eof() {
                        back.push(r.read());
                    }
                    if back != words {
                        return Err(format!("wrote {:?}, the reader read back the words {:?}", text, back));
                    }
                    true
                }
                _ => false,
            };
            if consumed_all && !r.is_eof() {
                return Err("the reader finds more input after the values written".to_string());
            }
            Ok(())
        });
        match rb {
            Err(p) => return Err(format!("reading the text back panicked: {p}")),
            Ok(Err(m)) => return Err(format!("round trip: {m}")),
            Ok(Ok(())) => {}
        }
    }
    Ok(ex)
}

// ---------------------------------------------------------------------------------------------
// several writers alive at once

/// A history over several LIVE writers of one thread, each over a sink of its own.
#[derive(Clone, Debug, Serialize, Deserialize)]
struct Writers {
    /// fill level of each writer before the history (reached by one verbatim string, like `Case::fill`)
    fills: Vec<usize>,
    /// (writer, write action) in call order
    steps: Vec<(usize, WAct)>,
    /// the order in which the writers end; true = explicit flush() before the drop
    finish: Vec<(usize, bool)>,
    /// (k, actions): before step k (k = number of steps: before the first writer ends) ANOTHER thread creates a
    /// writer over a sink of its own, applies the actions and drops it, while the writers here stay alive
    #[serde(default)]
    elsewhere: Option<(usize, Vec<WAct>)>,
}

impl Writers {
    fn expected(&self, i: usize) -> Vec<u8> {
        let mut s = filler(self.fills[i]);
        for (_, a) in self.steps.iter().filter(|(w, _)| *w == i) {
            s.push_str(&a.expected());
        }
        s.into_bytes()
    }
    fn signature(&self, family: &str) -> String {
        let short = |a: &WAct| serde_json::to_string(a).unwrap().chars().take(90).collect::<String>();
        let mut sig = format!("{}:fills={:?}:steps=[{}]:finish={:?}", family, self.fills, self.steps.iter().map(|(w, a)| format!("w{w}<-{}", short(a))).collect::<Vec<_>>().join(", "), self.finish);
        if let Some((k, acts)) = &self.elsewhere {
            sig.push_str(&format!(":other_thread_before_step_{k}=[{}]", acts.iter().map(short).collect::<Vec<_>>().join(", ")));
        }
        sig
    }
}

/// a sink another thread can own
struct SharedSink(std::sync::Arc<std::sync::Mutex<Vec<u8>>>);

impl Write for SharedSink {
    fn write(&mut self, buf: &[u8]) -> std::io::Result<usize> {
        self.0.lock().unwrap().extend_from_slice(buf);
        Ok(buf.len())
    }
    fn flush(&mut self) -> std::io::Result<()> {
        Ok(())
    }
}

/// create, use and drop one writer on a thread of its own; Err(message) if its sink does not hold its bytes
fn writer_on_another_thread(acts: &[WAct]) -> Result<(), String> {
    let acts = acts.to_vec();
    std::thread::spawn(move || {
        let out = std::sync::Arc::new(std::sync::Mutex::new(vec![]));
        let sink = SharedSink(out.clone());
        catch(move || {
            let mut w = std::mem::ManuallyDrop::new(Writer::new(Box::new(sink)));
            for a in &acts {
                a.apply(&mut w);
            }
            drop(std::mem::ManuallyDrop::into_inner(w));
            acts.iter().map(|a| a.expected()).collect::<String>().into_bytes()
        })
        .map_err(|p| format!("the writer on the other thread panicked: {p}"))
        .and_then(|exp| {
            let got = out.lock().unwrap();
            if *got == exp {
                Ok(())
            } else {
                Err(format!("the sink of the writer on the other thread: {}", diff_summary(&got, &exp)))
            }
        })
    })
    .join()
    .unwrap_or_else(|_| Err("harness: the other thread panicked outside the writer".into()))
}

/// One execution on the calling thread.  Ok(some sink was written to more than once) | Err(message).
fn judge_writers_here(c: &Writers) -> Result<(bool, Vec<Vec<u8>>), String> {
    let n = c.fills.len();
    let outs: Vec<RefCell<Vec<u8>>> = (0..n).map(|_| RefCell::new(vec![])).collect();
    let calls: Vec<Cell<usize>> = (0..n).map(|_| Cell::new(0)).collect();
    let first_len = Cell::new(0);
    let r = catch(|| -> Result<(), String> {
        // ManuallyDrop: a panicking operation leaks every live writer instead of dropping it while unwinding
        let mut ws: Vec<Option<std::mem::ManuallyDrop<Writer>>> = (0..n).map(|i| Some(std::mem::ManuallyDrop::new(Writer::new(Box::new(Sink { out: &outs[i], plan: &[], next: 0, calls: &calls[i], first_len: &first_len }))))).collect();
        for (i, &f) in c.fills.iter().enumerate() {
            if f > 0 {
                ws[i].as_mut().unwrap().write(&filler(f).as_str());
            }
        }
        for k in 0..=c.steps.len() {
            if let Some((_, acts)) = c.elsewhere.as_ref().filter(|e| e.0 == k) {
                writer_on_another_thread(acts)?;
            }
            if let Some((i, a)) = c.steps.get(k) {
                a.apply(ws[*i].as_mut().unwrap());
            }
        }
        for &(i, flush) in &c.finish {
            let mut w = ws[i].take().unwrap();
            if flush {
                w.flush();
                let (have, want) = (outs[i].borrow().len(), c.expected(i).len());
                if have != want {
                    return Err(format!("after flush() of writer {i} its sink had {have} of the {want} bytes written to it"));
                }
            }
            drop(std::mem::ManuallyDrop::into_inner(w));
        }
        Ok(())
    });
    match r {
        Err(p) => return Err(format!("a writer panicked: {p}")),
        Ok(Err(m)) => return Err(m),
        Ok(Ok(())) => {}
    }
    for i in 0..n {
        let (got, exp) = (outs[i].borrow(), c.expected(i));
        if *got != exp {
            return Err(format!("sink of writer {i} (of {n} live on this thread): {}", diff_summary(&got, &exp)));
        }
    }
    Ok((calls.iter().any(|k| k.get() >= 2), outs.into_iter().map(|o| o.into_inner()).collect()))
}

/// One history of live writers on a FRESH thread: whatever a library keeps per thread starts from the same
/// state in every execution.  This is how a replay runs, and how the enumeration re-runs a history that
/// failed on its worker thread (whose earlier histories are not part of the record) before recording it.
fn judge_writers(c: &Writers) -> Result<(bool, Vec<Vec<u8>>), String> {
    std::thread::scope(|s| s.spawn(|| judge_writers_here(c)).join()).unwrap_or_else(|_| Err("harness: the case thread panicked".into()))
}

/// The reduced write alphabet of the live-writer histories: an integer, a line end, a word, a two-line
/// string, a vector, and a string longer than the buffer (its writer flushes in the middle of the history).
fn writers_alphabet(b: usize) -> Vec<WAct> {
    vec![
        WAct::Int(IntVal::I32(-12345)),
        WAct::Ch(b'\n'),
        WAct::Str(3, 1),
        WAct::Text { len: 46, salt: 2, sep: 0, places: 2, owned: false },
        WAct::VecI64(vec![1, -2, 3]),
        WAct::Str(b + 1, 2),
    ]
}

/// all sequences of 1..=max_len (writer, action) steps
fn step_sequences(n_writers: usize, acts: &[WAct], max_len: usize) -> Vec<Vec<(usize, WAct)>> {
    let symbols: Vec<(usize, WAct)> = (0..n_writers).flat_map(|w| acts.iter().map(move |a| (w, a.clone()))).collect();
    let mut all: Vec<Vec<(usize, WAct)>> = vec![];
    let mut level: Vec<Vec<(usize, WAct)>> = vec![vec![]];
    for _ in 0..max_len {
        level = level.iter().flat_map(|p| symbols.iter().map(move |s| p.iter().cloned().chain([s.clone()]).collect())).collect();
        all.extend(level.iter().cloned());
    }
    all
}

fn build_writers_cases(b: usize) -> Vec<Writers> {
    let acts = writers_alphabet(b);
    let mut cases = vec![];
    // two live writers: every history of <= 3 writes, ended in both orders, by drop alone and by flush + drop
    for fills in [vec![0, 0], vec![5, 0], vec![0, b - 2], vec![b - 2, b - 2]] {
        for steps in step_sequences(2, &acts, 3) {
            for order in [[0, 1], [1, 0]] {
                for flush in [false, true] {
                    cases.push(Writers { fills: fills.clone(), steps: steps.clone(), finish: order.iter().map(|&w| (w, flush)).collect(), elsewhere: None });
                }
            }
        }
    }
    // three live writers (four actions): every history of <= 3 writes, ended in every order
    let acts3: Vec<WAct> = [0, 1, 3, 5].iter().map(|&i| acts[i].clone()).collect();
    for fills in [vec![0, 0, 0], vec![b - 2, 0, 3]] {
        for steps in step_sequences(3, &acts3, 3) {
            for order in [[0, 1, 2], [0, 2, 1], [1, 0, 2], [1, 2, 0], [2, 0, 1], [2, 1, 0]] {
                for flush in [false, true] {
                    if flush && order != [0, 1, 2] && order != [2, 1, 0] {
                        continue;
                    }
                    cases.push(Writers { fills: fills.clone(), steps: steps.clone(), finish: order.iter().map(|&w| (w, flush)).collect(), elsewhere: None });
                }
            }
        }
    }
    // one or two writers live here while another thread creates, uses and drops a writer, at every point of
    // every history of <= 2 writes
    for n in [1usize, 2] {
        for fills in [vec![0; n], vec![b - 2; n]] {
            for steps in step_sequences(n, &acts, 2) {
                for k in 0..=steps.len() {
                    for other in [&acts[0], &acts[3], &acts[5]] {
                        cases.push(Writers { fills: fills.clone(), steps: steps.clone(), finish: (0..n).map(|w| (w, k % 2 == 0)).collect(), elsewhere: Some((k, vec![other.clone(), acts[2].clone()])) });
                    }
                }
            }
        }
    }
    cases
}

fn run_writers_family(name: &'static str, cases: &[Writers]) -> Tot {
    cases
        .par_iter()
        .enumerate()
        .map(|(i, c)| {
            let mut t = Tot { execs: 1, ..Default::default() };
            let verdict = judge_writers_here(c).or_else(|on_worker| match judge_writers(c) {
                Err(fresh) => Err(fresh),
                Ok(_) => Err(format!("{on_worker} — on a worker thread that had run other histories before; the same history passes on a fresh thread, so the record below is not sufficient to reproduce it")),
            });
            match verdict {
                Ok((flushed_inside, sinks)) => {
                    t.flush_triggering = flushed_inside as u64;
                    t.digest = fnv(&[&(i as u64).to_le_bytes()[..], &sinks.concat()].concat());
                }
                Err(m) => t.fails.push((i, name, AnyCase::Many(c.clone()), m)),
            }
            t
        })
        .reduce(Tot::default, merge)
}

/// what a failure record and a replay file carry: a single-writer case or a history of several live writers
#[derive(Clone, Debug, Serialize, Deserialize)]
enum AnyCase {
    One(Case),
    Many(Writers),
}

impl AnyCase {
    fn signature(&self, family: &str) -> String {
        match self {
            AnyCase::One(c) => c.signature(family),
            AnyCase::Many(c) => c.signature(family),
        }
    }
    fn describe(&self) -> String {
        match self {
            AnyCase::One(c) => format!("fill level {} then {:?}{}, {}", c.fill, c.acts.iter().map(|a| format!("{:?}", a).chars().take(60).collect::<String>()).collect::<Vec<_>>(), if c.via_trait { " through Writable::write" } else { "" }, c.finish_name()),
            AnyCase::Many(c) => format!(
                "{} writers live on one thread over separate sinks, fill levels {:?}; writes in call order {:?}{}; then (writer, flush first) {:?}",
                c.fills.len(),
                c.fills,
                c.steps.iter().map(|(w, a)| format!("w{w}<-{}", format!("{:?}", a).chars().take(60).collect::<String>())).collect::<Vec<_>>(),
                c.elsewhere.as_ref().map_or(String::new(), |(k, a)| format!("; before step {k} another thread creates a writer, writes {:?} and drops it", a.iter().map(|a| format!("{:?}", a).chars().take(40).collect::<String>()).collect::<Vec<_>>())),
                c.finish
            ),
        }
    }
    fn judge(&self) -> Result<(), String> {
        match self {
            AnyCase::One(c) => judge(c).map(|_| ()),
            AnyCase::Many(c) => judge_writers(c).map(|_| ()),
        }
    }
}

// ---------------------------------------------------------------------------------------------

fn int_alphabet() -> Vec<WAct> {
    let mut v = vec![];
    macro_rules! ext {
        ($var:ident, $t:ty) => {
            for x in [0 as $t, 1, <$t>::MIN, <$t>::MAX, <$t>::MAX / 2, 10, 99, 100] {
                v.push(WAct::Int(IntVal::$var(x)));
            }
        };
    }
    ext!(I8, i8);
    ext!(U8, u8);
    ext!(I16, i16);
    ext!(U16, u16);
    ext!(I32, i32);
    ext!(U32, u32);
    ext!(I64, i64);
    ext!(U64, u64);
    ext!(I128, i128);
    ext!(U128, u128);
    ext!(Isize, isize);
    ext!(Usize, usize);
    for x in [-1i128, -9, -10] {
        v.push(WAct::Int(IntVal::I8(x as i8)));
        v.push(WAct::Int(IntVal::I64(x as i64)));
        v.push(WAct::Int(IntVal::I128(x)));
    }
    // every rendered length 1..=39 (unsigned) and 2..=40 (negative)
    let mut p: u128 = 1;
    for _ in 0..39 {
        v.push(WAct::Int(IntVal::U128(p)));
        if p <= i128::MAX as u128 {
            v.push(WAct::Int(IntVal::I128(-(p as i128))));
        }
        v.push(WAct::Int(IntVal::U128(p - 1 + p / 2)));
        p = p.saturating_mul(10);
    }
    v.dedup();
    v
}

fn alphabet(b: usize) -> Vec<WAct> {
    let mut v = int_alphabet();
    for c in [b'a', b'\n', b' '] {
        v.push(WAct::Ch(c));
    }
    for (i, n) in [0usize, 1, 2, 44, 45, 46, b - 1, b, b + 1, 2 * b, 2 * b + 1].into_iter().enumerate() {
        v.push(WAct::Str(n, i as u8));
        v.push(WAct::Owned(n, i as u8 + 1));
    }
    v.push(WAct::VecI64(vec![1, -2, 3]));
    v.push(WAct::VecI64(vec![]));
    v.push(WAct::VecI64(vec![i64::MIN, i64::MAX, 0]));
    // long vectors: element counts around the sizes an implementation might process in blocks
    for n in [255usize, 256, 257, 1023, 1024, 1025, 2049, 4097] {
        v.push(WAct::VecI64((0..n as i64).map(|i| (i * 37 % 1000) - 500).collect()));
    }
    v.push(WAct::VecStr(vec![3, 0, 45]));
    v.push(WAct::VecStr((0..1030).map(|i| i % 7).collect()));
    v.push(WAct::VecVec);
    for k in 2..=8 {
        v.push(WAct::Tup(k));
    }
    for k in 0..4 {
        v.push(WAct::Macro(k));
    }
    for c in [b'\r', b'\t'] {
        v.push(WAct::Ch(c));
    }
    v.extend(text_alphabet(b));
    v
}

/// Strings that are not one word: LF, CR, SP or CR LF at the start, in the middle, at the end, at all three,
/// and at every 17th byte, in strings of 1, 2, 3 and 46 bytes (&str with every separator, String with LF) and
/// of b-1, b+1 and 2b+1 bytes (LF; middle / all three / every 17th).  Distinct texts only.
fn text_alphabet(b: usize) -> Vec<WAct> {
    let mut v: Vec<WAct> = vec![];
    let mut seen = std::collections::HashSet::new();
    let mut add = |a: WAct, v: &mut Vec<WAct>| {
        if seen.insert((matches!(a, WAct::Text { owned: true, .. }), a.expected())) {
            v.push(a);
        }
    };
    for (li, len) in [1usize, 2, 3, 46].into_iter().enumerate() {
        for sep in 0..4u8 {
            for places in [1u8, 2, 4, 7, 8] {
                if places == 8 && len < 46 {
                    continue;
                }
                add(WAct::Text { len, salt: li as u8 + sep, sep, places, owned: false }, &mut v);
                if sep == 0 {
                    add(WAct::Text { len, salt: li as u8 + 5, sep, places, owned: true }, &mut v);
                }
            }
        }
    }
    for (li, len) in [b - 1, b + 1, 2 * b + 1].into_iter().enumerate() {
        for places in [2u8, 7, 8] {
            add(WAct::Text { len, salt: li as u8 + 9, sep: 0, places, owned: false }, &mut v);
            add(WAct::Text { len, salt: li as u8 + 13, sep: 0, places, owned: true }, &mut v);
        }
    }
    v
}

/// The char alphabet of C09's domain ("ASCII strings, chars"): every one of the 128 ASCII chars through
/// `write_char` (the five already in `alphabet` are not repeated), and the same chars inside values of the
/// other supported types: each as a one-char &str, all of them in one &str / String, the control chars in
/// one String, a Vec<String> of the 128 one-char strings, a tuple of three strings that together hold all.
fn char_sweep() -> Vec<WAct> {
    let mut v: Vec<WAct> = (0..128u8).filter(|c| !b"a\n \r\t".contains(c)).map(WAct::Ch).collect();
    v.extend((0..128u8).map(|c| WAct::Ascii { lo: c, hi: c, owned: false }));
    v.push(WAct::Ascii { lo: 0, hi: 127, owned: false });
    v.push(WAct::Ascii { lo: 0, hi: 127, owned: true });
    v.push(WAct::Ascii { lo: 0, hi: 31, owned: true });
    v.push(WAct::VecAscii);
    v.push(WAct::TupAscii);
    v
}

/// Short histories around every ASCII char c: c first, c last, c between two other writes, c twice around a
/// vector, c followed by another char; buffer empty, one byte in it, one byte free, full; flush or drop.
fn build_char_histories(b: usize) -> Vec<Case> {
    let (int, word, vec) = (WAct::Int(IntVal::I32(-12345)), WAct::Str(3, 1), WAct::VecI64(vec![1, -2, 3]));
    let mut cases = vec![];
    for c in 0..128u8 {
        let ch = WAct::Ch(c);
        let histories = [
            vec![ch.clone(), int.clone()],
            vec![word.clone(), ch.clone()],
            vec![int.clone(), ch.clone(), word.clone()],
            vec![ch.clone(), vec.clone(), ch.clone()],
            vec![ch.clone(), WAct::Ch((c + 64) % 128)],
        ];
        for fill in [0, 1, b - 1, b] {
            for h in &histories {
                for flush in [true, false] {
                    cases.push(Case::new(fill, h.clone(), flush, vec![]));
                }
            }
        }
    }
    cases
}

fn fill_levels(b: usize, quick: bool) -> Vec<usize> {
    if !quick {
        return (0..=b).collect();
    }
    let mut v: Vec<usize> = (0..=64).collect();
    v.extend((b - 64..=b).collect::<Vec<_>>());
    v.extend((0..=b).step_by(1021));
    v.sort();
    v.dedup();
    v
}

fn observe_buffer_size() -> Option<usize> {
    // one &str of 3*G bytes: the first flush hands the sink exactly one buffer-full
    let c = Case::new(0, vec![WAct::Str(1 << 20, 0)], true, vec![]);
    let ex = run_case(&c);
    // the length of the first write the sink was offered (recorded even if the execution later panics)
    if ex.first_len == 0 {
        return None;
    }
    Some(ex.first_len)
}

#[derive(Default)]
struct Tot {
    execs: u64,
    flush_triggering: u64,
    near_boundary: u64,
    /// executions in which bytes reached the sink only through the final drop
    delivered_by_drop: u64,
    digest: u64,
    fails: Vec<(usize, &'static str, AnyCase, String)>,
}

fn merge(mut a: Tot, b: Tot) -> Tot {
    a.execs += b.execs;
    a.flush_triggering += b.flush_triggering;
    a.near_boundary += b.near_boundary;
    a.delivered_by_drop += b.delivered_by_drop;
    a.digest = a.digest.wrapping_add(b.digest);
    a.fails.extend(b.fails);
    a
}

fn run_family(name: &'static str, cases: &[Case], b: usize) -> Tot {
    run_family_as(name, cases, b, 0, |_, c| Some(c.clone()))
}

/// One family derived from a list of base cases without materialising a second list: `variant(i, base)` is
/// the case judged at position i (None = not part of this family).  Failures and the digest are keyed by
/// `offset + i`, a position in the BASE list, so they line up between the two build profiles.
fn run_family_as(name: &'static str, cases: &[Case], b: usize, offset: usize, variant: impl Fn(usize, &Case) -> Option<Case> + Sync) -> Tot {
    cases
        .par_iter()
        .enumerate()
        .map(|(i, base)| {
            let c = match variant(i, base) {
                Some(c) => c,
                None => return Tot::default(),
            };
            let i = offset + i;
            let mut t = Tot { execs: 1, ..Default::default() };
            match judge(&c) {
                Ok(ex) => {
                    if ex.calls >= 2 {
                        t.flush_triggering = 1;
                    }
                    if c.fill + 45 >= b && c.fill <= b {
                        t.near_boundary = 1;
                    }
                    if matches!((&ex.out, ex.before_drop), (Ok(bytes), Some(n)) if bytes.len() > n) {
                        t.delivered_by_drop = 1;
                    }
                    // order-independent digest of (case index, sink bytes): equal across build profiles
                    t.digest = fnv(&[&(i as u64).to_le_bytes()[..], ex.out.as_ref().unwrap()].concat());
                }
                Err(m) => t.fails.push((i, name, AnyCase::One(c), m)),
            }
            t
        })
        .reduce(Tot::default, merge)
}

/// every value of a small integer type through one writer, compared with to_string()
fn render_all<T: Copy + ToString + rlib_io::Writable + Send + Sync>(vals: &[T], sep: char) -> Result<u64, (usize, String)> {
    let out = RefCell::new(Vec::new());
    let calls = Cell::new(0);
    let fl = Cell::new(0);
    let r = catch(|| {
        let sink = Sink { out: &out, plan: &[], next: 0, calls: &calls, first_len: &fl };
        let mut w = std::mem::ManuallyDrop::new(Writer::new(Box::new(sink)));
        for v in vals {
            w.write(v);
            w.write_char(sep);
        }
        drop(std::mem::ManuallyDrop::into_inner(w));
    });
    if let Err(p) = r {
        return Err((0, format!("the writer panicked: {p}")));
    }
    let got = out.into_inner();
    let mut pos = 0usize;
    for (i, v) in vals.iter().enumerate() {
        let e = v.to_string();
        let eb = e.as_bytes();
        if got.len() < pos + eb.len() + 1 || &got[pos..pos + eb.len()] != eb || got[pos + eb.len()] != sep as u8 {
            let a = pos.min(got.len());
            let z = (pos + eb.len() + 8).min(got.len());
            return Err((i, format!("value {} rendered as {:?}…", e, String::from_utf8_lossy(&got[a..z]))));
        }
        pos += eb.len() + 1;
    }
    if pos != got.len() {
        return Err((vals.len(), format!("{} extra bytes after the last value", got.len() - pos)));
    }
    Ok(vals.len() as u64)
}

/// One named batch of integers through one writer.  Err((value that was being rendered, message)).
fn run_batch(name: &str, chunk: u32) -> Result<u64, (String, String)> {
    macro_rules! all_small {
        ($t:ty) => {{
            let vals: Vec<$t> = (<$t>::MIN..=<$t>::MAX).collect();
            render_all(&vals, '\n').map_err(|(i, m)| (vals.get(i).map(|v| v.to_string()).unwrap_or_default(), m))
        }};
    }
    macro_rules! boundary {
        ($t:ty) => {{
            let mut vals: Vec<$t> = vec![0, 1, <$t>::MIN, <$t>::MAX, <$t>::MIN + 1, <$t>::MAX - 1];
            let mut p: $t = 1;
            loop {
                vals.extend([p, p - 1, p.wrapping_add(1)]);
                if <$t>::MIN != 0 {
                    vals.extend([(0 as $t).wrapping_sub(p), (0 as $t).wrapping_sub(p).wrapping_sub(1), (0 as $t).wrapping_sub(p).wrapping_add(1)]);
                }
                match p.checked_mul(10) {
                    Some(q) => p = q,
                    None => break,
                }
            }
            let mut p: $t = 1;
            loop {
                vals.extend([p, p - 1, p.wrapping_add(1), (0 as $t).wrapping_sub(p)]);
                match p.checked_mul(2) {
                    Some(q) => p = q,
                    None => break,
                }
            }
            render_all(&vals, ' ').map_err(|(i, m)| (vals.get(i).map(|v| v.to_string()).unwrap_or_default(), m))
        }};
    }
    match name {
        "all:i8" => all_small!(i8),
        "all:u8" => all_small!(u8),
        "all:i16" => all_small!(i16),
        "all:u16" => all_small!(u16),
        "boundary:i32" => boundary!(i32),
        "boundary:u32" => boundary!(u32),
        "boundary:i64" => boundary!(i64),
        "boundary:u64" => boundary!(u64),
        "boundary:i128" => boundary!(i128),
        "boundary:u128" => boundary!(u128),
        "boundary:isize" => boundary!(isize),
        "boundary:usize" => boundary!(usize),
        "chunk:u32" => {
            let base = (chunk as u64) << 20;
            let u: Vec<u32> = (0..(1u64 << 20)).map(|i| (base + i) as u32).collect();
            render_all(&u, '\n').map_err(|(i, m)| (u.get(i).map(|v| v.to_string()).unwrap_or_default(), m))
        }
        "chunk:i32" => {
            let base = (chunk as u64) << 20;
            let s: Vec<i32> = (0..(1u64 << 20)).map(|i| (base + i) as u32 as i32).collect();
            render_all(&s, '\n').map_err(|(i, m)| (s.get(i).map(|v| v.to_string()).unwrap_or_default(), m))
        }
        _ => Err((String::new(), format!("unknown batch {name}"))),
    }
}

const BATCHES: &[&str] = &["all:i8", "all:u8", "all:i16", "all:u16", "boundary:i32", "boundary:u32", "boundary:i64", "boundary:u64", "boundary:i128", "boundary:u128", "boundary:isize", "boundary:usize"];

fn rendering_pass(thorough: bool) -> (u64, Vec<(String, String, Value)>) {
    let mut n = 0u64;
    let mut fails = vec![];
    for b in BATCHES {
        match run_batch(b, 0) {
            Ok(k) => n += k,
            Err((val, m)) => fails.push((format!("render:{b}:{val}"), m, json!({"kind": "render", "batch": b, "chunk": 0}))),
        }
    }
    if thorough {
        // every u32 and every i32, 2^20 values per writer
        let chunks: Vec<u32> = (0..(1u32 << 12)).collect();
        for name in ["chunk:u32", "chunk:i32"] {
            let res: Vec<(u32, Result<u64, (String, String)>)> = chunks.par_iter().map(|c| (*c, run_batch(name, *c))).collect();
            let mut reported = false;
            for (c, r) in res {
                match r {
                    Ok(k) => n += k,
                    Err((val, m)) => {
                        if !reported {
                            reported = true;
                            fails.push((format!("render:{name}:{val}"), m, json!({"kind": "render", "batch": name, "chunk": c})));
                        }
                    }
                }
            }
        }
    }
    (n, fails)
}

fn confirm(v: &Value) -> Result<(), String> {
    if v["kind"] == "render" {
        return run_batch(v["batch"].as_str().unwrap_or(""), v["chunk"].as_u64().unwrap_or(0) as u32).map(|_| ()).map_err(|(val, m)| format!("at value {val}: {m}"));
    }
    if v["kind"] == "profile_digest" {
        return Err("sink contents differ between the release and the debug-assertions build (re-run the check to compare)".into());
    }
    let c: AnyCase = serde_json::from_value(v["case"].clone()).map_err(|e| e.to_string())?;
    c.judge()
}

/// the flush-per-write (debug assertions) build of this engine, next to the release one
fn dbg_binary_path() -> Option<std::path::PathBuf> {
    let exe = std::env::current_exe().ok()?;
    let dbg = std::path::PathBuf::from(exe.to_string_lossy().replace("/release/", "/dbg/"));
    if dbg.exists() && dbg != exe {
        Some(dbg)
    } else {
        None
    }
}

/// `confirm`, with a case found by the debug-assertions pass re-run in that build (also under `--replay`)
fn confirm_routed(v: &Value) -> Result<(), String> {
    if v["kind"] == "dbg_case" && !cfg!(debug_assertions) {
        let dbg = dbg_binary_path().ok_or("the debug-assertions build of this engine does not exist")?;
        let o = std::process::Command::new(&dbg).args(["C09", "quick", "--one-case", &v["case"].to_string()]).output().map_err(|e| e.to_string())?;
        let s = String::from_utf8_lossy(&o.stdout).trim().to_string();
        if !o.status.success() {
            // e.g. a second panic inside a drop that ran while unwinding aborts that process
            return Err(format!("the re-execution in the debug-assertions build ended with {:?} {}", o.status, s));
        }
        return if s == "OK" { Ok(()) } else { Err(s) };
    }
    confirm(v)
}

struct PassOut {
    b: usize,
    families: Vec<(&'static str, Tot, usize)>,
    rendered: u64,
    render_fails: Vec<(String, String, Value)>,
}

fn the_pass(quick: bool, with_rendering_thorough: bool) -> Result<PassOut, String> {
    let b = observe_buffer_size().ok_or("could not observe the writer's buffer size")?;
    if b < 1024 {
        return Err(format!("observed buffer size {b} is implausible"));
    }
    let acts = alphabet(b);
    let sweep = char_sweep();
    let fills = fill_levels(b, quick);
    // the boundary-dense fill levels of the quick tier (in BOTH tiers: see family 1t)
    let derived_fills: std::collections::HashSet<usize> = fill_levels(b, true).into_iter().collect();
    let mut families = vec![];

    // family 1: one write at every fill level, flush or drop
    let mut cases = vec![];
    for &f in &fills {
        for a in &acts {
            // the very long strings only at a reduced set of fill levels
            let long = matches!(a, WAct::Str(n, _) | WAct::Owned(n, _) | WAct::Text { len: n, .. } if *n >= b - 1) || matches!(a, WAct::VecI64(v) if v.len() > 64) || matches!(a, WAct::VecStr(v) if v.len() > 64);
            if long && !(f <= 2 || f + 2 >= b || f % 4093 == 0) {
                continue;
            }
            // the strings with separators inside: every fill level near the two ends, every fourth of the others
            if matches!(a, WAct::Text { .. }) && f > 64 && f + 64 < b && f % 4084 != 0 {
                continue;
            }
            for flush in [true, false] {
                cases.push(Case::new(f, vec![a.clone()], flush, vec![]));
            }
        }
        // the char sweep: every ASCII char through write_char at every boundary-dense fill level, the
        // strings / vectors / tuples holding these chars at the fill levels next to the two ends
        if derived_fills.contains(&f) {
            for a in sweep.iter().filter(|a| matches!(a, WAct::Ch(_)) || f <= 2 || f + 2 >= b) {
                for flush in [true, false] {
                    cases.push(Case::new(f, vec![a.clone()], flush, vec![]));
                }
            }
        }
    }
    let n = cases.len();
    let single = run_family("single_write", &cases, b);

    // family 1t: the same writes through the public trait method `Writable::write(&v, &mut writer)`, then drop.
    // In the flush-per-write build these calls leave their bytes pending, so there too the writer reaches a
    // non-zero fill level and its drop has something to deliver.
    // The two derived families run at the boundary-dense fill levels of the quick tier in BOTH tiers (what a
    // drop delivers depends on the fill level only through the bytes pending; thorough's 65 537 levels are
    // spent on family 1).
    let trait_variant = |c: &Case| -> Option<Case> {
        if c.flush || matches!(c.acts[0], WAct::Macro(_)) || !derived_fills.contains(&c.fill) {
            return None;
        }
        Some(Case { via_trait: true, ..c.clone() })
    };
    let via_trait = run_family_as("trait_calls", &cases, b, 0, |_, c| trait_variant(c));

    // family 1u: the writer goes out of scope by unwinding.  For every (fill level, write action) whose
    // ordinary drop delivered the right bytes in this build (so that the same drop, run while unwinding,
    // cannot panic a second time and abort the process): user code panics after the writes while the writer
    // is alive; afterwards the sink must hold exactly the bytes written.  Both call styles.
    let failed = |t: &Tot| -> std::collections::HashSet<usize> { t.fails.iter().map(|f| f.0).collect() };
    let (single_failed, trait_failed) = (failed(&single), failed(&via_trait));
    let unwound = merge(
        run_family_as("drop_by_unwinding", &cases, b, 0, |i, c| if c.flush || single_failed.contains(&i) || !derived_fills.contains(&c.fill) { None } else { Some(Case { unwind: true, ..c.clone() }) }),
        run_family_as("drop_by_unwinding", &cases, b, n, |i, c| if trait_failed.contains(&i) { None } else { trait_variant(c).map(|c| Case { unwind: true, ..c }) }),
    );
    families.push(("single_write", single, n));
    let executed = via_trait.execs as usize;
    families.push(("trait_calls", via_trait, executed));
    let executed = unwound.execs as usize;
    families.push(("drop_by_unwinding", unwound, executed));

    // family 2: two writes after the fill (a flush between them must not repeat or lose anything)
    let short_acts: Vec<WAct> = acts.iter().filter(|a| !matches!(a, WAct::Text { .. }) && !matches!(a, WAct::Str(n, _) | WAct::Owned(n, _) if *n > 64) && !matches!(a, WAct::VecI64(v) if v.len() > 64) && !matches!(a, WAct::VecStr(v) if v.len() > 64)).cloned().collect();
    let firsts: Vec<&WAct> = short_acts.iter().step_by(7).collect();
    let mut cases = vec![];
    for &f in fills.iter().filter(|f| **f + 80 >= b || **f <= 2) {
        for a in &firsts {
            for c in short_acts.iter().step_by(5) {
                if matches!(a, WAct::Macro(_)) {
                    continue;
                }
                cases.push(Case::new(f, vec![(*a).clone(), c.clone()], f % 2 == 0, vec![]));
            }
        }
    }
    // ... and the second write a string with LF / CR LF inside it, after a first write that leaves a
    // started line, a finished line, or nothing behind (every short text of the alphabet with these separators)
    let t = |len, sep, places| WAct::Text { len, salt: 21, sep, places, owned: false };
    let text_firsts = [WAct::Int(IntVal::I32(-5)), WAct::Ch(b'a'), WAct::Ch(b'\n'), WAct::Str(0, 0), WAct::Str(45, 3), WAct::VecI64(vec![1, -2, 3]), t(3, 0, 4), t(3, 0, 2), t(3, 0, 1), t(46, 3, 2)];
    for &f in fills.iter().filter(|f| **f + 80 >= b || **f <= 2) {
        for a in &text_firsts {
            for c in acts.iter().filter(|c| matches!(c, WAct::Text { len, sep: 0 | 3, .. } if *len <= 64)) {
                cases.push(Case::new(f, vec![a.clone(), c.clone()], f % 2 == 0, vec![]));
            }
        }
    }
    let n = cases.len();
    families.push(("two_writes", run_family("two_writes", &cases, b), n));

    // family 2c: short histories around every ASCII char
    let cases = build_char_histories(b);
    let n = cases.len();
    families.push(("char_histories", run_family("char_histories", &cases, b), n));

    // family 3: sink deviations, up to two per execution
    let mut plans: Vec<Vec<WStep>> = vec![];
    for k in [1usize, 2, 45, b - 1] {
        plans.push(vec![WStep::Accept(k)]);
        plans.push(vec![WStep::Accept(k), WStep::Accept(1)]);
        plans.push(vec![WStep::Accept(k), WStep::Interrupted]);
        plans.push(vec![WStep::Interrupted, WStep::Accept(k)]);
        plans.push(vec![WStep::Accept(usize::MAX), WStep::Accept(k)]);
    }
    plans.push(vec![WStep::Interrupted]);
    plans.push(vec![WStep::Interrupted, WStep::Interrupted]);
    plans.push(vec![WStep::Accept(usize::MAX), WStep::Interrupted]);
    let mut cases = vec![];
    let fault_fills: Vec<usize> = fills.iter().copied().filter(|f| *f + 48 >= b || *f <= 3 || *f % 16333 == 0).collect();
    for &f in &fault_fills {
        let multi_line = [t(46, 0, 2), WAct::Text { len: b + 1, salt: 22, sep: 0, places: 8, owned: false }];
        for a in short_acts.iter().step_by(9).chain(acts.iter().filter(|a| matches!(a, WAct::Str(n, _) if *n >= b - 1))).chain(multi_line.iter()) {
            for p in &plans {
                cases.push(Case::new(f, vec![a.clone()], f % 2 == 1, p.clone()));
            }
        }
    }
    let n = cases.len();
    families.push(("sink_faults", run_family("sink_faults", &cases, b), n));

    // family 4: several writers alive at once on one thread (and one on another thread meanwhile)
    let cases = build_writers_cases(b);
    let n = cases.len();
    families.push(("live_writers", run_writers_family("live_writers", &cases), n));

    let (rendered, render_fails) = rendering_pass(with_rendering_thorough);
    Ok(PassOut { b, families, rendered, render_fails })
}

fn main() {
    let args = Args::parse();
    quiet_panics();
    if args.replay.is_some() {
        Run::replay_main(&args, &confirm_routed);
    }
    let quick = args.tier == Tier::Quick;
    let debug_build = cfg!(debug_assertions);

    if args.extra.first().map(|s| s.as_str()) == Some("--dbg-pass") {
        // child mode: same enumeration in the debug-assertions build; one JSON line on stdout
        let out = match the_pass(quick, false) {
            Ok(p) => {
                let fams: Vec<Value> = p
                    .families
                    .iter()
                    .map(|(name, t, n)| {
                        let first = t.fails.iter().min_by_key(|f| f.0).map(|(_, _, c, m)| json!({"case": c, "message": m}));
                        json!({"name": name, "cases": n, "execs": t.execs, "digest": t.digest, "delivered_by_drop": t.delivered_by_drop, "fails": t.fails.len(), "first_fail": first})
                    })
                    .collect();
                json!({"ok": true, "debug_assertions": debug_build, "buffer": p.b, "families": fams, "rendered": p.rendered,
                       "render_fails": p.render_fails.iter().map(|f| json!({"sig": f.0, "msg": f.1, "replay": f.2})).collect::<Vec<_>>()})
            }
            Err(m) => json!({"ok": false, "error": m}),
        };
        println!("{}", out);
        std::process::exit(0);
    }

    if args.extra.first().map(|s| s.as_str()) == Some("--one-case") {
        let c: AnyCase = serde_json::from_str(&args.extra[1]).expect("case json");
        match c.judge() {
            Ok(()) => println!("OK"),
            Err(m) => println!("{m}"),
        }
        std::process::exit(0);
    }

    let mut run = Run::new(&args, "writer", "model_checking");
    let p = match the_pass(quick, !quick) {
        Ok(p) => p,
        Err(m) => run.machinery_failure(&m),
    };
    run.cov("observed_buffer_size", p.b as u64);
    run.cov("release_build_has_debug_assertions", debug_build);
    let mut execs = 0u64;
    let mut flushers = 0u64;
    let mut near = 0u64;
    let mut fam_json = vec![];
    for (name, t, n) in &p.families {
        execs += t.execs;
        flushers += t.flush_triggering;
        near += t.near_boundary;
        fam_json.push(json!({"family": name, "cases": n, "failing": t.fails.len(), "executions_with_more_than_one_sink_write": t.flush_triggering, "writes_starting_within_45_bytes_of_the_boundary": t.near_boundary, "executions_where_the_final_drop_delivered_bytes": t.delivered_by_drop}));
        if let Some((_, fam, c, m)) = t.fails.iter().min_by_key(|f| f.0) {
            run.violation(Violation::new(c.signature(fam), format!("[{fam}, buffered build] {}: {} ({} cases of this family fail)", c.describe(), m, t.fails.len()), json!({"kind": "case", "case": c})));
        }
    }
    for (sig, m, rep) in &p.render_fails {
        run.violation(Violation::new(sig.clone(), format!("[integer rendering] {m}"), rep.clone()));
    }

    // the same enumeration in the debug-assertions build
    let dbg = match dbg_binary_path() {
        Some(d) => d,
        None => run.machinery_failure("the debug-assertions build of this engine does not exist (run ./check --setup)"),
    };
    let o = std::process::Command::new(&dbg).args([args.prop.as_str(), args.tier.name(), "--dbg-pass"]).output();
    let child: Value = match o {
        Ok(o) if o.status.success() => serde_json::from_str(String::from_utf8_lossy(&o.stdout).lines().last().unwrap_or("")).unwrap_or(json!({"ok": false, "error": "unparseable output"})),
        Ok(o) => json!({"ok": false, "error": format!("exit {:?}: {}", o.status, String::from_utf8_lossy(&o.stderr).chars().take(400).collect::<String>())}),
        Err(e) => json!({"ok": false, "error": e.to_string()}),
    };
    if child["ok"] != true {
        run.machinery_failure(&format!("debug-assertions pass failed: {}", child["error"]));
    }
    if child["debug_assertions"] != true {
        run.machinery_failure("the dbg binary was not built with debug assertions");
    }
    let mut dbg_execs = 0u64;
    let mut dbg_drop_delivered: Vec<(String, u64)> = vec![];
    for (i, f) in child["families"].as_array().cloned().unwrap_or_default().iter().enumerate() {
        dbg_execs += f["execs"].as_u64().unwrap_or(0);
        dbg_drop_delivered.push((f["name"].as_str().unwrap_or("").to_string(), f["delivered_by_drop"].as_u64().unwrap_or(0)));
        if let Some(ff) = f.get("first_fail").filter(|x| !x.is_null()) {
            let c: AnyCase = serde_json::from_value(ff["case"].clone()).unwrap();
            let name = f["name"].as_str().unwrap_or("");
            run.violation(Violation::new(format!("dbg:{}", c.signature(name)), format!("[{name}, flush-per-write (debug assertions) build] {}: {}", c.describe(), ff["message"].as_str().unwrap_or("")), json!({"kind": "dbg_case", "case": c})));
        } else if quick && p.families[i].1.fails.is_empty() && f["cases"].as_u64() == Some(p.families[i].2 as u64) && f["digest"].as_u64() != Some(p.families[i].1.digest) {
            run.violation(Violation::new(format!("profile_digest:{}", f["name"].as_str().unwrap_or("")), format!("family {}: the bytes reaching the sink differ between the buffered and the flush-per-write build", f["name"]), json!({"kind": "profile_digest"})));
        }
    }
    for f in child["render_fails"].as_array().cloned().unwrap_or_default() {
        run.violation(Violation::new(format!("dbg:{}", f["sig"].as_str().unwrap_or("")), format!("[integer rendering, debug build] {}", f["msg"]), f["replay"].clone()));
    }

    let states = fill_levels(p.b, quick).len() as u64;
    run.cov("states", states);
    run.cov("transitions", execs + dbg_execs);
    run.cov("traces_validated_against_impl", execs + dbg_execs);
    run.cov("evaluations", execs + dbg_execs + p.rendered);
    run.cov("distinct_nontrivial", flushers);
    run.cov("executions_buffered_build", execs);
    run.cov("executions_debug_build", dbg_execs);
    run.cov("integers_rendered", p.rendered);
    run.cov("write_alphabet_size", (alphabet(p.b).len() + char_sweep().len()) as u64);
    // non-vacuity of the char alphabet: MEASURED from the two lists the enumeration is built from
    let chars_written: std::collections::BTreeSet<u8> = alphabet(p.b).iter().chain(char_sweep().iter()).filter_map(|a| if let WAct::Ch(c) = a { Some(*c) } else { None }).collect();
    let chars_in_histories: std::collections::BTreeSet<u8> = build_char_histories(p.b).iter().flat_map(|c| c.acts.clone()).filter_map(|a| if let WAct::Ch(c) = a { Some(c) } else { None }).collect();
    run.cov("distinct_ascii_chars_through_write_char", chars_written.len() as u64);
    run.cov("values_of_other_types_holding_arbitrary_ascii_chars", char_sweep().iter().filter(|a| !matches!(a, WAct::Ch(_))).count() as u64);
    if chars_written.len() != 128 || chars_in_histories.len() != 128 || chars_written.iter().any(|c| !c.is_ascii()) {
        run.machinery_failure("the char alphabet is not the 128 ASCII chars");
    }
    run.cov("strings_with_separators_in_alphabet", text_alphabet(p.b).len() as u64);
    run.cov("families", Value::Array(fam_json));
    run.cov("debug_build_executions_where_the_final_drop_delivered_bytes", json!(dbg_drop_delivered.iter().cloned().collect::<std::collections::BTreeMap<String, u64>>()));
    run.cov("exhaustive", !quick);
    run.cov("rule", "state = fill level of the writer's buffer when a write starts (reached by one verbatim string); transitions = executions (fill, write action(s), flush|drop, sink plan) in the buffered build plus the same enumeration in the debug-assertions build; families: single_write (fill x alphabet x {flush, drop}), trait_calls (the same writes through the public trait method Writable::write(&v, &mut writer), which in the flush-per-write build leaves the bytes pending, then drop), drop_by_unwinding (for every (fill, action) of both call styles whose ordinary drop delivered the right bytes: user code panics after the writes while the writer is alive, so the writer is dropped by unwinding; the sink must then hold exactly the bytes written), two_writes (also: every short string of the alphabet with LF / CR LF inside it as the SECOND write, after a first write that leaves a started line, a finished line or nothing), sink_faults, live_writers (two and three writers ALIVE AT ONCE on one thread over separate sinks, fill levels 0 / 5 / B-2: every history of <= 3 writes from a reduced alphabet (integer, LF, word, two-line string, vector, string of B+1 bytes) distributed over the writers in every way, ended in both / all six orders by drop alone and by flush + drop; and one or two writers live here while ANOTHER THREAD creates, uses and drops a writer over its own sink at every point of every history of <= 2 writes; every sink must hold exactly the bytes written to its own writer); the write alphabet contains, besides one-word strings, &str / String values of 1, 2, 3, 46, B-1, B+1 and 2B+1 bytes with LF, CR, SP or CR LF at the start, in the middle, at the end, at all three and at every 17th byte (strings_with_separators_in_alphabet), and the chars LF, SP, CR, TAB; the char sweep: EVERY one of the 128 ASCII chars (control chars, NUL and DEL included) through write_char at every boundary-dense fill level x {flush, drop} (and through the derived families trait_calls / drop_by_unwinding), each of them as a one-char &str, all of them in one &str / String, the 32 control chars in one String, a Vec<String> of the 128 one-char strings and a tuple (&str, String, &str) holding all 128, at the fill levels within 2 of the two ends; char_histories: for every ASCII char c the histories [c, int], [word, c], [int, c, word], [c, vector, c], [c, c+64 mod 128] at fill 0 / 1 / B-1 / B, flush or drop; a single char is read back with read::<char>() unless the reader skips it as white space (then the reader must find nothing), the strings of arbitrary chars are read back as their white-space separated words; all of it, like every other family, in BOTH build profiles; distinct_nontrivial = executions in which the sink received more than one write (a flush happened inside the history); thorough covers ALL B+1 fill levels (trait_calls and drop_by_unwinding: the quick set), quick [0,64] ∪ [B-64,B] ∪ every 1021st");
    let a = alphabet(p.b);
    for (i, act) in a.iter().enumerate().step_by((a.len() / 5).max(1)) {
        let c = Case::new(p.b - (i % 45), vec![act.clone()], i % 2 == 0, vec![]);
        run.sample(json!({"fill_level": c.fill, "write": format!("{:?}", act).chars().take(80).collect::<String>(), "finish": if c.flush { "flush" } else { "drop" }, "expected_tail": String::from_utf8_lossy(&expected_bytes(&c)[c.fill..]).chars().take(60).collect::<String>()}));
    }
    run.assume("'when the writer is dropped' (C09) is read as every drop, including the drop performed by unwinding when user code panics after its writes returned; the harness's user panic happens outside any writer call, and only for histories whose ordinary drop delivered the right bytes in the same build");
    run.assume("live_writers histories are enumerated on the worker threads of the pool (which have run other histories before); a history that fails there is re-run on a fresh thread before it is recorded, and replays run on a fresh thread");
    run.assume("the chars of C09's domain ('ASCII strings, chars') are the 128 ASCII chars U+0000..U+007F, control chars included (each is delivered as its one byte and, unless white space, read back by read::<char>()); non-ASCII chars are outside the domain (write_char keeps only the low byte of the code point) and are not written; Writer has no Writable impl for char, so inside vectors / tuples chars travel as strings");
    run.assume("sinks never return Ok(0) for a non-empty buffer (std's write_all treats that as an error) and report no error other than Interrupted");
    if !run.has_violations() && (near < 1000 || flushers < 1000) {
        run.machinery_failure("too few writes started near the buffer boundary / triggered a flush");
    }
    // non-vacuity of live_writers: in the buffered build a writer flushed in the middle of many histories
    let live_flushed = p.families.iter().find(|f| f.0 == "live_writers").map_or(0, |f| f.1.flush_triggering);
    if !run.has_violations() && (live_flushed < 1000 || text_alphabet(p.b).len() < 40) {
        run.machinery_failure("the live_writers family / the strings with separators are too small");
    }
    // non-vacuity of drop_by_unwinding: in BOTH builds the drop that ran during unwinding had bytes to deliver
    let unwound_rel = p.families.iter().find(|f| f.0 == "drop_by_unwinding").map_or(0, |f| f.1.delivered_by_drop);
    let unwound_dbg = dbg_drop_delivered.iter().find(|f| f.0 == "drop_by_unwinding").map_or(0, |f| f.1);
    if !run.has_violations() && (unwound_rel < 1000 || unwound_dbg < 100) {
        run.machinery_failure(&format!("drop_by_unwinding is vacuous: the drop during unwinding delivered bytes in {unwound_rel} executions of the buffered build and {unwound_dbg} of the flush-per-write build"));
    }
    run.finish(&confirm_routed)
}
