//! C05 — DSU connectivity, sizes, representative stability, log-depth.
//! Form R: reachable-state closure of the real `DSU` for every element count n <= N, every action of
//! the alphabet applied in every reached state; plus a menu of directed long adversarial histories
//! (chains, binomial construction, star) run in a child process with a small stack.

use rlib_dsu::DSU;
use serde::{Deserialize, Serialize};
use vcore::*;

#[derive(Clone, Debug, Serialize, Deserialize)]
enum Act {
    New(usize),
    Un(usize, usize),
    Par(usize),
    Check(usize, usize),
    Size(usize),
    Reset(usize),
    CloneReplace,
    /// `target.clone_from(&dsu)` into a target with a different history, then continue with the target
    CloneFromReplace(u8),
}

#[derive(Clone)]
struct St {
    dsu: DSU,
    /// reference model: component label of every element (label = smallest member)
    lab: Vec<usize>,
    /// representative of every element as last established by a union/reset (None = not yet observed)
    reps: Vec<usize>,
}

struct Sys {
    max_n: usize,
}

/// Parse `p: [..]` and `sz: [..]` out of the derived Debug rendering; None if the layout is different.
fn parse_debug(d: &DSU) -> Option<(Vec<usize>, Vec<usize>)> {
    let s = format!("{:?}", d);
    let grab = |name: &str| -> Option<Vec<usize>> {
        let key = format!("{name}: [");
        let i = s.find(&key)? + key.len();
        let j = s[i..].find(']')? + i;
        let body = s[i..j].trim();
        if body.is_empty() {
            return Some(vec![]);
        }
        body.split(',').map(|t| t.trim().parse::<usize>().ok()).collect()
    };
    Some((grab("p")?, grab("sz")?))
}

fn all_reps(d: &DSU, n: usize) -> Vec<usize> {
    let mut c = d.clone();
    (0..n).map(|v| c.par(v)).collect()
}

fn floor_log2(x: usize) -> usize {
    (usize::BITS - 1 - x.leading_zeros()) as usize
}

impl Sys {
    fn relabel(lab: &mut [usize], a: usize, b: usize) {
        let (la, lb) = (lab[a], lab[b]);
        if la == lb {
            return;
        }
        let (keep, drop) = (la.min(lb), la.max(lb));
        for x in lab.iter_mut() {
            if *x == drop {
                *x = keep;
            }
        }
    }
}

impl System for Sys {
    type State = St;
    type Action = Act;

    fn inits(&self) -> Vec<Act> {
        (0..=self.max_n).map(Act::New).collect()
    }

    fn init(&self, a: &Act) -> Result<St, String> {
        match a {
            Act::New(n) => {
                let dsu = DSU::new(*n);
                let reps = all_reps(&dsu, *n);
                Ok(St { dsu, lab: (0..*n).collect(), reps })
            }
            _ => Err("not a constructor".into()),
        }
    }

    fn actions(&self, s: &St) -> Vec<Act> {
        let n = s.lab.len();
        let mut v = vec![];
        for u in 0..n {
            for w in 0..n {
                v.push(Act::Un(u, w));
            }
        }
        for u in 0..n {
            v.push(Act::Par(u));
        }
        for u in 0..n {
            for w in u..n {
                v.push(Act::Check(u, w));
            }
        }
        for u in 0..n {
            v.push(Act::Size(u));
        }
        let mut rs = vec![0, n.saturating_sub(1), n, n + 1];
        rs.sort();
        rs.dedup();
        for m in rs {
            if m <= self.max_n {
                v.push(Act::Reset(m));
            }
        }
        v.push(Act::CloneReplace);
        for k in 0..4 {
            v.push(Act::CloneFromReplace(k));
        }
        v
    }

    fn step(&self, s: &mut St, a: &Act) -> Result<u64, String> {
        let n = s.lab.len();
        let fp;
        let mut structural = false;
        match *a {
            Act::New(_) => return Err("constructor inside a history".into()),
            Act::Un(u, v) => {
                let expect = s.lab[u] != s.lab[v];
                let got = s.dsu.un(u, v);
                if got != expect {
                    return Err(format!("un({u},{v}) returned {got}, model says the components were {}", if expect { "different" } else { "the same" }));
                }
                Sys::relabel(&mut s.lab, u, v);
                structural = got;
                fp = got as u64;
            }
            Act::Par(v) => {
                let r = s.dsu.par(v);
                if r >= n || s.lab[r] != s.lab[v] {
                    return Err(format!("par({v}) returned {r}, not a member of the component of {v}"));
                }
                if r != s.reps[v] {
                    return Err(format!("par({v}) returned {r} but the representative established after the last union was {}", s.reps[v]));
                }
                fp = r as u64;
            }
            Act::Check(u, v) => {
                let expect = s.lab[u] == s.lab[v];
                let got = s.dsu.check(u, v);
                if got != expect {
                    return Err(format!("check({u},{v}) returned {got}, model {expect}"));
                }
                fp = got as u64;
            }
            Act::Size(v) => {
                let expect = s.lab.iter().filter(|&&l| l == s.lab[v]).count();
                let got = s.dsu.size(v);
                if got != expect {
                    return Err(format!("size({v}) returned {got}, component has {expect} members"));
                }
                fp = got as u64;
            }
            Act::Reset(m) => {
                s.dsu.reset(m);
                s.lab = (0..m).collect();
                structural = true;
                fp = m as u64;
            }
            Act::CloneFromReplace(kind) => {
                // targets: fresh of the same size; same size with everything united; one element more; empty
                let mut t = match kind {
                    0 => DSU::new(n),
                    1 => {
                        let mut t = DSU::new(n);
                        for i in 1..n {
                            t.un(i - 1, i);
                        }
                        t
                    }
                    2 => {
                        let mut t = DSU::new(n + 1);
                        if n >= 1 {
                            t.un(0, n);
                        }
                        t
                    }
                    _ => DSU::new(0),
                };
                t.clone_from(&s.dsu);
                let (a1, a2) = (format!("{:?}", t), format!("{:?}", s.dsu));
                if a1 != a2 {
                    return Err(format!("after target.clone_from(&dsu) the target renders {a1}, the source {a2}"));
                }
                s.dsu = t;
                fp = 0;
            }
            Act::CloneReplace => {
                let c = s.dsu.clone();
                let (a1, a2) = (format!("{:?}", c), format!("{:?}", s.dsu));
                if a1 != a2 {
                    return Err(format!("clone renders {a1}, original {a2}"));
                }
                s.dsu = c;
                fp = 0;
            }
        }
        let n = s.lab.len();
        let reps = all_reps(&s.dsu, n);
        if structural {
            s.reps = reps;
        } else if reps != s.reps {
            return Err(format!("representatives changed from {:?} to {:?} by a non-union action {:?}", s.reps, reps, a));
        }
        Ok(fp)
    }

    fn invariant(&self, s: &St) -> Result<(), String> {
        let n = s.lab.len();
        // representatives: member of the component, identical for all members
        for v in 0..n {
            let r = s.reps[v];
            if r >= n || s.lab[r] != s.lab[v] {
                return Err(format!("representative {r} of {v} is outside its component"));
            }
            for w in 0..n {
                if (s.lab[v] == s.lab[w]) != (s.reps[w] == r) {
                    return Err(format!("elements {v},{w}: same component = {}, same representative = {}", s.lab[v] == s.lab[w], s.reps[w] == r));
                }
            }
        }
        // sizes (on a copy: size() compresses paths)
        let mut c = s.dsu.clone();
        for v in 0..n {
            let expect = s.lab.iter().filter(|&&l| l == s.lab[v]).count();
            let got = c.size(v);
            if got != expect {
                return Err(format!("size({v}) would return {got}, component has {expect} members"));
            }
        }
        // forest depth <= floor(log2(component size)), read from the Debug rendering when it has the
        // parent-array layout
        if let Some((p, _sz)) = parse_debug(&s.dsu) {
            if p.len() == n {
                for v in 0..n {
                    let mut d = 0;
                    let mut x = v;
                    while p[x] != x {
                        if p[x] >= n || s.lab[p[x]] != s.lab[v] {
                            return Err(format!("parent pointer of {x} leaves the component"));
                        }
                        x = p[x];
                        d += 1;
                        if d > n {
                            return Err(format!("parent pointers from {v} form a cycle"));
                        }
                    }
                    let size = s.lab.iter().filter(|&&l| l == s.lab[v]).count();
                    if d > floor_log2(size) {
                        return Err(format!("element {v} is at depth {d} in a component of {size} (> floor(log2) = {})", floor_log2(size)));
                    }
                }
            }
        }
        Ok(())
    }

    fn canon(&self, s: &St) -> Vec<u8> {
        let mut k = format!("{:?}", s.dsu).into_bytes();
        k.push(b'|');
        k.extend(s.lab.iter().map(|&l| l as u8));
        k
    }

    fn kind(&self, a: &Act) -> &'static str {
        match a {
            Act::New(_) => "new",
            Act::Un(..) => "un",
            Act::Par(_) => "par",
            Act::Check(..) => "check",
            Act::Size(_) => "size",
            Act::Reset(_) => "reset",
            Act::CloneReplace => "clone",
            Act::CloneFromReplace(_) => "clone_from",
        }
    }
}

// ---------------------------------------------------------------------------------------------
// directed long histories (child process, small stack): layout-agnostic depth/stack check

/// The named adversarial union order on n = 2^k elements, as a list of (u, v).
fn menu_history(name: &str, n: usize) -> Vec<(usize, usize)> {
    let mut h = vec![];
    match name {
        "chain_up" => (0..n - 1).for_each(|i| h.push((i, i + 1))),
        "chain_up_rev" => (0..n - 1).for_each(|i| h.push((i + 1, i))),
        "chain_down" => (0..n - 1).rev().for_each(|i| h.push((i, i + 1))),
        "chain_down_rev" => (0..n - 1).rev().for_each(|i| h.push((i + 1, i))),
        "star" => (1..n).for_each(|i| h.push((0, i))),
        "star_rev" => (1..n).for_each(|i| h.push((i, 0))),
        // binomial trees: merge equal-size blocks, linking through the LAST element of each block
        "binomial_last" | "binomial_first" | "binomial_cross" | "binomial_cross_rev" => {
            let mut w = 1;
            while w < n {
                let mut s = 0;
                while s + 2 * w <= n {
                    let (a, b) = match name {
                        "binomial_last" => (s + w - 1, s + 2 * w - 1),
                        "binomial_first" => (s, s + w),
                        "binomial_cross" => (s + w - 1, s + w),
                        _ => (s + w, s + w - 1),
                    };
                    h.push((a, b));
                    s += 2 * w;
                }
                w *= 2;
            }
        }
        // grow one big component by always attaching a fresh singleton THROUGH the big side
        "grow_big_first" => (1..n).for_each(|i| h.push((i - 1, i))),
        // pairs, then chain the pairs
        "pairs_then_chain" => {
            (0..n / 2).for_each(|i| h.push((2 * i, 2 * i + 1)));
            (0..n / 2 - 1).for_each(|i| h.push((2 * i + 1, 2 * i + 2)));
        }
        _ => unreachable!(),
    }
    h
}

const MENU: &[&str] = &[
    "chain_up",
    "chain_up_rev",
    "chain_down",
    "chain_down_rev",
    "star",
    "star_rev",
    "binomial_last",
    "binomial_first",
    "binomial_cross",
    "binomial_cross_rev",
    "grow_big_first",
    "pairs_then_chain",
];

/// Child: run one menu history with a deliberately small stack; print one JSON line.
fn menu_child(name: &str, k: u32) -> ! {
    let name = name.to_string();
    let h = std::thread::Builder::new()
        .stack_size(256 * 1024)
        .spawn(move || {
            let n = 1usize << k;
            let mut d = DSU::new(n);
            let hist = menu_history(&name, n);
            let mut maxdepth = 0usize;
            let mut bad: Option<String> = None;
            let mut next_probe = 2usize;
            let mut unions = 0usize;
            for (i, &(u, v)) in hist.iter().enumerate() {
                if d.un(u, v) {
                    unions += 1;
                }
                // probe at every doubling of the number of unions and at the end
                if i + 1 == next_probe || i + 1 == hist.len() {
                    next_probe *= 2;
                    if let Some((p, _)) = parse_debug(&d) {
                        if p.len() == n {
                            // depth of every element, memoised so the probe is O(n)
                            let mut memo = vec![usize::MAX; n];
                            for s in 0..n {
                                let mut path = vec![];
                                let mut x = s;
                                while memo[x] == usize::MAX {
                                    if p[x] == x {
                                        memo[x] = 0;
                                        break;
                                    }
                                    path.push(x);
                                    x = p[x];
                                    if path.len() > n {
                                        bad = Some(format!("parent pointers from {s} form a cycle"));
                                        break;
                                    }
                                }
                                if bad.is_some() {
                                    break;
                                }
                                let mut base = memo[x];
                                while let Some(y) = path.pop() {
                                    base += 1;
                                    memo[y] = base;
                                }
                            }
                            if bad.is_some() {
                                break;
                            }
                            let md = memo.iter().copied().max().unwrap_or(0);
                            maxdepth = maxdepth.max(md);
                            // component size of the deepest element <= n, so floor(log2 n) bounds it
                            // from above only globally; check the exact per-element bound through size()
                            let deepest = memo.iter().position(|&x| x == md).unwrap();
                            let mut c = d.clone();
                            let sz = c.size(deepest);
                            if md > floor_log2(sz) && bad.is_none() {
                                bad = Some(format!("after {} unions element {deepest} is at depth {md} in a component of {sz}", i + 1));
                            }
                        }
                    }
                }
            }
            // lookups on every element (the deep ones recurse)
            let r0 = d.par(0);
            let mut same = 0usize;
            for v in 0..n {
                if d.par(v) == r0 {
                    same += 1;
                }
            }
            let size0 = d.size(0);
            (unions, maxdepth, same, size0, bad)
        })
        .unwrap();
    match h.join() {
        Ok((unions, maxdepth, same, size0, bad)) => {
            println!("{}", json!({"unions": unions, "maxdepth": maxdepth, "same": same, "size0": size0, "bad": bad}));
            std::process::exit(0)
        }
        Err(_) => {
            println!("{}", json!({"panic": true}));
            std::process::exit(3)
        }
    }
}

fn run_menu_case(name: &str, k: u32) -> Result<Value, String> {
    let exe = std::env::current_exe().unwrap();
    let out = std::process::Command::new(exe).args(["C05", "quick", "--menu-child", name, &k.to_string()]).output().map_err(|e| format!("spawn: {e}"))?;
    let n = 1usize << k;
    if !out.status.success() {
        return Err(format!("history {name} on 2^{k} elements: the child process died ({:?}) — lookups exhausted a 256 KiB stack or panicked", out.status));
    }
    let line = String::from_utf8_lossy(&out.stdout);
    let v: Value = serde_json::from_str(line.trim()).map_err(|e| format!("child output: {e}"))?;
    if let Some(b) = v["bad"].as_str() {
        return Err(format!("history {name} on 2^{k} elements: {b}"));
    }
    let expect_unions = n - 1;
    if v["unions"].as_u64() != Some(expect_unions as u64) || v["same"].as_u64() != Some(n as u64) || v["size0"].as_u64() != Some(n as u64) {
        return Err(format!("history {name} on 2^{k} elements: expected {expect_unions} successful unions and one component of {n}; observed {v}"));
    }
    if v["maxdepth"].as_u64().unwrap_or(0) > k as u64 {
        return Err(format!("history {name} on 2^{k} elements: forest depth {} > log2(n) = {k}", v["maxdepth"]));
    }
    Ok(v)
}

fn confirm(v: &Value) -> Result<(), String> {
    if v["kind"] == "menu" {
        return run_menu_case(v["name"].as_str().unwrap(), v["k"].as_u64().unwrap() as u32).map(|_| ());
    }
    let n = v["max_n"].as_u64().unwrap() as usize;
    let hist: Vec<Value> = v["history"].as_array().unwrap().clone();
    replay_history(&Sys { max_n: n }, &hist)
}

fn main() {
    let args = Args::parse();
    if args.extra.first().map(|s| s.as_str()) == Some("--menu-child") {
        menu_child(&args.extra[1], args.extra[2].parse().unwrap());
    }
    quiet_panics();
    if args.replay.is_some() {
        Run::replay_main(&args, &confirm);
    }
    let mut run = Run::new(&args, "dsu", "model_checking");
    let max_n = args.tier.pick(7, 8);
    let sys = Sys { max_n };
    let cfg = ExploreCfg { max_depth: None, max_states: 30_000_000, wall_cap_s: args.tier.pick(120.0, 1500.0) };
    let r = explore(&sys, &cfg);
    run.cov("states", r.states);
    run.cov("transitions", r.transitions);
    run.cov("traces_validated_against_impl", r.transitions);
    run.cov("exploration", r.to_json());
    run.cov("exhaustive", r.closed && r.violation.is_none());
    run.cov("max_elements", max_n as u64);
    run.cov(
        "rule",
        "closure BFS over the real DSU for every element count 0..=N: every un(u,v) (ordered pairs), par, check, size, reset(0,n-1,n,n+1), clone applied in every reached state; state identity = Debug rendering of the DSU + model partition",
    );
    for h in &r.sample_histories {
        run.sample(json!({"history": h}));
    }
    if let Some(f) = &r.violation {
        let sig = format!("closure:{}", serde_json::to_string(&f.history).unwrap());
        run.violation(Violation::new(sig, f.message.clone(), json!({"kind": "closure", "max_n": max_n, "history": f.history})));
    } else if !r.closed {
        run.cov("exhaustive", false);
    }
    // non-vacuity: unions succeeded and failed, depth 2 forests were seen (N >= 4)
    if r.violation.is_none() && (r.distinct_outcomes < 10 || r.states < 1000) {
        run.machinery_failure("closure explored implausibly little");
    }

    // directed long histories
    let ks: Vec<u32> = args.tier.pick(vec![4, 10, 18], vec![4, 7, 10, 14, 17, 20]);
    let mut menu_cases = 0u64;
    let mut menu_maxdepth = 0u64;
    let mut menu_samples = vec![];
    for name in MENU {
        for &k in &ks {
            menu_cases += 1;
            match run_menu_case(name, k) {
                Ok(v) => {
                    menu_maxdepth = menu_maxdepth.max(v["maxdepth"].as_u64().unwrap_or(0));
                    if menu_samples.len() < 4 {
                        menu_samples.push(json!({"menu": name, "elements_log2": k, "observed": v}));
                    }
                }
                Err(m) => run.violation(Violation::new(format!("menu:{name}:2^{k}"), m, json!({"kind": "menu", "name": name, "k": k}))),
            }
        }
    }
    for s in menu_samples {
        run.sample(s);
    }
    run.cov("directed_histories", menu_cases);
    run.cov("directed_histories_note", "NOT exhaustive: a fixed menu of adversarial union orders (chains, stars, binomial constructions) on 2^k elements, each in a child process whose worker thread has a 256 KiB stack");
    run.cov("directed_max_forest_depth", menu_maxdepth);
    run.assume("the derived Debug rendering of DSU shows its complete state (used as state identity and to read the parent array)");
    run.finish(&confirm)
}
