//! C06 — `Modular<M>` is the ring Z/M with canonical representatives and true inverses.
//!
//! Form I (small-scope input enumeration), level "exploration".
//!
//! * Moduli are const generics, so every modulus is instantiated by macro: every M in 2..=64, the
//!   mid-size moduli around the places where M² stops fitting in 31 / 32 bits (46337, 46341, 65536,
//!   65537) and the large moduli 998244353, 1000000007, 2^30, 2^30+3, 2^31-19, 2^31-2, 2^31-1.  The
//!   real operations of each instantiation sit behind a table of fn pointers (`Ops`), the enumerator
//!   itself is not generic.
//! * Small moduli: ALL ordered residue pairs for + - * / and the assigning forms, every residue for
//!   neg / inv / rendering, `new(v)` for every v in [-3M, 3M] ∪ B, `pow(x, e)` for every x and every
//!   e in 0..=max(2M,128) ∪ E.  Mid-size and large moduli: the same families on the stated residue
//!   boundary set (which contains every 2^k and 2^k±1 below M).
//! * Three deterministic schedules of the same case list, every one on threads created for it:
//!   `isolated` (each modulus alone on a fresh thread), `ascending` and `descending` (ONE fresh thread
//!   works through all moduli in that order), so state that leaks between calls or between
//!   instantiations on a thread (thread-local caches, statics inside generic fns) is met both ways round
//!   and independently of how rayon schedules anything.
//! * Replay: a fresh process of the right build profile; the recorded call runs on a fresh thread, once
//!   alone and twice after the same call (same raw arguments) under neighbouring moduli, smaller ones
//!   first and larger ones first.  If that does not show the failure, the replay is the recorded
//!   prefix of the schedule it was found in.  On correct code the extra calls change nothing.
//! * Reference: i128 arithmetic (`rem_euclid`), a cycle-detection power for small moduli and an
//!   MSB-first binary power in u128 for large ones (the code under test is LSB-first).
//! * thorough adds complete inverse tables (every residue 1..M) for the primes 2^31-1 and 998244353.
//! * After its own pass the release binary spawns the `dbg` build of itself (release + overflow-checks +
//!   debug-assertions) with `--dbg-pass`; that child repeats the enumeration, so a wrapped i32 in
//!   `inv`/`new` panics instead of hiding, and prints one JSON line that the parent merges.

use rayon::prelude::*;
use rlib_io::{Reader, Writer};
use rlib_mint::Modular;
use std::collections::BTreeMap;
use vcore::*;

// ---------------------------------------------------------------------------------------------
// the real code, one set of monomorphic entry points per modulus

#[derive(Clone, Copy)]
struct Ops {
    m: u32,
    new: fn(i64) -> u32,
    bin: fn(u8, u32, u32) -> u32,
    bin_assign: fn(u8, u32, u32) -> u32,
    div_mul_back: fn(u32, u32) -> u32,
    neg: fn(u32) -> u32,
    inv: fn(u32) -> u32,
    pow: fn(u32, u64) -> u32,
    eq: fn(u32, u32) -> (bool, bool),
    eq_new: fn(i64, i64) -> (bool, bool),
    display: fn(u32) -> String,
    debug: fn(u32) -> String,
    write: fn(u32) -> Vec<u8>,
    read: fn(&[u8]) -> u32,
}

/// The only public way to obtain a value with a given residue (fields are private).
fn mk<const M: u32>(r: u32) -> Modular<M> {
    Modular::<M>::new(r as i64)
}
fn g_new<const M: u32>(v: i64) -> u32 {
    Modular::<M>::new(v).inner()
}
fn g_bin<const M: u32>(op: u8, x: u32, y: u32) -> u32 {
    let (a, b) = (mk::<M>(x), mk::<M>(y));
    match op {
        0 => a + b,
        1 => a - b,
        2 => a * b,
        _ => a / b,
    }
    .inner()
}
fn g_bin_assign<const M: u32>(op: u8, x: u32, y: u32) -> u32 {
    let (mut a, b) = (mk::<M>(x), mk::<M>(y));
    match op {
        0 => a += b,
        1 => a -= b,
        2 => a *= b,
        _ => a /= b,
    }
    a.inner()
}
fn g_div_mul_back<const M: u32>(x: u32, y: u32) -> u32 {
    let (a, b) = (mk::<M>(x), mk::<M>(y));
    ((a / b) * b).inner()
}
fn g_neg<const M: u32>(x: u32) -> u32 {
    (-mk::<M>(x)).inner()
}
fn g_inv<const M: u32>(x: u32) -> u32 {
    mk::<M>(x).inv().inner()
}
fn g_pow<const M: u32>(x: u32, e: u64) -> u32 {
    mk::<M>(x).pow(e).inner()
}
#[allow(clippy::nonminimal_bool)]
fn g_eq<const M: u32>(x: u32, y: u32) -> (bool, bool) {
    let (a, b) = (mk::<M>(x), mk::<M>(y));
    (a == b, a != b)
}
fn g_eq_new<const M: u32>(v: i64, w: i64) -> (bool, bool) {
    let (a, b) = (Modular::<M>::new(v), Modular::<M>::new(w));
    (a == b, a != b)
}
fn g_display<const M: u32>(x: u32) -> String {
    format!("{}", mk::<M>(x))
}
fn g_debug<const M: u32>(x: u32) -> String {
    format!("{:?}", mk::<M>(x))
}
fn g_write<const M: u32>(x: u32) -> Vec<u8> {
    let mut out: Vec<u8> = Vec::new();
    {
        let mut w = Writer::new(Box::new(&mut out));
        w.write(&mk::<M>(x));
        // dropping the writer flushes
    }
    out
}
fn g_read<const M: u32>(bytes: &[u8]) -> u32 {
    let mut r = Reader::new(Box::new(bytes));
    let x: Modular<M> = r.read();
    x.inner()
}

fn make_ops<const M: u32>() -> Ops {
    Ops {
        m: M,
        new: g_new::<M>,
        bin: g_bin::<M>,
        bin_assign: g_bin_assign::<M>,
        div_mul_back: g_div_mul_back::<M>,
        neg: g_neg::<M>,
        inv: g_inv::<M>,
        pow: g_pow::<M>,
        eq: g_eq::<M>,
        eq_new: g_eq_new::<M>,
        display: g_display::<M>,
        debug: g_debug::<M>,
        write: g_write::<M>,
        read: g_read::<M>,
    }
}

macro_rules! moduli {
    ($($m:literal),* $(,)?) => {
        /// Every instantiated modulus, ascending (= enumeration order).
        const MODULI: &[u32] = &[$($m),*];
        fn ops_for(m: u32) -> Option<Ops> {
            match m {
                $($m => Some(make_ops::<$m>()),)*
                _ => None,
            }
        }
    };
}

moduli!(
    2, 3, 4, 5, 6, 7, 8, 9, 10, 11, 12, 13, 14, 15, 16, 17, 18, 19, 20, 21, 22, 23, 24, 25, 26, 27, 28, 29, 30, 31, 32, 33, 34,
    35, 36, 37, 38, 39, 40, 41, 42, 43, 44, 45, 46, 47, 48, 49, 50, 51, 52, 53, 54, 55, 56, 57, 58, 59, 60, 61, 62, 63, 64,
    46337,      // largest prime with M² < 2^31
    46341,      // smallest M with M² > 2^31
    65536,      // 2^16: largest M with M² <= 2^32
    65537,      // 2^16 + 1 (prime): smallest M whose residue products leave 32 bits
    998244353,  // competition prime
    1000000007, // competition prime
    1073741824, // 2^30
    1073741827, // 2^30 + 3
    2147483629, // 2^31 - 19
    2147483646, // 2^31 - 2
    2147483647, // 2^31 - 1
);

const SMALL_MAX: u32 = 64;

// ---------------------------------------------------------------------------------------------
// reference arithmetic (i128 / u128, nothing shared with the crate under test)

fn ref_new(v: i64, m: u32) -> u32 {
    (v as i128).rem_euclid(m as i128) as u32
}
fn ref_add(x: u32, y: u32, m: u32) -> u32 {
    ((x as i128 + y as i128).rem_euclid(m as i128)) as u32
}
fn ref_sub(x: u32, y: u32, m: u32) -> u32 {
    ((x as i128 - y as i128).rem_euclid(m as i128)) as u32
}
fn ref_mul(x: u32, y: u32, m: u32) -> u32 {
    ((x as i128 * y as i128).rem_euclid(m as i128)) as u32
}
fn ref_neg(x: u32, m: u32) -> u32 {
    ((-(x as i128)).rem_euclid(m as i128)) as u32
}
fn ref_gcd(a: u32, b: u32) -> u32 {
    let (mut a, mut b) = (a as u64, b as u64);
    while b != 0 {
        let t = a % b;
        a = b;
        b = t;
    }
    a as u32
}
/// x^e mod m by walking the sequence 1, x, x², … until it repeats (pre-period μ, period λ) and indexing
/// into the cycle.  No squaring anywhere; usable for small m only.
fn ref_pow_cycle(x: u32, e: u64, m: u32) -> u32 {
    let mut seq: Vec<u32> = vec![];
    let mut seen = vec![usize::MAX; m as usize];
    let mut cur = 1 % m;
    let (mu, lam) = loop {
        if seen[cur as usize] != usize::MAX {
            let mu = seen[cur as usize];
            break (mu, seq.len() - mu);
        }
        seen[cur as usize] = seq.len();
        seq.push(cur);
        cur = ((cur as u64 * x as u64) % m as u64) as u32;
    };
    if e < seq.len() as u64 {
        seq[e as usize]
    } else {
        seq[mu + ((e - mu as u64) % lam as u64) as usize]
    }
}
/// x^e mod m, left-to-right binary method in u128 (the crate under test goes right-to-left).
fn ref_pow_binary(x: u32, e: u64, m: u32) -> u32 {
    let mm = m as u128;
    let mut r: u128 = 1 % mm;
    for bit in (0..64).rev() {
        r = r * r % mm;
        if (e >> bit) & 1 == 1 {
            r = r * (x as u128) % mm;
        }
    }
    r as u32
}
fn ref_pow(x: u32, e: u64, m: u32) -> u32 {
    if m <= 4096 {
        ref_pow_cycle(x, e, m)
    } else {
        ref_pow_binary(x, e, m)
    }
}
fn phi(m: u32) -> u32 {
    let (mut n, mut r, mut p) = (m, m, 2u32);
    while p * p <= n {
        if n % p == 0 {
            while n % p == 0 {
                n /= p;
            }
            r -= r / p;
        }
        p += 1;
    }
    if n > 1 {
        r -= r / n;
    }
    r
}
fn is_prime(m: u32) -> bool {
    if m < 2 {
        return false;
    }
    let mut p = 2u64;
    while p * p <= m as u64 {
        if m as u64 % p == 0 {
            return false;
        }
        p += 1;
    }
    true
}
fn isqrt(m: u32) -> u32 {
    let mut r = (m as f64).sqrt() as u64;
    while r * r > m as u64 {
        r -= 1;
    }
    while (r + 1) * (r + 1) <= m as u64 {
        r += 1;
    }
    r as u32
}

// ---------------------------------------------------------------------------------------------
// the enumerated sets

/// Residues used as operands: all of them for a small modulus, the boundary set for a large one.
fn residues(m: u32) -> Vec<u32> {
    if m <= SMALL_MAX {
        return (0..m).collect();
    }
    let mm = m as i128;
    let s = isqrt(m) as i128;
    let mut v: Vec<i128> = vec![0, 1, 2, 3, mm / 2, (mm + 1) / 2, mm / 2 - 1, (mm + 1) / 2 + 1, mm - 3, mm - 2, mm - 1];
    v.extend([46340, 46341, s - 1, s, s + 1]);
    // every power of two with its two neighbours: where a narrower intermediate type stops being enough
    for k in 1..=31 {
        v.extend([(1i128 << k) - 1, 1i128 << k, (1i128 << k) + 1]);
    }
    let mut out: Vec<u32> = v.into_iter().filter(|&r| r >= 0 && r < mm).map(|r| r as u32).collect();
    out.sort();
    out.dedup();
    out
}

/// Constructor arguments: [-3M, 3M] (small) or r + kM for boundary residues r, |k| <= 3 (large), plus B.
fn new_values(m: u32, res: &[u32]) -> Vec<i64> {
    let mm = m as i128;
    let mut v: Vec<i128> = vec![];
    if m <= SMALL_MAX {
        v.extend(-3 * mm..=3 * mm);
    } else {
        for &r in res {
            for k in -3..=3i128 {
                v.push(r as i128 + k * mm);
            }
        }
    }
    let p31: i128 = 1 << 31;
    let p32: i128 = 1 << 32;
    let p62: i128 = 1 << 62;
    let top = (i64::MAX as i128 / mm) * mm; // largest multiple of M that is an i64
    let b: Vec<i128> = vec![
        0,
        1,
        mm,
        mm - 1,
        mm + 1,
        p31,
        p31 - 1,
        p31 + 1,
        p32,
        p32 - 1,
        p32 + 1,
        p62,
        p62 - 1,
        p62 + 1,
        mm * mm,
        mm * mm - 1,
        mm * (mm - 1),
        (mm - 1) * (mm - 1),
        top,
        top - 1,
        top + 1,
        i64::MAX as i128,
        i64::MAX as i128 - 1,
    ];
    for x in b {
        v.push(x);
        v.push(-x);
    }
    v.push(i64::MIN as i128);
    v.push(i64::MIN as i128 + 1);
    let mut out: Vec<i64> = v.into_iter().filter(|&x| x >= i64::MIN as i128 && x <= i64::MAX as i128).map(|x| x as i64).collect();
    // simplest first: by magnitude, positive before negative
    out.sort_by_key(|&x| (x.unsigned_abs(), x < 0));
    out.dedup();
    out
}

/// Exponents: 0..=128 (every bit pattern of up to 7 bits: square-and-multiply chains of every shape up to
/// seven squarings), 0..=2M for small moduli, and E = {M-2..M+1, 2M} ∪ {2^k, 2^k±1 : k < 64} ∪ {u64::MAX-1, u64::MAX}.
fn exponents(m: u32) -> Vec<u64> {
    let mm = m as u64;
    let mut v: Vec<u64> = vec![mm - 2, mm - 1, mm, mm + 1, 2 * mm, u64::MAX - 1, u64::MAX];
    v.extend(0..=128);
    for k in 1..64 {
        v.extend([(1u64 << k) - 1, 1u64 << k, (1u64 << k) + 1]);
    }
    if m <= SMALL_MAX {
        v.extend(0..=2 * mm);
    }
    v.sort();
    v.dedup();
    v
}

// ---------------------------------------------------------------------------------------------
// one case = one family + its arguments; `check_case` executes the real code once and compares

#[derive(Clone, Copy, PartialEq, Eq, PartialOrd, Ord, Debug)]
enum Fam {
    New,
    Read,
    EqNew,
    Eq,
    Add,
    AddAssign,
    Sub,
    SubAssign,
    Mul,
    MulAssign,
    Div,
    DivAssign,
    Neg,
    Inv,
    Pow,
    Display,
    Debug,
    Write,
}

const ALL_FAMS: [Fam; 18] = [
    Fam::New,
    Fam::Read,
    Fam::EqNew,
    Fam::Eq,
    Fam::Add,
    Fam::AddAssign,
    Fam::Sub,
    Fam::SubAssign,
    Fam::Mul,
    Fam::MulAssign,
    Fam::Div,
    Fam::DivAssign,
    Fam::Neg,
    Fam::Inv,
    Fam::Pow,
    Fam::Display,
    Fam::Debug,
    Fam::Write,
];

impl Fam {
    fn name(self) -> &'static str {
        match self {
            Fam::New => "new",
            Fam::Read => "read",
            Fam::EqNew => "eq_new",
            Fam::Eq => "eq",
            Fam::Add => "add",
            Fam::AddAssign => "add_assign",
            Fam::Sub => "sub",
            Fam::SubAssign => "sub_assign",
            Fam::Mul => "mul",
            Fam::MulAssign => "mul_assign",
            Fam::Div => "div",
            Fam::DivAssign => "div_assign",
            Fam::Neg => "neg",
            Fam::Inv => "inv",
            Fam::Pow => "pow",
            Fam::Display => "display",
            Fam::Debug => "debug",
            Fam::Write => "write",
        }
    }
    fn from_name(s: &str) -> Option<Fam> {
        ALL_FAMS.iter().copied().find(|f| f.name() == s)
    }
}

#[derive(Clone, Copy, Debug)]
struct Case {
    fam: Fam,
    m: u32,
    x: u32,
    y: u32,
    v: i64,
    e: u64,
}

impl Case {
    fn new(fam: Fam, m: u32) -> Case {
        Case { fam, m, x: 0, y: 0, v: 0, e: 0 }
    }
    /// Compact, deterministic rendering of the input (part of the violation signature).
    fn args(&self) -> String {
        match self.fam {
            Fam::New | Fam::Read | Fam::EqNew => format!("M={},v={}", self.m, self.v),
            Fam::Neg | Fam::Inv | Fam::Display | Fam::Debug | Fam::Write => format!("M={},x={}", self.m, self.x),
            Fam::Pow => format!("M={},x={},e={}", self.m, self.x, self.e),
            _ => format!("M={},x={},y={}", self.m, self.x, self.y),
        }
    }
    fn to_json(&self, profile: &str) -> Value {
        json!({"family": self.fam.name(), "m": self.m, "x": self.x, "y": self.y, "v": self.v, "e": self.e, "profile": profile})
    }
    fn from_json(v: &Value) -> Option<Case> {
        Some(Case {
            fam: Fam::from_name(v["family"].as_str()?)?,
            m: v["m"].as_u64()? as u32,
            x: v["x"].as_u64()? as u32,
            y: v["y"].as_u64()? as u32,
            v: v["v"].as_i64()?,
            e: v["e"].as_u64()?,
        })
    }
}

enum Outcome {
    /// executed and agreed with the reference
    Ok { nontrivial: bool, observed: u64 },
    /// not executed: the input lies outside the property's domain (divisor / inverse of a non-unit)
    SkipOutOfDomain,
    /// not executed: `new(r)` does not give residue r, so the operand cannot be built (reported under `new`)
    SkipUnconstructible,
    Fail { label: String, summary: String },
}

/// `what` describes the call; it is only rendered when the call panics.
fn guard<T>(fam: Fam, what: impl FnOnce() -> String, f: impl FnOnce() -> T) -> Result<T, Outcome> {
    catch(f).map_err(|p| {
        let kind = if p.contains("overflow") { "overflow_panic" } else { "panic" };
        Outcome::Fail { label: format!("{kind}_{}", fam.name()), summary: format!("{} panicked: {p}", what()) }
    })
}

/// Renders as the type name `Modular<M>` (only when a message is actually built).
struct TypeName(u32);
impl std::fmt::Display for TypeName {
    fn fmt(&self, f: &mut std::fmt::Formatter) -> std::fmt::Result {
        write!(f, "Modular<{}>", self.0)
    }
}

macro_rules! tri {
    ($e:expr) => {
        match $e {
            Ok(v) => v,
            Err(o) => return o,
        }
    };
}

fn operand(ops: &Ops, r: u32) -> Result<(), Outcome> {
    match catch(|| (ops.new)(r as i64)) {
        Ok(g) if g == r => Ok(()),
        _ => Err(Outcome::SkipUnconstructible),
    }
}

fn fail(c: &Case, summary: String) -> Outcome {
    Outcome::Fail { label: c.fam.name().to_string(), summary }
}

/// Execute ONE case on the real code and compare it with the reference.
fn check_case(ops: &Ops, c: &Case) -> Outcome {
    let m = ops.m;
    let (x, y) = (c.x, c.y);
    let t = TypeName(m);
    match c.fam {
        Fam::New => {
            let want = ref_new(c.v, m);
            let got = tri!(guard(c.fam, || format!("{t}::new({})", c.v), || (ops.new)(c.v)));
            if got != want {
                return fail(c, format!("{t}::new({}).inner() = {got}; the representative of {} modulo {m} in [0,{m}) is {want}", c.v, c.v));
            }
            Outcome::Ok { nontrivial: c.v < 0 || c.v >= m as i64, observed: got as u64 }
        }
        Fam::Read => {
            let want = ref_new(c.v, m);
            let token = format!("{}\n", c.v).into_bytes();
            let got = tri!(guard(c.fam, || format!("reading a {t} from the token \"{}\"", c.v), || (ops.read)(&token)));
            if got != want {
                return fail(c, format!("reading a {t} from the token \"{}\" gave inner() = {got}; new of that integer must be {want}", c.v));
            }
            Outcome::Ok { nontrivial: c.v < 0 || c.v >= m as i64, observed: got as u64 }
        }
        Fam::EqNew => {
            let r = ref_new(c.v, m);
            let other = (r + 1) % m;
            let (eq, ne) = tri!(guard(c.fam, || format!("{t}::new({}) == {t}::new({r})", c.v), || (ops.eq_new)(c.v, r as i64)));
            if !eq || ne {
                return fail(c, format!("{t}::new({}) and {t}::new({r}) denote the same class but == gave {eq}, != gave {ne}", c.v));
            }
            let (eq2, ne2) = tri!(guard(c.fam, || format!("{t}::new({}) == {t}::new({other})", c.v), || (ops.eq_new)(c.v, other as i64)));
            if eq2 || !ne2 {
                return fail(c, format!("{t}::new({}) and {t}::new({other}) denote different classes but == gave {eq2}, != gave {ne2}", c.v));
            }
            Outcome::Ok { nontrivial: c.v < 0 || c.v >= m as i64, observed: 1 }
        }
        Fam::Eq => {
            tri!(operand(ops, x));
            tri!(operand(ops, y));
            let (eq, ne) = tri!(guard(c.fam, || format!("{t}: {x} == {y}"), || (ops.eq)(x, y)));
            if eq != (x == y) || ne != (x != y) {
                return fail(c, format!("{t}: residues {x} and {y}: == gave {eq}, != gave {ne}"));
            }
            Outcome::Ok { nontrivial: false, observed: eq as u64 }
        }
        Fam::Add | Fam::AddAssign | Fam::Sub | Fam::SubAssign | Fam::Mul | Fam::MulAssign => {
            tri!(operand(ops, x));
            tri!(operand(ops, y));
            let (op, sym, assign, want, nontrivial) = match c.fam {
                Fam::Add => (0u8, "+", false, ref_add(x, y, m), x as u64 + y as u64 >= m as u64),
                Fam::AddAssign => (0, "+=", true, ref_add(x, y, m), x as u64 + y as u64 >= m as u64),
                Fam::Sub => (1, "-", false, ref_sub(x, y, m), x < y),
                Fam::SubAssign => (1, "-=", true, ref_sub(x, y, m), x < y),
                Fam::Mul => (2, "*", false, ref_mul(x, y, m), x as u64 * y as u64 >= m as u64),
                _ => (2, "*=", true, ref_mul(x, y, m), x as u64 * y as u64 >= m as u64),
            };
            let f = if assign { ops.bin_assign } else { ops.bin };
            let got = tri!(guard(c.fam, || format!("{t}: {x} {sym} {y}"), || f(op, x, y)));
            if got != want {
                return fail(c, format!("{t}: {x} {sym} {y} gave {got}; the representative of the integer result modulo {m} is {want}"));
            }
            Outcome::Ok { nontrivial, observed: got as u64 }
        }
        Fam::Div | Fam::DivAssign => {
            if ref_gcd(y, m) != 1 {
                return Outcome::SkipOutOfDomain;
            }
            tri!(operand(ops, x));
            tri!(operand(ops, y));
            let assign = c.fam == Fam::DivAssign;
            let sym = if assign { "/=" } else { "/" };
            let f = if assign { ops.bin_assign } else { ops.bin };
            let q = tri!(guard(c.fam, || format!("{t}: {x} {sym} {y}"), || f(3, x, y)));
            let back = ((q as u128 * y as u128) % m as u128) as u32;
            if q >= m || back != x {
                return fail(c, format!("{t}: {x} {sym} {y} gave q = {q}; q must lie in [0,{m}) and q*{y} mod {m} must be {x}, it is {back}"));
            }
            if !assign {
                let b2 = tri!(guard(c.fam, || format!("{t}: ({x} / {y}) * {y}"), || (ops.div_mul_back)(x, y)));
                if b2 != x {
                    return fail(c, format!("{t}: ({x} / {y}) * {y} gave {b2}, expected {x} ({y} is coprime to {m})"));
                }
            }
            Outcome::Ok { nontrivial: y > 1 && x != 0, observed: q as u64 }
        }
        Fam::Neg => {
            tri!(operand(ops, x));
            let want = ref_neg(x, m);
            let got = tri!(guard(c.fam, || format!("{t}: -{x}"), || (ops.neg)(x)));
            if got != want {
                return fail(c, format!("{t}: -({x}) gave {got}; the representative of -{x} modulo {m} is {want}"));
            }
            Outcome::Ok { nontrivial: x != 0, observed: got as u64 }
        }
        Fam::Inv => {
            if ref_gcd(x, m) != 1 {
                return Outcome::SkipOutOfDomain;
            }
            tri!(operand(ops, x));
            let i = tri!(guard(c.fam, || format!("{t}: inv({x})"), || (ops.inv)(x)));
            let prod = ((i as u128 * x as u128) % m as u128) as u32;
            if i >= m || prod != 1 {
                return fail(c, format!("{t}: inv({x}) gave {i}; it must lie in [0,{m}) and {x}*inv mod {m} must be 1, it is {prod}"));
            }
            Outcome::Ok { nontrivial: x > 1, observed: i as u64 }
        }
        Fam::Pow => {
            tri!(operand(ops, x));
            let want = ref_pow(x, c.e, m);
            let got = tri!(guard(c.fam, || format!("{t}: pow({x}, {})", c.e), || (ops.pow)(x, c.e)));
            if got != want {
                return fail(c, format!("{t}: {x}.pow({}) gave {got}; {x}^{} modulo {m} is {want}", c.e, c.e));
            }
            Outcome::Ok { nontrivial: x >= 2 && c.e >= 2, observed: got as u64 }
        }
        Fam::Display | Fam::Debug => {
            tri!(operand(ops, x));
            let (f, which) = if c.fam == Fam::Display { (ops.display, "Display") } else { (ops.debug, "Debug") };
            let got = tri!(guard(c.fam, || format!("{t}: {which} of residue {x}"), || f(x)));
            if got != x.to_string() {
                return fail(c, format!("{t}: {which} of the value with representative {x} printed \"{got}\""));
            }
            Outcome::Ok { nontrivial: x >= 10, observed: x as u64 }
        }
        Fam::Write => {
            tri!(operand(ops, x));
            let got = tri!(guard(c.fam, || format!("{t}: Writer::write of residue {x}"), || (ops.write)(x)));
            if got != x.to_string().into_bytes() {
                return fail(c, format!("{t}: writing the value with representative {x} produced the bytes \"{}\"", String::from_utf8_lossy(&got)));
            }
            Outcome::Ok { nontrivial: x >= 10, observed: x as u64 }
        }
    }
}

/// The same call with the same raw arguments under another modulus, result and panics ignored: what a
/// program that works with several moduli on one thread does between two calls under `c.m`.
fn exec_raw(ops: &Ops, c: &Case) {
    let (x, y) = (c.x, c.y);
    let _ = catch(|| match c.fam {
        Fam::New => drop((ops.new)(c.v)),
        Fam::Read => drop((ops.read)(format!("{}\n", c.v).as_bytes())),
        Fam::EqNew => drop((ops.eq_new)(c.v, c.v)),
        Fam::Eq => drop((ops.eq)(x, y)),
        Fam::Add => drop((ops.bin)(0, x, y)),
        Fam::AddAssign => drop((ops.bin_assign)(0, x, y)),
        Fam::Sub => drop((ops.bin)(1, x, y)),
        Fam::SubAssign => drop((ops.bin_assign)(1, x, y)),
        Fam::Mul => drop((ops.bin)(2, x, y)),
        Fam::MulAssign => drop((ops.bin_assign)(2, x, y)),
        Fam::Div => drop(((ops.bin)(3, x, y), (ops.div_mul_back)(x, y))),
        Fam::DivAssign => drop((ops.bin_assign)(3, x, y)),
        Fam::Neg => drop((ops.neg)(x)),
        Fam::Inv => drop((ops.inv)(x)),
        Fam::Pow => drop((ops.pow)(x, c.e)),
        Fam::Display => drop((ops.display)(x)),
        Fam::Debug => drop((ops.debug)(x)),
        Fam::Write => drop((ops.write)(x)),
    });
}

/// Run `f` on a thread created for it (no thread-local state left behind by anything else).
fn on_fresh_thread<T: Send>(f: impl FnOnce() -> T + Send) -> T {
    std::thread::scope(|s| s.spawn(f).join()).unwrap_or_else(|_| harness_thread_died())
}

/// Calls into the code under test are wrapped in `catch`, so a thread can only die of a harness bug.
fn harness_thread_died() -> ! {
    println!("MACHINERY-FAILURE property=C06 engine=mint a harness thread panicked outside the code under test");
    eprintln!("MACHINERY-FAILURE property=C06 engine=mint a harness thread panicked outside the code under test");
    std::process::exit(2)
}

/// In which order, and in which company, the cases of a modulus are executed.
#[derive(Clone, Copy, PartialEq, Eq, Debug)]
enum Schedule {
    /// the modulus alone on a fresh thread
    Isolated,
    /// one fresh thread works through all moduli, ascending
    Ascending,
    /// one fresh thread works through all moduli, descending
    Descending,
}

impl Schedule {
    fn name(self) -> &'static str {
        match self {
            Schedule::Isolated => "isolated",
            Schedule::Ascending => "ascending",
            Schedule::Descending => "descending",
        }
    }
    fn from_name(s: &str) -> Option<Schedule> {
        [Schedule::Isolated, Schedule::Ascending, Schedule::Descending].into_iter().find(|x| x.name() == s)
    }
    /// The moduli one thread of this schedule executes, in order, when it gets as far as `m`.
    fn thread_order(self, m: u32) -> Vec<u32> {
        match self {
            Schedule::Isolated => vec![m],
            Schedule::Ascending => MODULI.to_vec(),
            Schedule::Descending => MODULI.iter().rev().copied().collect(),
        }
    }
}

// ---------------------------------------------------------------------------------------------
// enumeration of one modulus

#[derive(Default)]
struct Report {
    evaluations: u64,
    per_family: BTreeMap<String, u64>,
    nontrivial: BTreeMap<String, u64>,
    skipped_out_of_domain: u64,
    skipped_unconstructible: u64,
    /// executed cases with a named shape (non-vacuity facts)
    flags: BTreeMap<String, u64>,
    /// label -> first failing case in enumeration order (+ number of failing cases)
    fails: BTreeMap<String, Failure>,
    /// (modulus, family) -> first non-trivial agreeing case
    samples: Vec<Value>,
    /// per modulus: (M, evaluations, units whose inverse was checked)
    per_modulus: Vec<(u32, u64, u64)>,
}

#[derive(Clone)]
struct Failure {
    case: Case,
    /// position of the case in `for_each_case(case.m)`
    index: u64,
    schedule: Schedule,
    summary: String,
    count: u64,
}

impl Report {
    fn bump(map: &mut BTreeMap<String, u64>, k: &str, n: u64) {
        *map.entry(k.to_string()).or_insert(0) += n;
    }

    fn visit(&mut self, ops: &Ops, c: Case, index: u64, schedule: Schedule, have_sample: &mut [bool; 18]) {
        match check_case(ops, &c) {
            Outcome::SkipOutOfDomain => {
                self.skipped_out_of_domain += 1;
                return;
            }
            Outcome::SkipUnconstructible => {
                self.skipped_unconstructible += 1;
                return;
            }
            Outcome::Ok { nontrivial, observed } => {
                if nontrivial {
                    Self::bump(&mut self.nontrivial, c.fam.name(), 1);
                    let idx = ALL_FAMS.iter().position(|f| *f == c.fam).unwrap();
                    if !have_sample[idx] {
                        have_sample[idx] = true;
                        self.samples.push(json!({"family": c.fam.name(), "case": c.args(), "observed": observed, "agrees_with_reference": true}));
                    }
                }
            }
            Outcome::Fail { label, summary } => {
                let e = self.fails.entry(label).or_insert(Failure { case: c, index, schedule, summary, count: 0 });
                e.count += 1;
            }
        }
        self.evaluations += 1;
        Self::bump(&mut self.per_family, c.fam.name(), 1);
        let m = c.m as u64;
        let flag = match c.fam {
            Fam::Add if c.x as u64 + c.y as u64 == m => Some("add_sum_exactly_M"),
            Fam::Sub if c.x == c.y => Some("sub_equal_operands"),
            Fam::Neg if c.x == 0 => Some("neg_of_zero"),
            Fam::New if c.v == i64::MIN => Some("new_i64_min"),
            Fam::New if c.v == i64::MAX => Some("new_i64_max"),
            Fam::New if c.v >= (1 << 31) && c.v < (1 << 33) => Some("new_just_above_i32"),
            Fam::Read if c.v == i64::MIN => Some("read_i64_min"),
            Fam::Pow if c.e == u64::MAX => Some("pow_u64_max"),
            Fam::Pow if (2..=256).contains(&c.x) && (4..=64).contains(&c.e) && m > (1 << 16) => Some("pow_small_base_exponent_4_to_64_large_M"),
            Fam::Mul if c.x as u64 * c.y as u64 >= 1 << 61 => Some("mul_product_at_least_2^61"),
            Fam::Mul if c.x.is_power_of_two() && c.y.is_power_of_two() && c.x.min(c.y) >= 256 && m > (1 << 16) => {
                Some("mul_both_operands_powers_of_two_at_least_2^8_large_M")
            }
            Fam::Inv if c.x as u64 == m - 1 && m > (1 << 30) => Some("inv_of_M-1_near_2^31"),
            _ => None,
        };
        if let Some(f) = flag {
            Self::bump(&mut self.flags, f, 1);
        }
    }

    fn merge(&mut self, o: Report) {
        self.evaluations += o.evaluations;
        for (k, v) in o.per_family {
            Self::bump(&mut self.per_family, &k, v);
        }
        for (k, v) in o.nontrivial {
            Self::bump(&mut self.nontrivial, &k, v);
        }
        for (k, v) in o.flags {
            Self::bump(&mut self.flags, &k, v);
        }
        self.skipped_out_of_domain += o.skipped_out_of_domain;
        self.skipped_unconstructible += o.skipped_unconstructible;
        for (k, f) in o.fails {
            // parts are merged in enumeration order, so the entry already present is the earlier one
            match self.fails.get_mut(&k) {
                Some(e) => e.count += f.count,
                None => {
                    self.fails.insert(k, f);
                }
            }
        }
        self.samples.extend(o.samples);
        self.per_modulus.extend(o.per_modulus);
    }

    fn distinct_nontrivial(&self) -> u64 {
        self.nontrivial.values().sum()
    }
}

/// The cases of one modulus in enumeration order (simplest first); stops as soon as `f` returns false.
fn for_each_case(m: u32, f: &mut dyn FnMut(Case) -> bool) {
    let res = residues(m);
    let vals = new_values(m, &res);
    let exps = exponents(m);
    macro_rules! emit {
        ($c:expr) => {
            if !f($c) {
                return;
            }
        };
    }
    for &v in &vals {
        for fam in [Fam::New, Fam::Read, Fam::EqNew] {
            emit!(Case { v, ..Case::new(fam, m) });
        }
    }
    for &x in &res {
        for fam in [Fam::Neg, Fam::Inv, Fam::Display, Fam::Debug, Fam::Write] {
            emit!(Case { x, ..Case::new(fam, m) });
        }
    }
    for &x in &res {
        for &y in &res {
            for fam in [Fam::Eq, Fam::Add, Fam::AddAssign, Fam::Sub, Fam::SubAssign, Fam::Mul, Fam::MulAssign, Fam::Div, Fam::DivAssign] {
                emit!(Case { x, y, ..Case::new(fam, m) });
            }
        }
    }
    for &x in &res {
        for &e in &exps {
            emit!(Case { x, e, ..Case::new(Fam::Pow, m) });
        }
    }
}

fn enumerate_modulus(ops: &Ops, schedule: Schedule) -> Report {
    let m = ops.m;
    let mut rep = Report::default();
    let mut hs = [false; 18];
    let mut index = 0u64;
    for_each_case(m, &mut |c| {
        rep.visit(ops, c, index, schedule, &mut hs);
        index += 1;
        true
    });
    let units = *rep.per_family.get("inv").unwrap_or(&0);
    for s in rep.samples.iter_mut() {
        s["M"] = json!(m);
    }
    rep.per_modulus.push((m, rep.evaluations, units));
    rep
}

/// One thread of a chained schedule: every modulus in the schedule's order, one after the other.
fn enumerate_chain(schedule: Schedule) -> Report {
    let mut total = Report::default();
    for m in schedule.thread_order(0) {
        total.merge(enumerate_modulus(&ops_for(m).unwrap(), schedule));
    }
    total
}

/// What a thread of `schedule` has executed when it reaches case number `index` of modulus `m`, then that
/// case itself, judged.  (The replay of a failure that needs more history than `histories_for` offers.)
fn replay_schedule_prefix(schedule: Schedule, target: &Case, index: u64) -> Outcome {
    let mut out = Outcome::SkipOutOfDomain;
    for m in schedule.thread_order(target.m) {
        let ops = ops_for(m).unwrap();
        let mut i = 0u64;
        for_each_case(m, &mut |c| {
            if m == target.m && i == index {
                out = check_case(&ops, target);
                return false;
            }
            let _ = check_case(&ops, &c);
            i += 1;
            true
        });
        if m == target.m {
            break;
        }
    }
    out
}

struct Enumerated {
    isolated: Report,
    ascending: Report,
    descending: Report,
    /// label -> its first failure in the first schedule that has one (isolated, ascending, descending)
    fails: BTreeMap<String, Failure>,
}

impl Enumerated {
    fn evaluations(&self) -> u64 {
        self.isolated.evaluations + self.ascending.evaluations + self.descending.evaluations
    }
}

/// The whole enumeration (identical in both tiers and in both build profiles): the three schedules run
/// side by side, each on threads of its own.
fn enumerate_all() -> Enumerated {
    let (isolated, ascending, descending) = std::thread::scope(|s| {
        let asc = s.spawn(|| enumerate_chain(Schedule::Ascending));
        let desc = s.spawn(|| enumerate_chain(Schedule::Descending));
        let parts: Vec<Report> = MODULI.par_iter().map(|&m| on_fresh_thread(|| enumerate_modulus(&ops_for(m).unwrap(), Schedule::Isolated))).collect();
        let mut iso = Report::default();
        for p in parts {
            iso.merge(p); // ascending modulus order
        }
        (iso, asc.join().unwrap_or_else(|_| harness_thread_died()), desc.join().unwrap_or_else(|_| harness_thread_died()))
    });
    let mut fails: BTreeMap<String, Failure> = BTreeMap::new();
    for r in [&isolated, &ascending, &descending] {
        for (label, f) in &r.fails {
            fails.entry(label.clone()).or_insert_with(|| f.clone());
        }
    }
    Enumerated { isolated, ascending, descending, fails }
}

/// Facts that prove the interesting paths ran; Err = the harness did not explore what it claims.
fn non_vacuity(en: &Enumerated) -> Result<(), String> {
    let r = &en.isolated;
    let clean = en.fails.is_empty();
    for f in [
        "add_sum_exactly_M",
        "sub_equal_operands",
        "neg_of_zero",
        "new_i64_min",
        "new_i64_max",
        "new_just_above_i32",
        "read_i64_min",
        "pow_u64_max",
        "pow_small_base_exponent_4_to_64_large_M",
        "mul_product_at_least_2^61",
        "mul_both_operands_powers_of_two_at_least_2^8_large_M",
        "inv_of_M-1_near_2^31",
    ] {
        if r.flags.get(f).copied().unwrap_or(0) == 0 && clean {
            return Err(format!("no executed case of shape {f}"));
        }
    }
    for (name, rep) in [("isolated", &en.isolated), ("ascending", &en.ascending), ("descending", &en.descending)] {
        if rep.per_modulus.len() != MODULI.len() {
            return Err(format!("schedule {name}: not every modulus was enumerated"));
        }
        // on code that holds the property every schedule executes exactly the same cases
        if clean && (rep.evaluations != r.evaluations || rep.per_family != r.per_family || rep.nontrivial != r.nontrivial) {
            return Err(format!("schedule {name} executed {} cases, schedule isolated {}", rep.evaluations, r.evaluations));
        }
    }
    if clean && r.skipped_unconstructible == 0 {
        for &(m, _, units) in &r.per_modulus {
            if m <= SMALL_MAX && units != phi(m) as u64 {
                return Err(format!("modulus {m}: {units} inverses checked, phi({m}) = {}", phi(m)));
            }
        }
        for fam in ALL_FAMS {
            if r.per_family.get(fam.name()).copied().unwrap_or(0) == 0 {
                return Err(format!("family {} was never evaluated", fam.name()));
            }
            if fam != Fam::Eq && r.nontrivial.get(fam.name()).copied().unwrap_or(0) == 0 {
                return Err(format!("family {} has no non-trivial case", fam.name()));
            }
        }
    }
    Ok(())
}

/// The two reference powers must agree with each other and with plain repeated multiplication.
fn reference_self_check() -> Result<(), String> {
    for m in 2..=SMALL_MAX {
        for x in 0..m {
            let mut naive = 1 % m;
            for e in 0..=(2 * m as u64 + 3) {
                let (a, b) = (ref_pow_cycle(x, e, m), ref_pow_binary(x, e, m));
                if a != naive || b != naive {
                    return Err(format!("reference powers disagree: {x}^{e} mod {m}: naive {naive}, cycle {a}, binary {b}"));
                }
                naive = ((naive as u64 * x as u64) % m as u64) as u32;
            }
            for e in exponents(m) {
                if ref_pow_cycle(x, e, m) != ref_pow_binary(x, e, m) {
                    return Err(format!("reference powers disagree: {x}^{e} mod {m}"));
                }
            }
        }
    }
    if phi(12) != 4 || phi(64) != 32 || phi(61) != 60 || ref_new(i64::MIN, 7) != 6 /* 2^63 = 8^21 = 1 mod 7 */ || ref_new(-1, 2147483647) != 2147483646 {
        return Err("reference phi / rem_euclid self-test failed".into());
    }
    Ok(())
}

// ---------------------------------------------------------------------------------------------
// thorough: complete inverse tables

struct TableResult {
    m: u32,
    lo: u32,
    hi: u32, // exclusive
    checked: u64,
    not_self_inverse: u64,
    sum_inverses: u128,
    first_fail: Option<(u32, String)>,
}

const TABLE_CHUNK: u32 = 1 << 22;

fn table_one<const M: u32>(x: u32) -> Result<u32, String> {
    let a = Modular::<M>::new(x as i64);
    if a.inner() != x {
        return Err(format!("Modular<{M}>::new({x}).inner() = {}", a.inner()));
    }
    let i = a.inv().inner();
    let prod = (i as u64 * x as u64) % M as u64;
    if i >= M || prod != 1 {
        return Err(format!("Modular<{M}>: inv({x}) gave {i}; it must lie in [0,{M}) and {x}*inv mod {M} must be 1, it is {prod}"));
    }
    Ok(i)
}

/// x * inv(x) == 1 for every x in [lo, hi) of the PRIME modulus M (every such x is a unit).
fn inverse_table<const M: u32>(lo: u32, hi: u32) -> TableResult {
    let nchunks = (hi - lo).div_ceil(TABLE_CHUNK);
    let parts: Vec<(u64, u64, u128, Option<(u32, String)>)> = (0..nchunks)
        .into_par_iter()
        .map(|c| {
            let a = lo + c * TABLE_CHUNK;
            let b = (a as u64 + TABLE_CHUNK as u64).min(hi as u64) as u32;
            let fast = catch(|| {
                let (mut n, mut nsi, mut sum) = (0u64, 0u64, 0u128);
                for x in a..b {
                    match table_one::<M>(x) {
                        Ok(i) => {
                            n += 1;
                            nsi += (i != x) as u64;
                            sum += i as u128;
                        }
                        Err(s) => return (n, nsi, sum, Some((x, s))),
                    }
                }
                (n, nsi, sum, None)
            });
            match fast {
                Ok(r) => r,
                Err(_) => {
                    // something panicked inside the chunk: find the first such x one element at a time
                    let (mut n, mut nsi, mut sum) = (0u64, 0u64, 0u128);
                    for x in a..b {
                        match catch(|| table_one::<M>(x)) {
                            Ok(Ok(i)) => {
                                n += 1;
                                nsi += (i != x) as u64;
                                sum += i as u128;
                            }
                            Ok(Err(s)) => return (n, nsi, sum, Some((x, s))),
                            Err(p) => return (n, nsi, sum, Some((x, format!("Modular<{M}>: inv({x}) panicked: {p}")))),
                        }
                    }
                    (n, nsi, sum, None)
                }
            }
        })
        .collect();
    let mut t = TableResult { m: M, lo, hi, checked: 0, not_self_inverse: 0, sum_inverses: 0, first_fail: None };
    for (n, nsi, sum, f) in parts {
        t.checked += n;
        t.not_self_inverse += nsi;
        t.sum_inverses += sum;
        if t.first_fail.is_none() {
            t.first_fail = f; // chunks are in ascending order
        }
    }
    t
}

// ---------------------------------------------------------------------------------------------
// the second build profile (overflow checks + debug assertions)

/// True iff THIS binary was compiled with integer overflow checks.
fn overflow_checks_active() -> bool {
    catch(|| {
        let a: i32 = std::hint::black_box(i32::MAX);
        let b: i32 = std::hint::black_box(1);
        std::hint::black_box(a + b)
    })
    .is_err()
}

fn dbg_binary() -> Result<std::path::PathBuf, String> {
    let exe = std::env::current_exe().map_err(|e| format!("current_exe: {e}"))?;
    let comps: Vec<_> = exe.components().collect();
    let pos = comps.iter().rposition(|c| c.as_os_str() == "release").ok_or_else(|| format!("{} has no `release` path component", exe.display()))?;
    let mut p = std::path::PathBuf::new();
    for (i, c) in comps.iter().enumerate() {
        if i == pos {
            p.push("dbg");
        } else {
            p.push(c.as_os_str());
        }
    }
    if !p.is_file() {
        return Err(format!("the overflow-checking build {} does not exist (cargo build --offline --profile dbg -p eng_mint)", p.display()));
    }
    Ok(p)
}

/// The company a replayed call under `m` gets: none; the two nearest smaller and the two nearest larger
/// instantiated moduli, smaller ones first; the same moduli, larger ones first.
fn histories_for(m: u32) -> Vec<Vec<u32>> {
    let Some(p) = MODULI.iter().position(|&x| x == m) else { return vec![vec![]] };
    let up: Vec<u32> = MODULI[p.saturating_sub(2)..p].iter().chain(&MODULI[p + 1..(p + 3).min(MODULI.len())]).copied().collect();
    let down: Vec<u32> = up.iter().rev().copied().collect();
    vec![vec![], up, down]
}

fn replay_json(c: &Case, profile: &str) -> Value {
    let mut v = c.to_json(profile);
    v["histories"] = json!(histories_for(c.m));
    v
}

fn violations_json(en: &Enumerated, profile: &str) -> Vec<Value> {
    en.fails
        .iter()
        .map(|(label, f)| {
            let c = &f.case;
            let mut replay = replay_json(c, profile);
            let mut note = String::new();
            let mut sig_tail = String::new();
            if f.schedule != Schedule::Isolated {
                sig_tail = format!(",schedule={}", f.schedule.name());
                note = format!(
                    "; seen only with history: schedule {} = one thread working through all moduli in that order (no failure of this family with each modulus alone on a fresh thread)",
                    f.schedule.name()
                );
            }
            if confirm(&replay).is_ok() {
                // the short histories do not show it: replay what the thread of the schedule had executed before
                replay.as_object_mut().unwrap().remove("histories");
                replay["schedule_prefix"] = json!({"schedule": f.schedule.name(), "index": f.index});
                note += &format!(
                    "; not reproduced by the call alone or after the same call under neighbouring moduli, so the replay re-executes everything schedule {} runs on that thread before this case (number {} of its modulus)",
                    f.schedule.name(),
                    f.index
                );
            }
            json!({
                "signature": format!("{label}:{}{sig_tail}", c.args()),
                "summary": format!("{} [first of {} failing case(s) of family {label}; build profile {profile}{note}]", f.summary, f.count),
                "replay": replay,
            })
        })
        .collect()
}

/// Child mode: same enumeration, one JSON line, no evidence.
fn dbg_pass_child() -> ! {
    let en = enumerate_all();
    let vac = non_vacuity(&en).err();
    let r = &en.isolated;
    let out = json!({
        "profile": if cfg!(debug_assertions) { "dbg" } else { "release" },
        "debug_assertions": cfg!(debug_assertions),
        "overflow_checks_active": overflow_checks_active(),
        "evaluations": en.evaluations(),
        "evaluations_per_schedule": {"isolated": en.isolated.evaluations, "ascending": en.ascending.evaluations, "descending": en.descending.evaluations},
        "distinct_nontrivial": r.distinct_nontrivial(),
        "per_family_evaluations": r.per_family,
        "skipped_out_of_domain": r.skipped_out_of_domain,
        "skipped_operand_unconstructible": r.skipped_unconstructible,
        "non_vacuity_failure": vac,
        "violations": violations_json(&en, "dbg"),
    });
    println!("{out}");
    std::process::exit(0)
}

/// Child mode: plain re-execution of one recorded case in this process and build profile; one JSON line.
fn confirm_child(arg: &str) -> ! {
    let answer = match serde_json::from_str::<Value>(arg).map_err(|e| e.to_string()).and_then(|v| confirm_here(&v)) {
        Ok(r) => json!({"overflow_checks_active": overflow_checks_active(), "err": r.err()}),
        Err(e) => json!({"machinery": e}),
    };
    println!("{answer}");
    std::process::exit(0)
}

/// Outer Err: the recorded value cannot be executed (machinery).  Inner Err: the case violates the property.
fn confirm_here(v: &Value) -> Result<Result<(), String>, String> {
    let c = Case::from_json(v).ok_or_else(|| format!("malformed replay value {v}"))?;
    let ops = ops_for(c.m).ok_or_else(|| format!("modulus {} is not instantiated in this engine", c.m))?;
    let verdict = |o: Outcome, company: String| match o {
        Outcome::Fail { label, summary } => Err(format!("{label}:{} — {summary}{company}", c.args())),
        _ => Ok(()),
    };
    if let Some(p) = v.get("schedule_prefix") {
        let schedule = p["schedule"].as_str().and_then(Schedule::from_name).ok_or_else(|| format!("malformed schedule_prefix {p}"))?;
        let index = p["index"].as_u64().ok_or_else(|| format!("malformed schedule_prefix {p}"))?;
        let o = on_fresh_thread(|| replay_schedule_prefix(schedule, &c, index));
        return Ok(verdict(o, format!(" [on a fresh thread, after everything schedule {} executes before this case]", schedule.name())));
    }
    let histories: Vec<Vec<u32>> = match v.get("histories") {
        Some(h) => serde_json::from_value(h.clone()).map_err(|e| format!("malformed histories: {e}"))?,
        None => vec![vec![]],
    };
    for h in histories {
        let others: Vec<Ops> = h.iter().map(|&a| ops_for(a).ok_or_else(|| format!("modulus {a} is not instantiated in this engine"))).collect::<Result<_, _>>()?;
        let o = on_fresh_thread(|| {
            for other in &others {
                exec_raw(other, &c);
            }
            check_case(&ops, &c)
        });
        let company = if h.is_empty() { String::new() } else { format!(" [on a fresh thread, after the same call under the moduli {h:?}]") };
        let r = verdict(o, company);
        if r.is_err() {
            return Ok(r);
        }
    }
    Ok(Ok(()))
}

/// A replay that cannot be executed as recorded cannot be decided: exit 2, never a verdict.
fn confirm_machinery_failure(msg: &str) -> ! {
    println!("MACHINERY-FAILURE property=C06 engine=mint {msg}");
    eprintln!("MACHINERY-FAILURE property=C06 engine=mint {msg}");
    std::process::exit(2)
}

/// Plain re-execution of one recorded case in the build profile it was found in.  Every history gets a
/// fresh process (and in it a fresh thread), so nothing the enumeration or another history left behind
/// in thread-local or process-wide state can take part.
fn confirm(v: &Value) -> Result<(), String> {
    let want_dbg = v["profile"] == "dbg";
    let bin = if want_dbg && !cfg!(debug_assertions) {
        dbg_binary().unwrap_or_else(|e| confirm_machinery_failure(&e))
    } else {
        std::env::current_exe().unwrap_or_else(|e| confirm_machinery_failure(&format!("current_exe: {e}")))
    };
    let runs: Vec<Value> = match v.get("histories").and_then(|h| h.as_array()) {
        Some(hs) if v.get("schedule_prefix").is_none() => hs
            .iter()
            .map(|h| {
                let mut one = v.clone();
                one["histories"] = json!([h]);
                one
            })
            .collect(),
        _ => vec![v.clone()],
    };
    for one in runs {
        let out = std::process::Command::new(&bin)
            .args(["C06", "quick", "--confirm-child", &one.to_string()])
            .output()
            .unwrap_or_else(|e| confirm_machinery_failure(&format!("cannot run {}: {e}", bin.display())));
        let line = String::from_utf8_lossy(&out.stdout);
        let r: Value = serde_json::from_str(line.trim()).unwrap_or_else(|e| confirm_machinery_failure(&format!("unreadable answer of {}: {e}", bin.display())));
        if let Some(m) = r["machinery"].as_str() {
            confirm_machinery_failure(m);
        }
        if want_dbg && r["overflow_checks_active"] != true {
            confirm_machinery_failure(&format!("{} was not built with overflow checks", bin.display()));
        }
        if let Some(s) = r["err"].as_str() {
            return Err(s.to_string());
        }
    }
    Ok(())
}

// ---------------------------------------------------------------------------------------------

fn main() {
    let args = Args::parse();
    quiet_panics();
    match args.extra.first().map(|s| s.as_str()) {
        Some("--dbg-pass") => dbg_pass_child(),
        Some("--confirm-child") => confirm_child(args.extra.get(1).map(|s| s.as_str()).unwrap_or("null")),
        _ => {}
    }
    if args.replay.is_some() {
        Run::replay_main(&args, &confirm);
    }
    let mut run = Run::new(&args, "mint", "exploration");
    if let Err(e) = reference_self_check() {
        run.machinery_failure(&e);
    }

    // ---- pass 1: the enumeration, in this (release) build
    let en = enumerate_all();
    if let Err(e) = non_vacuity(&en) {
        run.machinery_failure(&format!("non-vacuity check failed: {e}"));
    }
    for v in violations_json(&en, "release") {
        run.violation(Violation::new(v["signature"].as_str().unwrap(), v["summary"].as_str().unwrap(), v["replay"].clone()));
    }
    let rep = &en.isolated;
    let mut evaluations = en.evaluations();
    let mut distinct = rep.distinct_nontrivial();
    let mut exhaustive = true;
    run.cov("evaluations_enumeration", en.evaluations());
    run.cov(
        "evaluations_per_schedule",
        json!({"isolated": en.isolated.evaluations, "ascending": en.ascending.evaluations, "descending": en.descending.evaluations}),
    );
    run.cov("replay_histories_example", json!({"M": 998244353u32, "histories": histories_for(998244353)}));
    run.cov("per_family_evaluations", json!(rep.per_family));
    run.cov("per_family_nontrivial", json!(rep.nontrivial));
    run.cov("skipped_out_of_domain", rep.skipped_out_of_domain);
    run.cov("skipped_out_of_domain_note", "division by / inverse of a residue that is not coprime to M: not executed, the property only speaks about units");
    run.cov("skipped_operand_unconstructible", rep.skipped_unconstructible);
    run.cov("shapes_executed", json!(rep.flags));
    run.cov("moduli_small", format!("every M in 2..={SMALL_MAX} (all residues, all ordered pairs)"));
    run.cov("moduli_mid_and_large", json!(MODULI.iter().filter(|&&m| m > SMALL_MAX).collect::<Vec<_>>()));
    run.cov("moduli_large_boundary_residues", json!(residues(2147483647)));
    run.cov("exponents_large_moduli", exponents(2147483647).len());
    run.cov("units_checked_small_moduli", rep.per_modulus.iter().filter(|p| p.0 <= SMALL_MAX).map(|p| p.2).sum::<u64>());
    run.cov("per_modulus_evaluations_first_and_last", json!([rep.per_modulus.first().map(|p| (p.0, p.1)), rep.per_modulus.last().map(|p| (p.0, p.1))]));
    if !en.fails.is_empty() {
        run.cov("failing_cases_per_family", json!(en.fails.iter().map(|(k, f)| (k.clone(), json!({"schedule": f.schedule.name(), "cases": f.count}))).collect::<BTreeMap<_, _>>()));
    }
    // samples: VERIF_SEED only rotates which of the recorded cases are printed
    if !rep.samples.is_empty() {
        let n = rep.samples.len();
        for k in 0..12usize {
            let i = ((run.seed as usize % n) + k * (n / 12).max(1)) % n;
            run.sample(rep.samples[i].clone());
        }
    }

    // ---- thorough: complete inverse tables of the two primes
    if args.tier == Tier::Thorough {
        let mut tables = vec![];
        for m in [998244353u32, 2147483647] {
            if !is_prime(m) {
                run.machinery_failure(&format!("{m} is not prime, the inverse table assumes every residue is a unit"));
            }
            let t0 = run.elapsed();
            let (lo, hi) = (1u32, m);
            let t = match m {
                998244353 => inverse_table::<998244353>(lo, hi),
                _ => inverse_table::<2147483647>(lo, hi),
            };
            let secs = run.elapsed() - t0;
            let full = t.lo == 1 && t.hi == m;
            if let Some((x, s)) = &t.first_fail {
                let c = Case { x: *x, ..Case::new(Fam::Inv, m) };
                run.violation(Violation::new(format!("inv_table:{}", c.args()), s.clone(), replay_json(&c, "release")));
            } else {
                if t.checked != (t.hi - t.lo) as u64 {
                    run.machinery_failure(&format!("inverse table of {m}: {} residues checked, {} expected", t.checked, t.hi - t.lo));
                }
                // inversion permutes the units, so a complete table sums to 1 + 2 + … + (M-1)
                if full && t.sum_inverses != (m as u128) * (m as u128 - 1) / 2 {
                    run.machinery_failure(&format!("inverse table of {m}: the inverses do not sum to M(M-1)/2 although every product was 1"));
                }
                if t.not_self_inverse < t.checked - 2 {
                    run.machinery_failure(&format!("inverse table of {m}: implausibly many self-inverse residues"));
                }
            }
            evaluations += t.checked;
            distinct += t.not_self_inverse;
            exhaustive &= full && t.first_fail.is_none();
            tables.push(json!({
                "M": t.m, "from": t.lo, "to_exclusive": t.hi, "residues_checked": t.checked, "not_self_inverse": t.not_self_inverse,
                "complete": full && t.first_fail.is_none(), "holds": t.first_fail.is_none(), "wall_s": (secs * 10.0).round() / 10.0,
            }));
        }
        run.cov("inverse_tables", json!(tables));
    }

    // ---- pass 2: the same enumeration in the overflow-checking build
    let bin = match dbg_binary() {
        Ok(b) => b,
        Err(e) => run.machinery_failure(&e),
    };
    let out = match std::process::Command::new(&bin).args([args.prop.as_str(), "quick", "--dbg-pass"]).output() {
        Ok(o) => o,
        Err(e) => run.machinery_failure(&format!("cannot run {}: {e}", bin.display())),
    };
    let text = String::from_utf8_lossy(&out.stdout).to_string();
    let d: Value = match serde_json::from_str(text.trim()) {
        Ok(v) if out.status.success() => v,
        _ => run.machinery_failure(&format!("{} --dbg-pass died or printed no JSON (status {:?})", bin.display(), out.status)),
    };
    if d["overflow_checks_active"] != true || d["debug_assertions"] != true {
        run.machinery_failure(&format!("{} was not built with overflow checks and debug assertions", bin.display()));
    }
    if let Some(s) = d["non_vacuity_failure"].as_str() {
        run.machinery_failure(&format!("overflow-checking pass: non-vacuity check failed: {s}"));
    }
    let dbg_violations = d["violations"].as_array().cloned().unwrap_or_default();
    if dbg_violations.is_empty() && !run.has_violations() && d["evaluations"].as_u64() != Some(en.evaluations()) {
        run.machinery_failure(&format!("the two build profiles enumerated different numbers of cases: release {}, dbg {}", en.evaluations(), d["evaluations"]));
    }
    for v in &dbg_violations {
        // a signature already reported by the release pass is de-duplicated by `Run::violation`
        run.violation(Violation::new(v["signature"].as_str().unwrap_or("?"), v["summary"].as_str().unwrap_or("?"), v["replay"].clone()));
    }
    let mut dcov = d.clone();
    if let Some(o) = dcov.as_object_mut() {
        o.remove("violations");
        o.insert("violations_found".into(), json!(dbg_violations.len()));
        o.insert("binary".into(), json!(bin.display().to_string()));
    }
    run.cov("overflow_checking_pass", dcov);

    run.cov("evaluations", evaluations);
    run.cov("distinct_nontrivial", distinct);
    run.cov("exhaustive", exhaustive);
    run.cov(
        "exhaustive_scope",
        "complete for the stated finite space: every residue / ordered residue pair of every M in 2..=64; for the 4 mid-size and 7 large moduli the stated boundary sets only (not all residues), except the complete inverse tables of the thorough tier",
    );
    run.cov(
        "rule",
        "per modulus (74 const-generic instantiations: every M in 2..=64; 46337, 46341, 65536, 65537 where M² leaves 31 / 32 bits; 7 large ones up to 2^31-1): new/read/eq_new on every v in [-3M,3M] ∪ B (M > 64: r+kM for boundary residues r, |k|<=3, ∪ B; B reaches i64::MIN/MAX); \
         neg, inv, Display, Debug, Writer output on every residue; ==, + - * / and += -= *= /= on every ordered residue pair (M > 64: boundary residues = 0..3, M/2±1, M-3..M-1, 46340, 46341, isqrt(M)±1 and EVERY 2^k, 2^k±1 below M); \
         pow on every (x, e), e in 0..=128 ∪ 0..=2M (small M) ∪ {M-2..M+1, 2M} ∪ {2^k, 2^k±1 : k<64} ∪ {u64::MAX-1, u64::MAX}; \
         all compared with i128 reference arithmetic; / and inv only for gcd(y,M)=1 (others counted in skipped_out_of_domain). \
         The same case list is executed in three deterministic schedules, each on threads created for it: isolated (every modulus alone on a fresh thread), ascending and descending (one fresh thread works through all moduli in that order), \
         so a result that depends on what the thread did before — under the same or under another modulus — is met with the polluter before and after the victim, independent of rayon's scheduling; evaluations counts all three. \
         A failure is reported for the first schedule that shows it (signature suffix ,schedule=… if that is not `isolated`). Replay: one fresh process per history, the call on a fresh thread, alone and after the same call with the same raw arguments under the 2 nearest smaller and 2 nearest larger instantiated moduli (both orders); \
         if that does not show it, the replay re-executes the recorded prefix of the schedule on a fresh thread. \
         Cases are distinct by construction (de-duplicated argument sets). Non-trivial = the reduction had something to do: new/read/eq_new with v outside [0,M); add with x+y>=M; sub with x<y; mul with x*y>=M; \
         neg of non-zero; inv of a unit > 1; div by a unit > 1 with x != 0; pow with x>=2 and e>=2; rendering of a representative with >= 2 digits; inverse table entries with inv(x) != x. \
         distinct_nontrivial is the measured number of such cases in ONE schedule (isolated) of the release pass.",
    );
    run.assume("state kept by the code under test between calls, if any, is per thread or per process and evolves deterministically with the calls made; the three schedules and the replay histories are deterministic functions of the modulus list");
    run.assume("a value with representative r can only be built through Modular::new(r) (fields are private); every r used as an operand is itself a `new` case, so a wrong constructor is reported under `new` and the dependent cases are counted in skipped_operand_unconstructible");
    run.assume("0^0 = 1 (empty product), as for Rust's integer pow");
    run.finish(&confirm)
}
