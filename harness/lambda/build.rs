// Hands the path of the crate under test (as written in this crate's Cargo.toml) to the engine, which
// writes it into the generated packages.
fn main() {
    let dir = std::env::var("CARGO_MANIFEST_DIR").unwrap();
    let manifest = std::fs::read_to_string(format!("{dir}/Cargo.toml")).unwrap();
    let mut path = None;
    for line in manifest.lines() {
        let l = line.trim();
        if l.starts_with("rlib_lambda") {
            if let Some(i) = l.find("path") {
                let rest = &l[i..];
                if let Some(a) = rest.find('"') {
                    if let Some(b) = rest[a + 1..].find('"') {
                        path = Some(rest[a + 1..a + 1 + b].to_string());
                    }
                }
            }
        }
    }
    let path = path.expect("Cargo.toml of eng_lambda must contain: rlib_lambda = { path = \"...\" }");
    println!("cargo:rustc-env=RLIB_LAMBDA_PATH={path}");
    println!("cargo:rerun-if-changed=Cargo.toml");
    println!("cargo:rerun-if-changed=build.rs");
}
