//! C20 — rec_lambda closures equal explicit recursion for every supported macro shape.
//! Form I over PROGRAMS: the engine generates Rust source for every macro shape (captures = every
//! sequence of length 0..=4 over {&, &mut}, 1..=4 arguments, return type present/absent, recursive calls
//! with/without trailing comma, body templates A-D: plain recursion, early returns, calls in loops and match
//! arms, and argument expressions with effects - a recursive call nested in an argument of a recursive call,
//! arguments that mutate / pop from the mutable captures), compiles the batch against the REAL macro with cargo,
//! runs the produced binary and compares, per shape and per argument tuple, the return values and the
//! final state of every capture of the macro version with the hand-written recursive `fn` that takes the
//! captures explicitly and has the same body text.
//!
//! A shape that does not expand/compile is a violation (family `compile`), a shape whose results differ
//! (or whose macro version panics / kills the process while the hand version does not) is a violation
//! (family `behaviour`).  If rlib_lambda itself does not build, that is a machinery failure, not a verdict.

mod gen;

use gen::{Shape, Tuple};
use rayon::prelude::*;
use std::collections::{BTreeMap, BTreeSet};
use std::io::Read;
use std::path::{Path, PathBuf};
use std::process::{Command, Stdio};
use vcore::*;

/// Path of the crate under test as written in this engine's Cargo.toml (see build.rs).
const CRATE_PATH: &str = env!("RLIB_LAMBDA_PATH");

fn machinery(msg: &str) -> ! {
    println!("MACHINERY-FAILURE property=C20 engine=lambda {msg}");
    eprintln!("MACHINERY-FAILURE property=C20 engine=lambda {msg}");
    std::process::exit(2)
}

/// Phase timings on stderr when VERIF_LAMBDA_TIMING is set (diagnostic only, never part of a verdict).
fn phase(name: &str, t: std::time::Instant) {
    if std::env::var_os("VERIF_LAMBDA_TIMING").is_some() {
        eprintln!("[timing] {name}: {:.1}s", t.elapsed().as_secs_f64());
    }
}

fn gen_root() -> PathBuf {
    vcore::run::verif_root().join("harness/target/lambda_gen")
}

struct Pkg {
    dir: PathBuf,
    name: String,
}

struct BuildErr {
    /// the rustc `message` objects of level error
    errors: Vec<Value>,
    /// their human-readable renderings, concatenated
    rendered: String,
    /// some error belongs to another crate than the generated one (i.e. to rlib_lambda itself)
    foreign: bool,
}

/// Line of src/main.rs that a diagnostic span leads to, following the macro-expansion chain outwards to
/// the invocation site.
fn span_line(span: &Value) -> Option<usize> {
    let mut cur = span;
    let mut found = None;
    for _ in 0..64 {
        if cur["file_name"] == "src/main.rs" {
            found = cur["line_start"].as_u64().map(|l| l as usize);
        }
        let next = &cur["expansion"]["span"];
        if next.is_object() {
            cur = next;
        } else {
            break;
        }
    }
    found
}

/// Attribute every error diagnostic to the shape whose module contains its (outermost) source line.
/// None if some error cannot be attributed — the caller then falls back to compiling shape by shape.
fn attribute(err: &BuildErr, lines: &[(usize, usize, usize)]) -> Option<BTreeMap<usize, String>> {
    let mut out: BTreeMap<usize, String> = BTreeMap::new();
    for m in &err.errors {
        let text = m["message"].as_str().unwrap_or("");
        let spans = m["spans"].as_array().cloned().unwrap_or_default();
        if spans.is_empty() && text.starts_with("aborting due to") {
            continue;
        }
        let line = spans.iter().filter(|s| s["is_primary"] == true).find_map(span_line).or_else(|| spans.iter().find_map(span_line))?;
        let k = lines.partition_point(|&(_, _, last)| last < line);
        let (id, first, _) = *lines.get(k)?;
        if line < first {
            return None; // outside every shape module
        }
        let code = m["code"]["code"].as_str().map(|c| format!("[{c}]")).unwrap_or_default();
        out.entry(id).or_insert_with(|| format!("error{code}: {text}"));
    }
    if out.is_empty() {
        None
    } else {
        Some(out)
    }
}

impl Pkg {
    fn new(sub: &str) -> Pkg {
        Pkg { dir: gen_root().join(sub), name: format!("lambda_gen_{sub}") }
    }
    fn target(&self) -> PathBuf {
        gen_root().join("target")
    }
    fn cargo(&self) -> Command {
        let mut c = Command::new(std::env::var("CARGO_BIN").unwrap_or_else(|_| "cargo".into()));
        c.current_dir(&self.dir)
            .env("CARGO_TARGET_DIR", self.target())
            .env("CARGO_NET_OFFLINE", "true")
            .env_remove("RUSTFLAGS")
            .env_remove("CARGO_ENCODED_RUSTFLAGS")
            .env_remove("CARGO_BUILD_TARGET_DIR")
            .stdin(Stdio::null());
        c
    }
    fn write_if_changed(path: &Path, content: &str) {
        if std::fs::read_to_string(path).ok().as_deref() == Some(content) {
            return;
        }
        if let Some(d) = path.parent() {
            let _ = std::fs::create_dir_all(d);
        }
        if let Err(e) = std::fs::write(path, content) {
            machinery(&format!("cannot write {}: {e}", path.display()));
        }
    }
    /// Write the package (Cargo.toml, .cargo/config.toml with the harness's offline setting, src/main.rs).
    /// Returns the line range of every shape's module in src/main.rs.
    fn write(&self, shapes: &[(usize, Shape)], thorough: bool, with_macro: bool) -> Vec<(usize, usize, usize)> {
        Self::write_if_changed(&self.dir.join("Cargo.toml"), &gen::cargo_toml(&self.name, CRATE_PATH));
        Self::write_if_changed(&self.dir.join(".cargo/config.toml"), "[net]\noffline = true\n");
        let (src, lines) = gen::program_lines(shapes, thorough, with_macro);
        Self::write_if_changed(&self.dir.join("src/main.rs"), &src);
        lines
    }
    /// `cargo build --offline --release` (or `cargo check`, which stops before code generation);
    /// Ok(binary path) or Err(the compiler's diagnostics).
    fn build(&self, verb: &str) -> Result<PathBuf, BuildErr> {
        let t = std::time::Instant::now();
        let out = self.cargo().args([verb, "--offline", "--release", "--quiet", "--message-format=json"]).output();
        phase(&format!("cargo {verb} {}", self.name), t);
        let out = match out {
            Ok(o) => o,
            Err(e) => machinery(&format!("cannot run cargo: {e}")),
        };
        if out.status.success() {
            let bin = self.target().join("release").join(&self.name);
            if verb == "build" && !bin.exists() {
                machinery(&format!("cargo succeeded but {} does not exist", bin.display()));
            }
            return Ok(bin);
        }
        let mut errors = vec![];
        let mut rendered = String::new();
        let mut foreign = false;
        for line in String::from_utf8_lossy(&out.stdout).lines() {
            let v: Value = match serde_json::from_str(line) {
                Ok(v) => v,
                Err(_) => continue,
            };
            if v["reason"] != "compiler-message" || v["message"]["level"] != "error" {
                continue;
            }
            if v["target"]["name"] != self.name.as_str() {
                foreign = true;
            }
            rendered += v["message"]["rendered"].as_str().unwrap_or("");
            errors.push(v["message"].clone());
        }
        if errors.is_empty() {
            // cargo itself failed (manifest, lock file, …): nothing to do with the macro
            machinery(&format!("cargo {verb} failed without compiler diagnostics: {}", first_errors(&String::from_utf8_lossy(&out.stderr), 3)));
        }
        Err(BuildErr { errors, rendered, foreign })
    }
    /// Build only the crate under test and return the path of its rlib (for `rustc --extern`).
    /// If the library itself does not build, no shape can be judged: machinery failure.
    fn build_library(&self) -> PathBuf {
        let out = self
            .cargo()
            .args(["build", "--offline", "--release", "-p", "rlib_lambda", "--message-format=json"])
            .output()
            .unwrap_or_else(|e| machinery(&format!("cannot run cargo: {e}")));
        if !out.status.success() {
            machinery(&format!(
                "the crate under test ({CRATE_PATH}) does not build on its own, no macro shape can be judged: {}",
                first_errors(&String::from_utf8_lossy(&out.stderr), 3)
            ));
        }
        let mut rlib = None;
        for line in String::from_utf8_lossy(&out.stdout).lines() {
            if let Ok(v) = serde_json::from_str::<Value>(line) {
                if v["reason"] == "compiler-artifact" && v["target"]["name"] == "rlib_lambda" {
                    for f in v["filenames"].as_array().cloned().unwrap_or_default() {
                        if let Some(p) = f.as_str() {
                            if p.ends_with(".rlib") {
                                rlib = Some(PathBuf::from(p));
                            }
                        }
                    }
                }
            }
        }
        rlib.unwrap_or_else(|| machinery("cargo did not report the rlib of rlib_lambda"))
    }
}

/// The `error…` lines of a compiler output (deterministic part: no timings, no progress lines).
fn first_errors(stderr: &str, n: usize) -> String {
    let v: Vec<&str> = stderr
        .lines()
        .map(|l| l.trim_end())
        .filter(|l| l.starts_with("error") && !l.starts_with("error: could not compile") && !l.starts_with("error: aborting"))
        .take(n)
        .collect();
    if v.is_empty() {
        stderr.lines().filter(|l| !l.trim().is_empty()).take(n).collect::<Vec<_>>().join(" | ")
    } else {
        v.join(" | ")
    }
}

#[derive(Clone, Debug)]
struct ShapeOut {
    mac: Vec<String>,
    hand: Vec<String>,
    calls_macro: u64,
    calls_hand: u64,
}

struct RunOut {
    results: BTreeMap<usize, ShapeOut>,
    /// shapes during which the process died (stack overflow, abort), with the exit status text
    crashed: Vec<(usize, String)>,
}

/// Run the generated binary; on a crash, attribute it to the announced shape and restart after it.
fn run_binary(bin: &Path, ids: &[usize]) -> RunOut {
    let mut results = BTreeMap::new();
    let mut crashed = vec![];
    let mut from = 0usize;
    let last = ids.iter().copied().max().unwrap_or(0);
    loop {
        let mut child = Command::new(bin)
            .arg(from.to_string())
            .stdin(Stdio::null())
            .stdout(Stdio::piped())
            .stderr(Stdio::null())
            .spawn()
            .unwrap_or_else(|e| machinery(&format!("cannot run {}: {e}", bin.display())));
        let mut text = String::new();
        child.stdout.take().unwrap().read_to_string(&mut text).ok();
        let status = child.wait().unwrap_or_else(|e| machinery(&format!("wait failed: {e}")));
        let mut begun: Option<usize> = None;
        let mut done = false;
        for line in text.lines() {
            let v: Value = match serde_json::from_str(line) {
                Ok(v) => v,
                Err(_) => continue, // a torn last line of a crashed process
            };
            if let Some(b) = v["begin"].as_u64() {
                begun = Some(b as usize);
            } else if v["done"] == true {
                done = true;
            } else if let Some(id) = v["id"].as_u64() {
                let strs = |k: &str| -> Vec<String> {
                    v[k].as_array().map(|a| a.iter().map(|x| x.as_str().unwrap_or("?").to_string()).collect()).unwrap_or_default()
                };
                results.insert(
                    id as usize,
                    ShapeOut {
                        mac: strs("macro"),
                        hand: strs("hand"),
                        calls_macro: v["calls_macro"].as_u64().unwrap_or(0),
                        calls_hand: v["calls_hand"].as_u64().unwrap_or(0),
                    },
                );
                begun = None;
            }
        }
        if done && status.success() {
            break;
        }
        match begun {
            Some(b) if !results.contains_key(&b) => {
                crashed.push((b, format!("{status}")));
                // every restart begins after the shape that died, so the loop ends after at most one run per shape
                if b >= last {
                    break;
                }
                from = b + 1;
            }
            _ => machinery(&format!("the generated binary ended abnormally ({status}) outside any shape")),
        }
    }
    RunOut { results, crashed }
}

/// Compile every shape separately (metadata only) with `rustc --extern rlib_lambda=<rlib>`, in parallel.
/// Returns the compiler's error lines for each shape that does not compile.
fn check_each(pkg: &Pkg, shapes: &[(usize, Shape)], thorough: bool) -> BTreeMap<usize, String> {
    let rlib = pkg.build_library();
    let dir = pkg.dir.join("single");
    let _ = std::fs::remove_dir_all(&dir);
    if let Err(e) = std::fs::create_dir_all(&dir) {
        machinery(&format!("cannot create {}: {e}", dir.display()));
    }
    let rustc = std::env::var("RUSTC_BIN").unwrap_or_else(|_| "rustc".into());
    let compile = |file: &Path| -> Result<(), String> {
        let out = Command::new(&rustc)
            .current_dir(&dir)
            .args(["--edition", "2021", "--crate-type", "bin", "--emit=metadata", "--extern"])
            .arg(format!("rlib_lambda={}", rlib.display()))
            .arg("--out-dir")
            .arg(&dir)
            .arg(file)
            .stdin(Stdio::null())
            .output()
            .unwrap_or_else(|e| machinery(&format!("cannot run rustc: {e}")));
        if out.status.success() {
            Ok(())
        } else {
            Err(String::from_utf8_lossy(&out.stderr).to_string())
        }
    };
    // control: a program with no shape at all must compile this way, otherwise the per-shape verdicts
    // would be about the tool chain, not about the macro
    let control = dir.join("control.rs");
    Pkg::write_if_changed(&control, &gen::program(&[], thorough, true));
    if let Err(e) = compile(&control) {
        machinery(&format!("the control program (no macro invocation) does not compile with rustc --extern: {}", first_errors(&e, 3)));
    }
    let t = std::time::Instant::now();
    let failures: Vec<(usize, String)> = shapes
        .par_iter()
        .filter_map(|(id, sh)| {
            let file = dir.join(format!("shape_{id}.rs"));
            Pkg::write_if_changed(&file, &gen::program(&[(*id, sh.clone())], thorough, true));
            let err = compile(&file).err()?;
            Some((*id, first_errors(&err, 2)))
        })
        .collect();
    phase("per-shape rustc", t);
    failures.into_iter().collect()
}

/// First argument tuple on which the two versions differ.
fn first_difference(sh: &Shape, out: &ShapeOut, grid: &[Tuple]) -> Option<(usize, String)> {
    if out.mac.len() != grid.len() || out.hand.len() != grid.len() {
        machinery(&format!("shape {} produced {} / {} results for {} tuples", sh.descriptor(), out.mac.len(), out.hand.len(), grid.len()));
    }
    for i in 0..grid.len() {
        if out.hand[i] == "PANIC" {
            machinery(&format!("the hand-written reference of {} panicked on {}", sh.descriptor(), gen::tuple_text(&grid[i], sh.nargs)));
        }
        if out.mac[i] != out.hand[i] {
            return Some((
                i,
                format!(
                    "shape {} on arguments {} (called twice: with these, then with the first argument decreased by 1): rec_lambda version gave (r1, r2, captures…) = {} but the hand-written recursive fn gave {}",
                    sh.descriptor(),
                    gen::tuple_text(&grid[i], sh.nargs),
                    out.mac[i],
                    out.hand[i]
                ),
            ));
        }
    }
    None
}

/// Plain re-execution of ONE shape: generate a package with just that shape, compile, run, compare.
fn confirm(v: &Value) -> Result<(), String> {
    let sh: Shape = serde_json::from_value(v["shape"].clone()).map_err(|e| format!("bad replay: {e}")).unwrap_or_else(|e| machinery(&e));
    let thorough = v["grid"] == "thorough";
    let pkg = Pkg::new("replay");
    pkg.write(&[(0, sh.clone())], thorough, true);
    let bin = match pkg.build("build") {
        Ok(b) => b,
        Err(err) => {
            if err.foreign {
                pkg.build_library(); // exits 2: the library itself is what does not build
            }
            // the same program without the macro invocation must build, else the generator is at fault
            let ctl = Pkg::new("replay_control");
            ctl.write(&[(0, sh.clone())], thorough, false);
            if let Err(e) = ctl.build("check") {
                machinery(&format!("generator defect: the hand-written version of {} does not compile: {}", sh.descriptor(), first_errors(&e.rendered, 2)));
            }
            return Err(format!("shape {} does not compile against the macro: {}", sh.descriptor(), first_errors(&err.rendered, 2)));
        }
    };
    let out = run_binary(&bin, &[0]);
    if let Some((_, status)) = out.crashed.first() {
        return Err(format!("shape {}: the process running the rec_lambda version died ({status}) — unbounded recursion or abort", sh.descriptor()));
    }
    let grid = gen::grid(thorough, sh.nargs);
    let o = out.results.get(&0).unwrap_or_else(|| machinery("replay binary printed no result"));
    match first_difference(&sh, o, &grid) {
        Some((_, msg)) => Err(msg),
        None => Ok(()),
    }
}

fn main() {
    let args = Args::parse();
    quiet_panics();
    if args.replay.is_some() {
        Run::replay_main(&args, &confirm);
    }
    let mut run = Run::new(&args, "lambda", "exploration");
    let thorough = args.tier == Tier::Thorough;
    // (body template, argument counts).  Quick: template A with every argument count, and template D
    // (argument expressions with effects) with the two extreme argument counts - 1: the only argument carries
    // the nested call and the mutation, 4: they sit in the first and in the last argument.
    let all = vec![1usize, 2, 3, 4];
    let plan: Vec<(char, Vec<usize>)> = args.tier.pick(
        vec![('A', all.clone()), ('D', vec![1, 4])],
        vec![('A', all.clone()), ('B', all.clone()), ('C', all.clone()), ('D', all.clone())],
    );
    let bodies: Vec<char> = plan.iter().map(|(b, _)| *b).collect();
    let shapes: Vec<(usize, Shape)> = gen::enumerate(&plan).into_iter().enumerate().collect();
    let expected_programs: usize = plan.iter().map(|(_, a)| 31 * a.len() * 2 * 2).sum();
    if shapes.len() != expected_programs {
        run.machinery_failure(&format!("enumerated {} shapes, expected {expected_programs}", shapes.len()));
    }
    let patterns: BTreeSet<Vec<bool>> = shapes.iter().map(|(_, s)| s.caps.clone()).collect();
    if patterns.len() != 31 {
        run.machinery_failure("the 31 capture patterns were not all enumerated");
    }

    // non-vacuity of the argument-effect family: every capture pattern with a mutable capture has, for each
    // call syntax, a shape whose invocation text nests a recursive call inside an argument of a recursive
    // call AND has an argument expression that mutates (push / pop / assignment) a mutable capture
    let mut nested_arg_shapes = 0u64;
    let mut mutating_arg_shapes = 0u64;
    let mut covered: BTreeSet<(Vec<bool>, bool)> = BTreeSet::new();
    for (_, sh) in &shapes {
        let text = gen::macro_invocation(sh, "");
        let (nested, mutating) = (gen::has_nested_call_argument(&text), gen::has_mutating_argument(&text));
        nested_arg_shapes += nested as u64;
        mutating_arg_shapes += mutating as u64;
        if nested && mutating {
            covered.insert((sh.caps.clone(), sh.trailing));
        }
        if mutating && sh.n_mut() == 0 {
            run.machinery_failure(&format!("shape {} is reported to mutate a capture in an argument but has no mutable capture", sh.descriptor()));
        }
    }
    for caps in patterns.iter().filter(|c| c.contains(&true)) {
        for trailing in [false, true] {
            if !covered.contains(&(caps.clone(), trailing)) {
                run.machinery_failure(&format!(
                    "capture pattern {caps:?}, trailing comma {trailing}: no shape has a recursive call nested in an argument together with an argument that mutates a mutable capture"
                ));
            }
        }
    }

    let pkg = Pkg::new(args.tier.name());
    let tier_name = args.tier.name();
    let replay_of = |sh: &Shape, family: &str| json!({"family": family, "shape": sh, "grid": tier_name, "descriptor": sh.descriptor()});

    // ---- compile the whole batch; on failure name the offending shapes ----
    // The compiler's diagnostics (followed through the macro-expansion chain to the invocation site) name
    // the failing shapes; those are removed and the rest is compiled again, until the batch builds (later
    // compiler phases only run once the earlier ones are clean, so this can take a few rounds).  If some
    // diagnostic cannot be attributed, every remaining shape is compiled on its own with rustc --extern.
    let t0 = std::time::Instant::now();
    let mut compile_failures: BTreeMap<usize, String> = BTreeMap::new();
    let mut remaining: Vec<(usize, Shape)> = shapes.clone();
    let mut rounds = 0u64;
    let mut attribution = "none needed (the batch compiled)";
    let bin = loop {
        let lines = pkg.write(&remaining, thorough, true);
        rounds += 1;
        let err = match pkg.build("build") {
            Ok(b) => break b,
            Err(e) => e,
        };
        if err.foreign {
            pkg.build_library(); // exits 2: the library itself does not build
        }
        // VERIF_LAMBDA_PER_SHAPE forces the fallback (used to test it); both routes name the same shapes
        let force = std::env::var_os("VERIF_LAMBDA_PER_SHAPE").is_some();
        let found = if rounds <= 8 && !force { attribute(&err, &lines) } else { None };
        let found = match found {
            Some(f) => {
                attribution = "compiler diagnostics of the batch, traced to the invocation site";
                f
            }
            None => {
                attribution = "every shape compiled on its own with rustc --extern";
                let f = check_each(&pkg, &remaining, thorough);
                if f.is_empty() {
                    run.machinery_failure(&format!(
                        "the batch of {} shapes does not compile but every shape compiles on its own: {}",
                        remaining.len(),
                        first_errors(&err.rendered, 3)
                    ));
                }
                f
            }
        };
        remaining.retain(|(id, _)| !found.contains_key(id));
        compile_failures.extend(found);
        if remaining.is_empty() {
            // nothing compiles: still build the (empty) driver so that the run phase is uniform
            continue;
        }
    };
    if !compile_failures.is_empty() {
        // the same shapes WITHOUT the macro invocation must compile, otherwise the generator is at fault
        // and no verdict may be given
        let failing: Vec<(usize, Shape)> = shapes.iter().filter(|(id, _)| compile_failures.contains_key(id)).cloned().collect();
        let ctl = Pkg::new(&format!("{}_control", args.tier.name()));
        ctl.write(&failing, thorough, false);
        if let Err(e) = ctl.build("check") {
            run.machinery_failure(&format!(
                "generator defect: the hand-written versions of the shapes that fail to compile do not compile either: {}",
                first_errors(&e.rendered, 3)
            ));
        }
    }
    run.cov("compile_rounds", rounds);
    run.cov("compile_failure_attribution", attribution);
    run.cov("batch_compile_wall_s", (t0.elapsed().as_secs_f64() * 10.0).round() / 10.0);
    if let Some((id, err)) = compile_failures.iter().next() {
        let sh = &shapes[*id].1;
        run.violation(Violation::new(
            format!("compile:{}", sh.descriptor()),
            format!(
                "shape {} does not compile against the macro ({} of {} shapes fail to compile; this is the first in enumeration order): {}",
                sh.descriptor(),
                compile_failures.len(),
                shapes.len(),
                err
            ),
            replay_of(sh, "compile"),
        ));
    }
    run.cov("shapes_failing_to_compile", compile_failures.len() as u64);
    if !compile_failures.is_empty() {
        let list: Vec<String> = compile_failures.keys().take(12).map(|id| shapes[*id].1.descriptor()).collect();
        run.cov("first_shapes_failing_to_compile", json!(list));
    }

    // ---- run, compare ----
    let compiled: Vec<usize> = shapes.iter().map(|(id, _)| *id).filter(|id| !compile_failures.contains_key(id)).collect();
    let out = run_binary(&bin, &compiled);
    let grids: Vec<Vec<Tuple>> = (0..=4).map(|n| if n == 0 { vec![] } else { gen::grid(thorough, n) }).collect();
    let mut evaluations = 0u64;
    let mut nontrivial = 0u64;
    let mut trivial_by_rule = 0u64;
    let mut distinct_outcomes: BTreeSet<u64> = BTreeSet::new();
    let mut calls_macro = 0u64;
    let mut calls_hand = 0u64;
    let mut trivial_call_mismatch = 0u64;
    let mut behaviour_failures = 0u64;
    let mut first_behaviour: Option<Violation> = None;
    let mut per_ncaps = [0u64; 5];
    let mut longest_log = 0usize;
    for &id in &compiled {
        let sh = &shapes[id].1;
        let grid = &grids[sh.nargs];
        if let Some((_, status)) = out.crashed.iter().find(|(c, _)| *c == id) {
            behaviour_failures += 1;
            if first_behaviour.is_none() {
                first_behaviour = Some(Violation::new(
                    format!("behaviour:{}@crash", sh.descriptor()),
                    format!("shape {}: the process died ({status}) while running it — unbounded recursion or abort", sh.descriptor()),
                    replay_of(sh, "behaviour"),
                ));
            }
            continue;
        }
        let o = match out.results.get(&id) {
            Some(o) => o,
            None => run.machinery_failure(&format!("no result line for shape {id} ({})", sh.descriptor())),
        };
        evaluations += grid.len() as u64;
        per_ncaps[sh.caps.len()] += 1;
        calls_macro += o.calls_macro;
        calls_hand += o.calls_hand;
        // recursion must really have happened in the reference: more body executions than top-level calls
        if o.calls_hand <= 2 * grid.len() as u64 {
            run.machinery_failure(&format!("shape {} never recursed in the hand-written version", sh.descriptor()));
        }
        let distinct: BTreeSet<&String> = o.hand.iter().collect();
        for s in &o.mac {
            distinct_outcomes.insert(fnv(s.as_bytes()));
            longest_log = longest_log.max(s.matches(',').count());
        }
        let observable = distinct.len() >= 2;
        if observable {
            nontrivial += 1;
        }
        if sh.trivially_observable() {
            trivial_by_rule += 1;
            if o.calls_macro != o.calls_hand {
                trivial_call_mismatch += 1;
            }
        }
        // the measured notion (results vary with the arguments) must coincide with the syntactic one
        if observable == sh.trivially_observable() {
            run.machinery_failure(&format!(
                "shape {}: hand-written version shows {} distinct results over the grid, but the shape {} a return value or mutable capture",
                sh.descriptor(),
                distinct.len(),
                if sh.trivially_observable() { "has no" } else { "has" }
            ));
        }
        if let Some((i, msg)) = first_difference(sh, o, grid) {
            behaviour_failures += 1;
            if first_behaviour.is_none() {
                first_behaviour = Some(Violation::new(
                    format!("behaviour:{}@args={}", sh.descriptor(), gen::tuple_text(&grid[i], sh.nargs)),
                    msg,
                    replay_of(sh, "behaviour"),
                ));
            }
        }
    }
    if let Some(v) = first_behaviour {
        run.violation(v);
    }

    run.cov("programs", shapes.len() as u64);
    run.cov("programs_compiled_and_run", compiled.len() as u64);
    run.cov("evaluations", evaluations);
    run.cov("distinct_nontrivial", nontrivial);
    run.cov("trivially_observable_shapes", trivial_by_rule);
    run.cov("shapes_with_differing_results", behaviour_failures);
    run.cov("distinct_result_strings", distinct_outcomes.len() as u64);
    run.cov("body_executions_macro_version", calls_macro);
    run.cov("body_executions_hand_version", calls_hand);
    run.cov("call_count_mismatches_in_trivially_observable_shapes", trivial_call_mismatch);
    run.cov("shapes_run_by_capture_count_0_to_4", json!(per_ncaps.to_vec()));
    run.cov("capture_patterns", patterns.len() as u64);
    run.cov("body_templates", json!(bodies.iter().map(|c| c.to_string()).collect::<Vec<_>>()));
    run.cov("body_templates_with_argument_counts", json!(plan.iter().map(|(b, a)| json!({"body": b.to_string(), "arguments": a})).collect::<Vec<_>>()));
    run.cov("shapes_with_recursive_call_nested_in_an_argument", nested_arg_shapes);
    run.cov("shapes_with_argument_mutating_a_mutable_capture", mutating_arg_shapes);
    run.cov("capture_pattern_x_call_syntax_with_both", covered.len() as u64);
    run.cov("argument_tuples_per_arity_1_to_4", json!(grids[1..].iter().map(|g| g.len()).collect::<Vec<_>>()));
    run.cov("exhaustive", true);
    run.cov("crate_under_test", CRATE_PATH);
    run.cov(
        "rule",
        "every shape = (capture sequence of length 0..=4 over {&,&mut}, 1..=4 arguments, return type i64/none, recursive calls plain/trailing comma, body template; the templates and the argument counts each is emitted with are listed in body_templates_with_argument_counts: A two calls ordered by a branch, B early returns, C calls in a loop / match arm and a nested call, D argument expressions with effects — a recursive call nested in an argument of a recursive call (as a sub-expression, or as a statement of a block argument when nothing is returned), block arguments that mutate every mutable capture before yielding their value, and an argument computed from a value popped off a mutable Vec capture; D occurs in both tiers for every capture pattern, both return forms and both call syntaxes) is emitted as a rec_lambda! invocation and as a hand-written recursive fn with the same body, compiled in one batch against the real macro and run on every argument tuple of a fixed grid (closure created once, called twice); an evaluation = one (shape, tuple) comparison of (r1, r2, every capture). A shape is non-trivial when the reference's results differ between at least two tuples of the grid (measured); shapes with neither return value nor mutable capture show only termination and are excluded",
    );
    run.assume("a shape's compile verdict is the verdict of cargo/rustc of the installed tool chain on the generated program; the generated package is built with opt-level 0");

    // non-vacuity
    if compile_failures.is_empty() && behaviour_failures == 0 {
        if nontrivial + trivial_by_rule != shapes.len() as u64 || nontrivial < 2 {
            run.machinery_failure("non-trivial + trivially-observable shapes do not add up to the number of programs");
        }
        if calls_macro != calls_hand {
            run.machinery_failure("all results agree but the two versions executed the body a different number of times");
        }
        if per_ncaps.iter().any(|&c| c == 0) || longest_log < 20 {
            run.machinery_failure("some capture count was never run, or no mutable log ever grew");
        }
    }

    // samples: three macro invocations written out, with one observed result each
    let n = shapes.len();
    let picks = [
        (args.seed as usize * 7 + n / 3 + 5) % n,
        (args.seed as usize * 13 + (2 * n) / 3 + 2) % n,
        (args.seed as usize * 29 + n - 3) % n,
    ];
    for &i in &picks {
        let sh = &shapes[i].1;
        let grid = &grids[sh.nargs];
        let obs = out.results.get(&i).map(|o| {
            // a small tuple (first argument 2), so that the logs written out stay short
            let k = grid.iter().position(|t| t.0 == 2).unwrap_or(0);
            json!({"arguments": gen::tuple_text(&grid[k], sh.nargs), "macro_version": o.mac[k], "hand_version": o.hand[k]})
        });
        run.sample(json!({
            "shape": sh.descriptor(),
            "invocation": format!("let mut lam = {};", gen::macro_invocation(sh, "")),
            "reference": gen::hand_fn(sh, "hand", ""),
            "observed_(r1,r2,captures…)": obs,
        }));
    }
    run.finish(&confirm)
}
