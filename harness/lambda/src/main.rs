//! C20 — rec_lambda closures equal explicit recursion for every supported macro shape.
//! Form I over PROGRAMS: the engine generates Rust source for every macro shape (captures = every
//! sequence of length 0..=4 over {&, &mut}, 1..=4 arguments, return type present/absent, recursive calls
//! with/without trailing comma, body templates A-D: plain recursion, early returns, calls in loops and match
//! arms, and argument expressions with effects - a recursive call nested in an argument of a recursive call,
//! arguments that mutate / pop from the mutable captures; body template T: arguments of every TYPE class -
//! by-value integer, bool, shared slice, `&mut Vec` passed as an argument and re-borrowed in the recursive
//! calls, owned Vec / String moved in - driven by four calls between which the referenced data is mutated,
//! replaced by short-lived temporaries and recreated; body template E: recursive-call arguments whose type
//! nothing but the parameter fixes - unsuffixed integer literals and shifts beyond the i32 / u32 range for
//! parameters of every integer type, float literals, `Default::default()`, `.into()`, `.parse().unwrap()`,
//! `Vec::new()`, `.collect()`, `None`, closures with untyped parameters - every class at every argument
//! position; body template N: identifier collisions - the recursion named like an argument, a capture, a
//! local, the loop variable, the closure's variable, `max` / `drop` / `Some` / `vec` / `format`, and user
//! identifiers named like the macro's hidden helper fn and like its metavariables; body template K: the DECLARED
//! TYPE of every capture from classes - plain data, generic containers, slices / str, `impl Trait`, `dyn Trait`,
//! references inside the type, tuples / arrays / fn pointers, Rc / Cell / RefCell, `Box<dyn FnMut>`, another
//! recursive lambda - at every capture position for both kinds of capture; body template X: EXECUTION
//! ENVIRONMENTS - a recursion of millions of levels on a caller thread that arranged a 1 GiB stack, calls from
//! several threads at once, a closure moved to another thread, a lambda created and called inside the body of a
//! lambda; these run in child processes of the generated binary, the hand-written version first; body template G:
//! recursive-call arguments that create TEMPORARIES WITH DESTRUCTORS - a guard object whose method result is
//! passed, a reference into a temporary guard / String / Vec, a RefCell borrow or a MutexGuard dereferenced and
//! passed by value, a block with locals - every class at every argument position; every argument expression and
//! every guard notes itself in a journal that each activation reads on entry, so the order of evaluation of the
//! arguments and the lifetime of their temporaries relative to the call show in the results), compiles them
//! against the REAL macro with cargo -
//! once with the flags of a release build and once with debug assertions and overflow checks on, because
//! `cfg(debug_assertions)` inside a macro is decided in the invoking crate -, runs the produced binaries and
//! compares, per shape and per argument tuple, the return values and the final state of every capture (and
//! of every `&mut` argument) of the macro version with the hand-written recursive `fn` that takes the
//! captures explicitly and has the same body text.
//!
//! A shape that does not expand/compile is a violation (family `compile`), a shape whose results differ
//! (or whose macro version panics / kills the process while the hand version does not) is a violation
//! (family `behaviour`).  If rlib_lambda itself does not build, that is a machinery failure, not a verdict.

mod gen;

use gen::{Shape, Tuple};
use rayon::prelude::*;
use std::collections::{BTreeMap, BTreeSet};
use std::io::Read;
use std::path::{Path, PathBuf};
use std::process::{Command, Stdio};
use vcore::*;

/// Path of the crate under test as written in this engine's Cargo.toml (see build.rs).
const CRATE_PATH: &str = env!("RLIB_LAMBDA_PATH");

fn machinery(msg: &str) -> ! {
    println!("MACHINERY-FAILURE property=C20 engine=lambda {msg}");
    eprintln!("MACHINERY-FAILURE property=C20 engine=lambda {msg}");
    std::process::exit(2)
}

/// Phase timings on stderr when VERIF_LAMBDA_TIMING is set (diagnostic only, never part of a verdict).
fn phase(name: &str, t: std::time::Instant) {
    if std::env::var_os("VERIF_LAMBDA_TIMING").is_some() {
        eprintln!("[timing] {name}: {:.1}s", t.elapsed().as_secs_f64());
    }
}

fn gen_root() -> PathBuf {
    vcore::run::verif_root().join("harness/target/lambda_gen")
}

/// Compiler flags of the generated package (see `gen::root_cargo_toml`): `release` = no debug assertions, no
/// overflow checks; `dbg` = both on.  Optimisation level 0 in both.
#[derive(Clone, Copy, Debug, PartialEq, Eq, PartialOrd, Ord)]
enum Profile {
    Release,
    Dbg,
}
const PROFILES: [Profile; 2] = [Profile::Release, Profile::Dbg];

impl Profile {
    fn name(self) -> &'static str {
        match self {
            Profile::Release => "release",
            Profile::Dbg => "dbg",
        }
    }
    fn from_json(v: &Value) -> Profile {
        if v == "dbg" {
            Profile::Dbg
        } else {
            Profile::Release
        }
    }
    fn cargo_args(self) -> &'static [&'static str] {
        match self {
            Profile::Release => &["--release"],
            Profile::Dbg => &["--profile", "dbg"],
        }
    }
    /// the same flags for a direct rustc call (rustc without -O defaults to debug assertions ON)
    fn rustc_args(self) -> &'static [&'static str] {
        match self {
            Profile::Release => &["-C", "debug-assertions=off", "-C", "overflow-checks=off"],
            Profile::Dbg => &["-C", "debug-assertions=on", "-C", "overflow-checks=on"],
        }
    }
    /// suffix of signatures, empty for the plain profile so that signatures of earlier versions stay valid
    fn sig_suffix(self) -> &'static str {
        match self {
            Profile::Release => "",
            Profile::Dbg => "@debug_assertions",
        }
    }
    fn describe(self) -> &'static str {
        match self {
            Profile::Release => "built without debug assertions",
            Profile::Dbg => "built with debug assertions and overflow checks",
        }
    }
}

/// A generated package with its own target directory: `nlibs` library crates holding the shape modules (shape
/// id modulo nlibs; the compiler works on them at the same time) and one binary that links and runs them all.
struct Pkg {
    dir: PathBuf,
    name: String,
    profile: Profile,
    nlibs: usize,
}

/// Per library: (shape id, first line, last line) of every shape module in its src/lib.rs.
type Lines = Vec<Vec<(usize, usize, usize)>>;

struct BuildErr {
    /// (index of the library the diagnostic belongs to, the rustc `message` object) of level error
    errors: Vec<(Option<usize>, Value)>,
    /// their human-readable renderings, concatenated
    rendered: String,
    /// some error belongs to another crate than the generated one (i.e. to rlib_lambda itself)
    foreign: bool,
}

/// Line of the library's src/lib.rs that a diagnostic span leads to, following the macro-expansion chain
/// outwards to the invocation site.
fn span_line(span: &Value) -> Option<usize> {
    let mut cur = span;
    let mut found = None;
    for _ in 0..64 {
        if cur["file_name"].as_str().map_or(false, |f| f.ends_with("src/lib.rs") && !f.starts_with('/')) {
            found = cur["line_start"].as_u64().map(|l| l as usize);
        }
        let next = &cur["expansion"]["span"];
        if next.is_object() {
            cur = next;
        } else {
            break;
        }
    }
    found
}

/// Attribute every error diagnostic to the shape whose module contains its (outermost) source line.
/// None if some error cannot be attributed — the caller then falls back to compiling shape by shape.
fn attribute(err: &BuildErr, lines: &Lines) -> Option<BTreeMap<usize, String>> {
    let mut out: BTreeMap<usize, String> = BTreeMap::new();
    for (lib, m) in &err.errors {
        let text = m["message"].as_str().unwrap_or("");
        let spans = m["spans"].as_array().cloned().unwrap_or_default();
        if spans.is_empty() && text.starts_with("aborting due to") {
            continue;
        }
        let lines = lines.get((*lib)?)?;
        let line = spans.iter().filter(|s| s["is_primary"] == true).find_map(span_line).or_else(|| spans.iter().find_map(span_line))?;
        let k = lines.partition_point(|&(_, _, last)| last < line);
        let (id, first, _) = *lines.get(k)?;
        if line < first {
            return None; // outside every shape module
        }
        let code = m["code"]["code"].as_str().map(|c| format!("[{c}]")).unwrap_or_default();
        out.entry(id).or_insert_with(|| format!("error{code}: {text}"));
    }
    if out.is_empty() {
        None
    } else {
        Some(out)
    }
}

impl Pkg {
    fn new(sub: &str, profile: Profile, nlibs: usize) -> Pkg {
        Pkg { dir: gen_root().join(sub), name: format!("lambda_gen_{sub}"), profile, nlibs }
    }
    fn lib_names(&self) -> Vec<String> {
        (0..self.nlibs).map(|k| format!("{}_p{k}", self.name)).collect()
    }
    fn target(&self) -> PathBuf {
        self.dir.join("target")
    }
    fn cargo(&self) -> Command {
        let mut c = Command::new(std::env::var("CARGO_BIN").unwrap_or_else(|_| "cargo".into()));
        c.current_dir(&self.dir)
            .env("CARGO_TARGET_DIR", self.target())
            .env("CARGO_NET_OFFLINE", "true")
            .env_remove("RUSTFLAGS")
            .env_remove("CARGO_ENCODED_RUSTFLAGS")
            .env_remove("CARGO_BUILD_TARGET_DIR")
            .stdin(Stdio::null());
        c
    }
    fn write_if_changed(path: &Path, content: &str) {
        if std::fs::read_to_string(path).ok().as_deref() == Some(content) {
            return;
        }
        if let Some(d) = path.parent() {
            let _ = std::fs::create_dir_all(d);
        }
        if let Err(e) = std::fs::write(path, content) {
            machinery(&format!("cannot write {}: {e}", path.display()));
        }
    }
    /// Write the package: the workspace root with the binary (Cargo.toml, .cargo/config.toml with the harness's
    /// offline setting, src/main.rs) and the libraries (<lib>/Cargo.toml, <lib>/src/lib.rs).
    fn write(&self, shapes: &[(usize, Shape)], thorough: bool, with_macro: bool) -> Lines {
        let libs = self.lib_names();
        Self::write_if_changed(&self.dir.join("Cargo.toml"), &gen::root_cargo_toml(&self.name, &libs));
        Self::write_if_changed(&self.dir.join(".cargo/config.toml"), "[net]\noffline = true\n");
        Self::write_if_changed(&self.dir.join("src/main.rs"), &gen::main_file(&libs, thorough));
        let mut lines = vec![];
        for (k, lib) in libs.iter().enumerate() {
            let mine: Vec<(usize, Shape)> = shapes.iter().filter(|(id, _)| id % self.nlibs == k).cloned().collect();
            let (src, l) = gen::lib_file(&mine, with_macro);
            Self::write_if_changed(&self.dir.join(lib).join("Cargo.toml"), &gen::lib_cargo_toml(lib, CRATE_PATH));
            Self::write_if_changed(&self.dir.join(lib).join("src/lib.rs"), &src);
            lines.push(l);
        }
        lines
    }
    /// `cargo build --offline` with the package's profile (or `cargo check`, which stops before code generation);
    /// Ok(binary path) or Err(the compiler's diagnostics).
    fn build(&self, verb: &str) -> Result<PathBuf, BuildErr> {
        let t = std::time::Instant::now();
        // --keep-going: a library that fails does not keep the others from being compiled, so that one round
        // sees the diagnostics of all of them
        let out = self.cargo().arg(verb).args(self.profile.cargo_args()).args(["--offline", "--quiet", "--keep-going", "--message-format=json"]).output();
        phase(&format!("cargo {verb} {}", self.name), t);
        let out = match out {
            Ok(o) => o,
            Err(e) => machinery(&format!("cannot run cargo: {e}")),
        };
        if out.status.success() {
            let bin = self.target().join(self.profile.name()).join(&self.name);
            if verb == "build" && !bin.exists() {
                machinery(&format!("cargo succeeded but {} does not exist", bin.display()));
            }
            return Ok(bin);
        }
        let libs = self.lib_names();
        let mut errors = vec![];
        let mut rendered = String::new();
        let mut foreign = false;
        for line in String::from_utf8_lossy(&out.stdout).lines() {
            let v: Value = match serde_json::from_str(line) {
                Ok(v) => v,
                Err(_) => continue,
            };
            if v["reason"] != "compiler-message" || v["message"]["level"] != "error" {
                continue;
            }
            let target = v["target"]["name"].as_str().unwrap_or("");
            let lib = libs.iter().position(|l| l == target);
            if lib.is_none() && target != self.name.as_str() {
                foreign = true;
            }
            rendered += v["message"]["rendered"].as_str().unwrap_or("");
            errors.push((lib, v["message"].clone()));
        }
        if errors.is_empty() {
            // cargo itself failed (manifest, lock file, …): nothing to do with the macro
            machinery(&format!("cargo {verb} failed without compiler diagnostics: {}", first_errors(&String::from_utf8_lossy(&out.stderr), 3)));
        }
        Err(BuildErr { errors, rendered, foreign })
    }
    /// Build only the crate under test and return the path of its rlib (for `rustc --extern`).
    /// If the library itself does not build, no shape can be judged: machinery failure.
    fn build_library(&self) -> PathBuf {
        let out = self
            .cargo()
            .arg("build")
            .args(self.profile.cargo_args())
            .args(["--offline", "-p", "rlib_lambda", "--message-format=json"])
            .output()
            .unwrap_or_else(|e| machinery(&format!("cannot run cargo: {e}")));
        if !out.status.success() {
            machinery(&format!(
                "the crate under test ({CRATE_PATH}) does not build on its own, no macro shape can be judged: {}",
                first_errors(&String::from_utf8_lossy(&out.stderr), 3)
            ));
        }
        let mut rlib = None;
        for line in String::from_utf8_lossy(&out.stdout).lines() {
            if let Ok(v) = serde_json::from_str::<Value>(line) {
                if v["reason"] == "compiler-artifact" && v["target"]["name"] == "rlib_lambda" {
                    for f in v["filenames"].as_array().cloned().unwrap_or_default() {
                        if let Some(p) = f.as_str() {
                            if p.ends_with(".rlib") {
                                rlib = Some(PathBuf::from(p));
                            }
                        }
                    }
                }
            }
        }
        rlib.unwrap_or_else(|| machinery("cargo did not report the rlib of rlib_lambda"))
    }
}

/// The `error…` lines of a compiler output (deterministic part: no timings, no progress lines).
fn first_errors(stderr: &str, n: usize) -> String {
    let v: Vec<&str> = stderr
        .lines()
        .map(|l| l.trim_end())
        .filter(|l| l.starts_with("error") && !l.starts_with("error: could not compile") && !l.starts_with("error: aborting"))
        .take(n)
        .collect();
    if v.is_empty() {
        stderr.lines().filter(|l| !l.trim().is_empty()).take(n).collect::<Vec<_>>().join(" | ")
    } else {
        v.join(" | ")
    }
}

#[derive(Clone, Debug)]
struct ShapeOut {
    mac: Vec<String>,
    hand: Vec<String>,
    calls_macro: u64,
    calls_hand: u64,
    /// activations that left the body through an explicit `return`
    early_macro: u64,
    early_hand: u64,
    /// bytes of stack between the probed activations (shapes of the environment `deep`), largest run
    span_macro: u64,
    span_hand: u64,
}

struct RunOut {
    results: BTreeMap<usize, ShapeOut>,
    /// shapes during which the process died (stack overflow, abort), with the exit status text
    crashed: Vec<(usize, String)>,
    /// activations of the temporaries family (both versions) that found, on entry, a guard alive / the RefCell
    /// borrowed / a mutex held
    journal_entries: [u64; 3],
}

/// Run the generated binary; on a crash, attribute it to the announced shape and restart after it.
fn run_binary(bin: &Path, ids: &[usize]) -> RunOut {
    let mut results = BTreeMap::new();
    let mut crashed = vec![];
    let mut journal_entries = [0u64; 3];
    let mut from = 0usize;
    let last = ids.iter().copied().max().unwrap_or(0);
    loop {
        let mut child = Command::new(bin)
            .arg(from.to_string())
            .stdin(Stdio::null())
            .stdout(Stdio::piped())
            .stderr(Stdio::null())
            .spawn()
            .unwrap_or_else(|e| machinery(&format!("cannot run {}: {e}", bin.display())));
        let mut text = String::new();
        child.stdout.take().unwrap().read_to_string(&mut text).ok();
        let status = child.wait().unwrap_or_else(|e| machinery(&format!("wait failed: {e}")));
        let mut begun: Option<usize> = None;
        let mut done = false;
        for line in text.lines() {
            let v: Value = match serde_json::from_str(line) {
                Ok(v) => v,
                Err(_) => continue, // a torn last line of a crashed process
            };
            if let Some(b) = v["begin"].as_u64() {
                begun = Some(b as usize);
            } else if v["done"] == true {
                done = true;
            } else if let Some(e) = v["journal_entries"].as_array() {
                for (slot, x) in journal_entries.iter_mut().zip(e) {
                    *slot += x.as_u64().unwrap_or(0);
                }
            } else if let Some(id) = v["id"].as_u64() {
                let strs = |k: &str| -> Vec<String> {
                    v[k].as_array().map(|a| a.iter().map(|x| x.as_str().unwrap_or("?").to_string()).collect()).unwrap_or_default()
                };
                results.insert(
                    id as usize,
                    ShapeOut {
                        mac: strs("macro"),
                        hand: strs("hand"),
                        calls_macro: v["calls_macro"].as_u64().unwrap_or(0),
                        calls_hand: v["calls_hand"].as_u64().unwrap_or(0),
                        early_macro: v["early_macro"].as_u64().unwrap_or(0),
                        early_hand: v["early_hand"].as_u64().unwrap_or(0),
                        span_macro: v["span_macro"].as_u64().unwrap_or(0),
                        span_hand: v["span_hand"].as_u64().unwrap_or(0),
                    },
                );
                begun = None;
            }
        }
        if done && status.success() {
            break;
        }
        match begun {
            Some(b) if !results.contains_key(&b) => {
                crashed.push((b, format!("{status}")));
                // every restart begins after the shape that died, so the loop ends after at most one run per shape
                if b >= last {
                    break;
                }
                from = b + 1;
            }
            _ => machinery(&format!("the generated binary ended abnormally ({status}) outside any shape")),
        }
    }
    RunOut { results, crashed, journal_entries }
}

/// Compile every shape separately (metadata only) with `rustc --extern rlib_lambda=<rlib>`, in parallel.
/// Returns the compiler's error lines for each shape that does not compile.
fn check_each(pkg: &Pkg, shapes: &[(usize, Shape)], thorough: bool) -> BTreeMap<usize, String> {
    let rlib = pkg.build_library();
    let dir = pkg.dir.join("single");
    let _ = std::fs::remove_dir_all(&dir);
    if let Err(e) = std::fs::create_dir_all(&dir) {
        machinery(&format!("cannot create {}: {e}", dir.display()));
    }
    let rustc = std::env::var("RUSTC_BIN").unwrap_or_else(|_| "rustc".into());
    let compile = |file: &Path| -> Result<(), String> {
        let out = Command::new(&rustc)
            .current_dir(&dir)
            .args(["--edition", "2021", "--crate-type", "bin", "--emit=metadata"])
            .args(pkg.profile.rustc_args())
            .arg("--extern")
            .arg(format!("rlib_lambda={}", rlib.display()))
            .arg("--out-dir")
            .arg(&dir)
            .arg(file)
            .stdin(Stdio::null())
            .output()
            .unwrap_or_else(|e| machinery(&format!("cannot run rustc: {e}")));
        if out.status.success() {
            Ok(())
        } else {
            Err(String::from_utf8_lossy(&out.stderr).to_string())
        }
    };
    // control: a program with no shape at all must compile this way, otherwise the per-shape verdicts
    // would be about the tool chain, not about the macro
    let control = dir.join("control.rs");
    Pkg::write_if_changed(&control, &gen::program(&[], thorough, true));
    if let Err(e) = compile(&control) {
        machinery(&format!("the control program (no macro invocation) does not compile with rustc --extern: {}", first_errors(&e, 3)));
    }
    let t = std::time::Instant::now();
    let failures: Vec<(usize, String)> = shapes
        .par_iter()
        .filter_map(|(id, sh)| {
            let file = dir.join(format!("shape_{id}.rs"));
            Pkg::write_if_changed(&file, &gen::program(&[(*id, sh.clone())], thorough, true));
            let err = compile(&file).err()?;
            Some((*id, first_errors(&err, 2)))
        })
        .collect();
    phase("per-shape rustc", t);
    failures.into_iter().collect()
}

/// A result string shortened for a message (the logs of the larger tuples have hundreds of entries).
fn shorten(s: &str) -> String {
    const KEEP: usize = 400;
    if s.len() <= KEEP {
        s.to_string()
    } else {
        let cut = (0..=KEEP).rev().find(|&i| s.is_char_boundary(i)).unwrap_or(0);
        format!("{}… ({} characters in all)", &s[..cut], s.len())
    }
}

/// What the driver of an execution-environment shape does with the tuple.
fn env_text(env: &str) -> String {
    match env {
        "deep" => format!(
            "on a thread that was given {} MiB of stack: a call with the first argument capped at 64, then a call that recurses as many levels as the first argument says",
            gen::BIG_STACK >> 20
        ),
        "threads_own" => format!("{} threads at the same time, each with its own captured data and closure: thread t calls with the first argument + 16 t, then one less", gen::THREADS),
        "threads_shared" => format!("ONE closure called through `&` by {} threads at the same time: thread t calls with the first argument + 16 t, then one less", gen::THREADS),
        "moved" => "a call with the first argument capped at 64 on the creating thread, then the closure is MOVED to another thread and called there with the tuple".to_string(),
        "nested" => "every activation creates and calls another recursive lambda; a call with the first argument capped at 64, then with the tuple".to_string(),
        other => other.to_string(),
    }
}

/// First argument tuple on which the two versions differ.
fn first_difference(sh: &Shape, out: &ShapeOut, grid: &[Tuple]) -> Option<(usize, String)> {
    if out.mac.len() != grid.len() || out.hand.len() != grid.len() {
        machinery(&format!("shape {} produced {} / {} results for {} tuples", sh.descriptor(), out.mac.len(), out.hand.len(), grid.len()));
    }
    for i in 0..grid.len() {
        if out.hand[i] == "PANIC" || out.hand[i].starts_with("DIED") {
            machinery(&format!(
                "the hand-written reference of {} did not get through on {}: {}",
                sh.descriptor(),
                gen::tuple_text(&grid[i], sh.tuple_arity()),
                out.hand[i]
            ));
        }
        if out.mac[i] != out.hand[i] {
            return Some((
                i,
                format!(
                    "shape {} on {} {}: rec_lambda version gave {} = {} but the hand-written recursive fn gave {}",
                    sh.descriptor(),
                    if sh.body == 'T' || sh.body == 'E' || sh.body == 'G' { "driver tuple" } else { "arguments" },
                    if sh.body == 'E' || sh.body == 'G' {
                        format!("{:?} (called twice with values of the parameter types built from the first component v: argument k gets `top(v + k)`, then `top(v + k + 7)`, see the driver in the sample / generated source)", grid[i])
                    } else if sh.body == 'T' {
                        format!("{:?} (the closure is created once and called four times; the data behind the arguments is built from the tuple, mutated after call 1, replaced by short-lived temporaries for call 3 and recreated before call 4)", grid[i])
                    } else if sh.body == 'X' {
                        format!("{} ({}; every version and tuple in a process of its own, the hand-written version first)", gen::tuple_text(&grid[i], sh.nargs), env_text(&sh.env))
                    } else {
                        format!("{} (called twice: with these, then with the first argument decreased by 1)", gen::tuple_text(&grid[i], sh.nargs))
                    },
                    if sh.body == 'T' { "((r1, r2, `&mut` argument data after call 2, r3, `&mut` temporaries after call 3, r4), (captures…), (`&mut` argument data at the end…))" } else { "(r1, r2, captures…)" },
                    shorten(&out.mac[i]),
                    shorten(&out.hand[i])
                ),
            ));
        }
    }
    None
}

/// Every shape of a tier, in enumeration order (the position is the shape's id): the templates A-D with the
/// fixed argument types, then the typed-argument family T.
fn tier_plan(thorough: bool) -> Vec<(char, Vec<usize>)> {
    // (body template, argument counts).  Quick: template A with every argument count, and template D
    // (argument expressions with effects) with the two extreme argument counts - 1: the only argument carries
    // the nested call and the mutation, 4: they sit in the first and in the last argument.
    let all = vec![1usize, 2, 3, 4];
    if thorough {
        vec![('A', all.clone()), ('B', all.clone()), ('C', all.clone()), ('D', all)]
    } else {
        vec![('A', all), ('D', vec![1, 4])]
    }
}
fn tier_shapes(thorough: bool) -> Vec<(usize, Shape)> {
    let mut v = gen::enumerate(&tier_plan(thorough));
    v.extend(gen::enumerate_typed(thorough));
    // later families are appended, so that the ids of the earlier ones (recorded in replay histories) stay
    v.extend(gen::enumerate_expected(thorough));
    v.extend(gen::enumerate_named(thorough));
    v.extend(gen::enumerate_captyped(thorough));
    v.extend(gen::enumerate_env(thorough));
    v.extend(gen::enumerate_temporaries(thorough));
    v.into_iter().enumerate().collect()
}
/// Number of library crates the shapes of a build are spread over (shape id modulo this number): with the two
/// builds, as many compiler front-ends as the machine has cores.
const LIBS_PER_BUILD: usize = 8;

/// Build the package (already written) and run it; the result of the shape with id `id`.
fn run_one(pkg: &Pkg, sh: &Shape, id: usize, ids: &[usize]) -> Result<Result<ShapeOut, String>, BuildErr> {
    let bin = pkg.build("build")?;
    let out = run_binary(&bin, ids);
    if let Some((_, status)) = out.crashed.iter().find(|(c, _)| *c == id) {
        return Ok(Err(format!("shape {}: the process running the rec_lambda version died ({status}) — unbounded recursion or abort", sh.descriptor())));
    }
    Ok(Ok(out.results.get(&id).cloned().unwrap_or_else(|| machinery("replay binary printed no result"))))
}

/// Plain re-execution of ONE shape: generate a package with just that shape, compile, run, compare.  If the
/// shape behaves on its own and the replay carries a history (the shapes that ran before it in the same
/// process), the shapes of the history are generated, compiled and run before it again: what a macro keeps
/// per thread between invocations belongs to the case.  On a correct macro the history changes nothing.
fn confirm(v: &Value) -> Result<(), String> {
    let sh: Shape = serde_json::from_value(v["shape"].clone()).map_err(|e| format!("bad replay: {e}")).unwrap_or_else(|e| machinery(&e));
    let thorough = v["grid"] == "thorough";
    let profile = Profile::from_json(&v["profile"]);
    let grid = gen::grid(thorough, sh.grid_arity());
    let pkg = Pkg::new(&format!("replay_{}", profile.name()), profile, 1);
    pkg.write(&[(0, sh.clone())], thorough, true);
    let o = match run_one(&pkg, &sh, 0, &[0]) {
        Ok(r) => r?,
        Err(err) => {
            if err.foreign {
                pkg.build_library(); // exits 2: the library itself is what does not build
            }
            // the same program without the macro invocation must build, else the generator is at fault
            let ctl = Pkg::new(&format!("replay_control_{}", profile.name()), profile, 1);
            ctl.write(&[(0, sh.clone())], thorough, false);
            if let Err(e) = ctl.build("check") {
                machinery(&format!("generator defect: the hand-written version of {} does not compile: {}", sh.descriptor(), first_errors(&e.rendered, 2)));
            }
            return Err(format!("shape {} ({}) does not compile against the macro: {}", sh.descriptor(), profile.describe(), first_errors(&err.rendered, 2)));
        }
    };
    if let Some((_, msg)) = first_difference(&sh, &o, &grid) {
        return Err(msg);
    }
    let h = &v["history"];
    if !h.is_object() {
        return Ok(());
    }
    let upto = h["upto"].as_u64().unwrap_or(0) as usize;
    let excluded: BTreeSet<usize> = h["excluded"].as_array().map(|a| a.iter().filter_map(|x| x.as_u64().map(|x| x as usize)).collect()).unwrap_or_default();
    let shapes: Vec<(usize, Shape)> = tier_shapes(thorough).into_iter().filter(|(id, _)| *id <= upto && !excluded.contains(id)).collect();
    if shapes.last().map(|(id, s)| (*id, s)) != Some((upto, &sh)) {
        machinery("replay: the recorded history does not end with the recorded shape (written by another version of the engine?)");
    }
    let pkg = Pkg::new(&format!("replay_history_{}", profile.name()), profile, LIBS_PER_BUILD);
    pkg.write(&shapes, thorough, true);
    let ids: Vec<usize> = shapes.iter().map(|(id, _)| *id).collect();
    let note = format!(" [only after the {} shapes before it in enumeration order had run in the same process, on the same thread: the macro keeps state between invocations]", shapes.len() - 1);
    let o = match run_one(&pkg, &sh, upto, &ids) {
        Ok(r) => r.map_err(|e| e + &note)?,
        Err(err) => machinery(&format!("replay: the recorded history does not compile: {}", first_errors(&err.rendered, 2))),
    };
    match first_difference(&sh, &o, &grid) {
        Some((_, msg)) => Err(msg + &note),
        None => Ok(()),
    }
}

/// What one build (= one profile) of all shapes of a tier gave.
struct BuildOut {
    profile: Profile,
    /// shape id -> the compiler's first error
    compile_failures: BTreeMap<usize, String>,
    rounds: u64,
    attribution: &'static str,
    build_wall_s: f64,
    run: RunOut,
}

/// Compile the batch with one profile; on failure name the offending shapes.  The compiler's diagnostics (followed
/// through the macro-expansion chain to the invocation site) name the failing shapes; those are removed and
/// the rest is compiled again, until the batch builds (later compiler phases only run once the earlier ones
/// are clean, so this can take a few rounds).  If some diagnostic cannot be attributed, every remaining shape
/// is compiled on its own with rustc --extern.  Then run what compiled.
fn process_build(profile: Profile, shapes: &[(usize, Shape)], tier: &str, thorough: bool) -> BuildOut {
    let sub = format!("{tier}_{}", profile.name());
    let pkg = Pkg::new(&sub, profile, LIBS_PER_BUILD);
    let t0 = std::time::Instant::now();
    let mut compile_failures: BTreeMap<usize, String> = BTreeMap::new();
    let mut remaining: Vec<(usize, Shape)> = shapes.to_vec();
    let mut rounds = 0u64;
    let mut attribution = "none needed (the batch compiled)";
    let bin = loop {
        let lines = pkg.write(&remaining, thorough, true);
        rounds += 1;
        let err = match pkg.build("build") {
            Ok(b) => break b,
            Err(e) => e,
        };
        if err.foreign {
            pkg.build_library(); // exits 2: the library itself does not build
        }
        // VERIF_LAMBDA_PER_SHAPE forces the fallback (used to test it); both routes name the same shapes
        let force = std::env::var_os("VERIF_LAMBDA_PER_SHAPE").is_some();
        let found = if rounds <= 8 && !force { attribute(&err, &lines) } else { None };
        let found = match found {
            Some(f) => {
                attribution = "compiler diagnostics of the batch, traced to the invocation site";
                f
            }
            None => {
                attribution = "every shape compiled on its own with rustc --extern";
                let f = check_each(&pkg, &remaining, thorough);
                if f.is_empty() {
                    machinery(&format!(
                        "the batch of {} shapes does not compile but every shape compiles on its own: {}",
                        remaining.len(),
                        first_errors(&err.rendered, 3)
                    ));
                }
                f
            }
        };
        remaining.retain(|(id, _)| !found.contains_key(id));
        compile_failures.extend(found);
        // when nothing compiles the (empty) driver is still built, so that the run phase is uniform
    };
    if !compile_failures.is_empty() {
        // the same shapes WITHOUT the macro invocation must compile, otherwise the generator is at fault
        // and no verdict may be given
        let failing: Vec<(usize, Shape)> = shapes.iter().filter(|(id, _)| compile_failures.contains_key(id)).cloned().collect();
        let ctl = Pkg::new(&format!("{sub}_control"), profile, LIBS_PER_BUILD);
        ctl.write(&failing, thorough, false);
        if let Err(e) = ctl.build("check") {
            machinery(&format!(
                "generator defect: the hand-written versions of the shapes that fail to compile do not compile either: {}",
                first_errors(&e.rendered, 3)
            ));
        }
    }
    let build_wall_s = t0.elapsed().as_secs_f64();
    let ids: Vec<usize> = remaining.iter().map(|(id, _)| *id).collect();
    let t1 = std::time::Instant::now();
    let run = run_binary(&bin, &ids);
    phase(&format!("run {sub}"), t1);
    BuildOut { profile, compile_failures, rounds, attribution, build_wall_s, run }
}

fn main() {
    let args = Args::parse();
    quiet_panics();
    if args.replay.is_some() {
        Run::replay_main(&args, &confirm);
    }
    let mut run = Run::new(&args, "lambda", "exploration");
    let thorough = args.tier == Tier::Thorough;
    let plan = tier_plan(thorough);
    let bodies: Vec<char> = plan.iter().map(|(b, _)| *b).chain(['T', 'E', 'N', 'K', 'X', 'G']).collect();
    let shapes: Vec<(usize, Shape)> = tier_shapes(thorough);
    let n_fixed: usize = plan.iter().map(|(_, a)| 31 * a.len() * 2 * 2).sum();
    let typed: Vec<&Shape> = shapes.iter().map(|(_, s)| s).filter(|s| s.body == 'T').collect();
    let expected: Vec<&Shape> = shapes.iter().map(|(_, s)| s).filter(|s| s.body == 'E').collect();
    let named: Vec<&Shape> = shapes.iter().map(|(_, s)| s).filter(|s| s.body == 'N').collect();
    let captyped: Vec<&Shape> = shapes.iter().map(|(_, s)| s).filter(|s| s.body == 'K').collect();
    let envs: Vec<&Shape> = shapes.iter().map(|(_, s)| s).filter(|s| s.body == 'X').collect();
    let temporaries: Vec<&Shape> = shapes.iter().map(|(_, s)| s).filter(|s| s.body == 'G').collect();
    let n_later = typed.len() + expected.len() + named.len() + captyped.len() + envs.len() + temporaries.len();
    if shapes.len() - n_later != n_fixed {
        run.machinery_failure(&format!("enumerated {} shapes of the templates with the fixed argument types, expected {n_fixed}", shapes.len() - n_later));
    }
    let descriptors: BTreeSet<String> = shapes.iter().map(|(_, s)| s.descriptor()).collect();
    if descriptors.len() != shapes.len() {
        run.machinery_failure("two enumerated shapes have the same descriptor");
    }
    let patterns: BTreeSet<Vec<bool>> = shapes.iter().map(|(_, s)| s.caps.clone()).collect();
    if patterns.len() != 31 {
        run.machinery_failure("the 31 capture patterns were not all enumerated");
    }

    // non-vacuity of the argument-effect family: every capture pattern with a mutable capture has, for each
    // call syntax, a shape whose invocation text nests a recursive call inside an argument of a recursive
    // call AND has an argument expression that mutates (push / pop / assignment) a mutable capture
    let mut nested_arg_shapes = 0u64;
    let mut mutating_arg_shapes = 0u64;
    let mut covered: BTreeSet<(Vec<bool>, bool)> = BTreeSet::new();
    for (_, sh) in &shapes {
        let text = gen::macro_invocation(sh, "");
        let (nested, mutating) = (gen::has_nested_call_argument(&text), gen::has_mutating_argument(&text));
        nested_arg_shapes += nested as u64;
        mutating_arg_shapes += mutating as u64;
        if nested && mutating {
            covered.insert((sh.caps.clone(), sh.trailing));
        }
        if mutating && sh.n_mut() == 0 {
            run.machinery_failure(&format!("shape {} is reported to mutate a capture in an argument but has no mutable capture", sh.descriptor()));
        }
    }
    for caps in patterns.iter().filter(|c| c.contains(&true)) {
        for trailing in [false, true] {
            if !covered.contains(&(caps.clone(), trailing)) {
                run.machinery_failure(&format!(
                    "capture pattern {caps:?}, trailing comma {trailing}: no shape has a recursive call nested in an argument together with an argument that mutates a mutable capture"
                ));
            }
        }
    }
    // non-vacuity of the typed-argument family: for every capture pattern, every argument count and every
    // argument position, every type class occurs; for every capture pattern and argument count all four
    // (return type, call syntax) combinations occur
    let typed_cells: BTreeSet<(Vec<bool>, usize, usize, char)> =
        typed.iter().flat_map(|s| (0..s.nargs).map(move |k| (s.caps.clone(), s.nargs, k, s.class(k)))).collect();
    let typed_combos: BTreeSet<(Vec<bool>, usize, bool, bool)> = typed.iter().map(|s| (s.caps.clone(), s.nargs, s.ret, s.trailing)).collect();
    for caps in &patterns {
        for nargs in 1..=4usize {
            for k in 0..nargs {
                for c in gen::CLASSES {
                    if !typed_cells.contains(&(caps.clone(), nargs, k, c)) {
                        run.machinery_failure(&format!("typed-argument family: capture pattern {caps:?}, {nargs} argument(s): class {c} never occurs at position {}", k + 1));
                    }
                }
            }
            if (0..4).any(|i| !typed_combos.contains(&(caps.clone(), nargs, i & 2 != 0, i & 1 != 0))) {
                run.machinery_failure(&format!("typed-argument family: capture pattern {caps:?}, {nargs} argument(s): not all (return type, call syntax) combinations occur"));
            }
        }
    }
    let typed_vectors: BTreeSet<&str> = typed.iter().map(|s| s.types.as_str()).collect();
    let typed_capture_classes: BTreeSet<(usize, usize, char)> = typed.iter().flat_map(|s| (0..s.nargs).map(move |k| (s.capture_class(), s.nargs, s.class(k)))).collect();

    // non-vacuity of the expected-type family: every expression class occurs at every argument position of every
    // argument count, also among the shapes that show more than termination
    let classes = gen::eclasses();
    let expected_cells = |observable_only: bool| -> BTreeSet<(usize, usize, &str)> {
        expected
            .iter()
            .filter(|s| !(observable_only && s.trivially_observable()))
            .flat_map(|s| (0..s.nargs).map(move |k| (s.nargs, k, s.exprs[k].as_str())))
            .collect()
    };
    let (expected_all, expected_observable) = (expected_cells(false), expected_cells(true));
    for nargs in 1..=4usize {
        for k in 0..nargs {
            for c in classes {
                if !expected_observable.contains(&(nargs, k, c.name.as_str())) {
                    run.machinery_failure(&format!(
                        "expected-type family: class {} never occurs at position {} of {nargs} argument(s) in a shape with a return value or a mutable capture",
                        c.name,
                        k + 1
                    ));
                }
            }
        }
    }
    // non-vacuity of the temporaries family: every class of temporaries occurs at every argument position of every
    // argument count, also among the shapes that show more than termination
    let tclasses = gen::tclasses();
    let temp_cells = |observable_only: bool| -> BTreeSet<(usize, usize, &str)> {
        temporaries
            .iter()
            .filter(|s| !(observable_only && s.trivially_observable()))
            .flat_map(|s| (0..s.nargs).map(move |k| (s.nargs, k, s.temps[k].as_str())))
            .collect()
    };
    let (temp_all, temp_observable) = (temp_cells(false), temp_cells(true));
    for nargs in 1..=4usize {
        for k in 0..nargs {
            for c in tclasses {
                if !temp_observable.contains(&(nargs, k, c.name)) {
                    run.machinery_failure(&format!("temporaries family: class {} never occurs at position {} of {nargs} argument(s) in a shape with a return value or a mutable capture", c.name, k + 1));
                }
            }
        }
    }
    // non-vacuity of the identifier-collision family: the recursion is named like every argument position of every
    // argument count and like every capture of every capture pattern, every argument position carries the hidden
    // name, and every position-independent scheme occurs
    let namings: BTreeSet<(Vec<bool>, usize, &str)> = named.iter().map(|s| (s.caps.clone(), s.nargs, s.naming.as_str())).collect();
    let naming_occurs = |f: &dyn Fn(&(Vec<bool>, usize, &str)) -> bool| namings.iter().any(|e| f(e));
    for nargs in 1..=4usize {
        for k in 1..=nargs {
            for scheme in [format!("rec:arg{k}"), format!("arg{k}:hidden")] {
                if !naming_occurs(&|e| e.1 == nargs && e.2 == scheme) {
                    run.machinery_failure(&format!("identifier-collision family: scheme {scheme} never occurs with {nargs} argument(s)"));
                }
            }
        }
    }
    for caps in &patterns {
        for p in 0..caps.len() {
            let scheme = format!("rec:cap{p}");
            if !naming_occurs(&|e| &e.0 == caps && e.2 == scheme) {
                run.machinery_failure(&format!("identifier-collision family: scheme {scheme} never occurs with capture pattern {caps:?}"));
            }
        }
    }
    let plain_namings = gen::plain_namings();
    for scheme in &plain_namings {
        if !naming_occurs(&|e| e.2 == scheme) {
            run.machinery_failure(&format!("identifier-collision family: scheme {scheme} never occurs"));
        }
    }
    let naming_schemes: BTreeSet<&str> = named.iter().map(|s| s.naming.as_str()).collect();
    let hidden_in_source = std::fs::read_to_string(Path::new(CRATE_PATH).join("src/lib.rs")).map(|t| t.contains(gen::HIDDEN)).unwrap_or(false);

    // non-vacuity of the capture-type family: every class occurs at every capture position (0..4) for its kind,
    // in thorough at every position of every capture pattern
    let captype_cells: BTreeSet<(usize, bool, &str)> = captyped.iter().flat_map(|s| (0..s.caps.len()).map(move |p| (p, s.caps[p], s.captypes[p].as_str()))).collect();
    let captype_pattern_cells: BTreeSet<(Vec<bool>, usize, &str)> =
        captyped.iter().flat_map(|s| (0..s.caps.len()).map(move |p| (s.caps.clone(), p, s.captypes[p].as_str()))).collect();
    for kind in [false, true] {
        for c in gen::cclasses(kind) {
            for p in 0..4usize {
                if !captype_cells.contains(&(p, kind, c.name)) {
                    run.machinery_failure(&format!("capture-type family: class {} ({}) never occurs at capture position {p}", c.name, if kind { "&mut" } else { "&" }));
                }
            }
            if thorough {
                for caps in &patterns {
                    for p in (0..caps.len()).filter(|&p| caps[p] == kind) {
                        if !captype_pattern_cells.contains(&(caps.clone(), p, c.name)) {
                            run.machinery_failure(&format!("capture-type family: class {} never occurs at position {p} of capture pattern {caps:?}", c.name));
                        }
                    }
                }
            }
        }
    }
    let captype_patterns: BTreeSet<&Vec<bool>> = captyped.iter().map(|s| &s.caps).collect();
    if captype_patterns.len() != 30 {
        run.machinery_failure("capture-type family: not every capture pattern with a capture occurs");
    }
    // the execution-environment family: every environment occurs
    for env in gen::ENVS {
        if !envs.iter().any(|s| s.env == env) {
            run.machinery_failure(&format!("execution-environment family: environment {env} never occurs"));
        }
    }

    let tier_name = args.tier.name();

    // ---- compile and run: one package per profile, both built at the same time ----
    let t0 = std::time::Instant::now();
    let outs: Vec<BuildOut> = PROFILES.par_iter().map(|&p| process_build(p, &shapes, tier_name, thorough)).collect();
    phase("both builds", t0);
    run.cov("library_crates_per_build", LIBS_PER_BUILD as u64);
    run.cov("compile_rounds_max", outs.iter().map(|o| o.rounds).max().unwrap_or(0));
    run.cov("compile_failure_attribution", outs.iter().map(|o| o.attribution).find(|a| !a.starts_with("none")).unwrap_or("none needed (every batch compiled)"));
    run.cov("build_wall_s_max_over_builds", (outs.iter().map(|o| o.build_wall_s).fold(0.0, f64::max) * 10.0).round() / 10.0);
    run.cov("build_and_run_wall_s", (t0.elapsed().as_secs_f64() * 10.0).round() / 10.0);

    let grids: Vec<Vec<Tuple>> = (0..=gen::GRID_ENV).map(|n| gen::grid(thorough, n)).collect();
    let mut evaluations = 0u64;
    let mut distinct_outcomes: BTreeSet<u64> = BTreeSet::new();
    let mut calls_macro = 0u64;
    let mut calls_hand = 0u64;
    let mut early_by_profile = [0u64; 2];
    let mut early_hand = 0u64;
    let mut trivial_call_mismatch = 0u64;
    let mut per_ncaps = [0u64; 5];
    let mut longest_log = 0usize;
    let mut total_compile_failures = 0u64;
    let mut total_behaviour_failures = 0u64;
    let mut nontrivial_by_profile = [0u64; 2];
    let mut trivial_by_profile = [0u64; 2];
    let mut typed_run = 0u64;
    let mut expected_run = 0u64;
    let mut named_run = 0u64;
    let mut captyped_run = 0u64;
    let mut envs_run = 0u64;
    let mut temporaries_run = 0u64;
    // stack that the hand-written version spans in the deep runs: (smallest, largest) over shapes and builds
    let mut deep_span: Option<(u64, u64)> = None;
    let mut deep_span_macro = 0u64;
    // the first failing case of each family: smallest (shape id, profile)
    let mut first_compile: Option<((usize, Profile), Violation)> = None;
    let mut first_behaviour: Option<((usize, Profile), Violation)> = None;
    let mut failing_list: Vec<(usize, String)> = vec![];

    for out in &outs {
        let profile = out.profile;
        let pi = PROFILES.iter().position(|&p| p == profile).unwrap();
        let excluded: Vec<usize> = out.compile_failures.keys().copied().collect();
        let replay_of = |sh: &Shape, family: &str, id: usize, history: bool| {
            let mut v = json!({"family": family, "shape": sh, "grid": tier_name, "descriptor": sh.descriptor(), "profile": profile.name()});
            if history {
                v["history"] = json!({"upto": id, "excluded": excluded});
            }
            v
        };
        total_compile_failures += out.compile_failures.len() as u64;
        for (id, err) in &out.compile_failures {
            let sh = &shapes[*id].1;
            failing_list.push((*id, format!("{}{}", sh.descriptor(), profile.sig_suffix())));
            if first_compile.as_ref().map_or(true, |(k, _)| (*id, profile) < *k) {
                first_compile = Some((
                    (*id, profile),
                    Violation::new(
                        format!("compile:{}{}", sh.descriptor(), profile.sig_suffix()),
                        format!("shape {} ({}) does not compile against the macro: {}", sh.descriptor(), profile.describe(), err),
                        replay_of(sh, "compile", *id, false),
                    ),
                ));
            }
        }
        for (id, sh) in shapes.iter().filter(|(id, _)| !out.compile_failures.contains_key(id)) {
            let grid = &grids[sh.grid_arity()];
            let mut fail = |sig: String, msg: String| {
                total_behaviour_failures += 1;
                if first_behaviour.as_ref().map_or(true, |(k, _)| (*id, profile) < *k) {
                    first_behaviour = Some(((*id, profile), Violation::new(sig, format!("[{}] {msg}", profile.describe()), replay_of(sh, "behaviour", *id, true))));
                }
            };
            if let Some((_, status)) = out.run.crashed.iter().find(|(c, _)| c == id) {
                fail(
                    format!("behaviour:{}@crash{}", sh.descriptor(), profile.sig_suffix()),
                    format!("shape {}: the process died ({status}) while running it — unbounded recursion or abort", sh.descriptor()),
                );
                continue;
            }
            let o = match out.run.results.get(id) {
                Some(o) => o,
                None => run.machinery_failure(&format!("no result line for shape {id} ({})", sh.descriptor())),
            };
            evaluations += grid.len() as u64;
            per_ncaps[sh.caps.len()] += 1;
            typed_run += (sh.body == 'T') as u64;
            expected_run += (sh.body == 'E') as u64;
            named_run += (sh.body == 'N') as u64;
            captyped_run += (sh.body == 'K') as u64;
            envs_run += (sh.body == 'X') as u64;
            temporaries_run += (sh.body == 'G') as u64;
            if sh.env == "deep" {
                // the deep recursion must be deep for the hand-written fn: well beyond any "big enough" fixed
                // stack (64 .. 256 MiB), and well within the stack the caller arranged
                let (lo, hi) = (300u64 << 20, (gen::BIG_STACK as u64 / 4) * 3);
                if o.span_hand < lo || o.span_hand > hi {
                    run.machinery_failure(&format!(
                        "shape {} ({}): the hand-written fn spans {} bytes of stack at depth {}, wanted between {lo} and {hi} - adjust gen::DEEP",
                        sh.descriptor(),
                        profile.describe(),
                        o.span_hand,
                        gen::DEEP
                    ));
                }
                deep_span = Some(deep_span.map_or((o.span_hand, o.span_hand), |(a, b)| (a.min(o.span_hand), b.max(o.span_hand))));
                deep_span_macro = deep_span_macro.max(o.span_macro);
            }
            calls_macro += o.calls_macro;
            calls_hand += o.calls_hand;
            early_by_profile[pi] += o.early_macro;
            early_hand += o.early_hand;
            // recursion must really have happened in the reference: more body executions than top-level calls
            if o.calls_hand <= (sh.top_level_calls() * grid.len()) as u64 {
                run.machinery_failure(&format!("shape {} never recursed in the hand-written version", sh.descriptor()));
            }
            let distinct: BTreeSet<&String> = o.hand.iter().collect();
            for s in &o.mac {
                distinct_outcomes.insert(fnv(s.as_bytes()));
                longest_log = longest_log.max(s.matches(',').count());
            }
            let observable = distinct.len() >= 2;
            nontrivial_by_profile[pi] += observable as u64;
            if sh.trivially_observable() {
                trivial_by_profile[pi] += 1;
                if o.calls_macro != o.calls_hand {
                    trivial_call_mismatch += 1;
                }
            }
            // the measured notion (results vary with the arguments) must coincide with the syntactic one
            if observable == sh.trivially_observable() {
                run.machinery_failure(&format!(
                    "shape {}: hand-written version shows {} distinct results over the grid, but the shape {} a return value, mutable capture or `&mut` argument",
                    sh.descriptor(),
                    distinct.len(),
                    if sh.trivially_observable() { "has no" } else { "has" }
                ));
            }
            if let Some((i, msg)) = first_difference(sh, o, grid) {
                fail(format!("behaviour:{}@args={}{}", sh.descriptor(), gen::tuple_text(&grid[i], sh.tuple_arity()), profile.sig_suffix()), msg);
            }
        }
    }
    let any_failure = total_compile_failures + total_behaviour_failures > 0;
    if let Some((_, mut v)) = first_compile {
        v.summary = format!("{} ({} of {} (shape, build) pairs fail to compile; this is the first in enumeration order)", v.summary, total_compile_failures, shapes.len() * PROFILES.len());
        run.violation(v);
    }
    if let Some((_, v)) = first_behaviour {
        run.violation(v);
    }
    let nontrivial = nontrivial_by_profile[0];

    run.cov("programs", shapes.len() as u64);
    run.cov("programs_with_typed_arguments", typed.len() as u64);
    run.cov("builds_per_program", json!(PROFILES.iter().map(|p| p.describe()).collect::<Vec<_>>()));
    run.cov("program_builds_compiled_and_run", (shapes.len() * PROFILES.len()) as u64 - total_compile_failures);
    run.cov("program_builds_failing_to_compile", total_compile_failures);
    if !failing_list.is_empty() {
        failing_list.sort();
        run.cov("first_program_builds_failing_to_compile", json!(failing_list.iter().take(12).map(|(_, d)| d).collect::<Vec<_>>()));
    }
    run.cov("evaluations", evaluations);
    run.cov("distinct_nontrivial", nontrivial);
    run.cov("trivially_observable_shapes", trivial_by_profile[0]);
    run.cov("program_builds_with_differing_results", total_behaviour_failures);
    run.cov("distinct_result_strings", distinct_outcomes.len() as u64);
    run.cov("body_executions_macro_version", calls_macro);
    run.cov("body_executions_hand_version", calls_hand);
    run.cov(
        "early_returns_macro_version_per_process",
        json!({"without_debug_assertions": early_by_profile[0], "with_debug_assertions": early_by_profile[1],
               "note": "activations left through an explicit `return`; all shapes of a build run one after the other on the main thread of one process"}),
    );
    run.cov("call_count_mismatches_in_trivially_observable_shapes", trivial_call_mismatch);
    run.cov("shape_builds_run_by_capture_count_0_to_4", json!(per_ncaps.to_vec()));
    run.cov("capture_patterns", patterns.len() as u64);
    run.cov("body_templates", json!(bodies.iter().map(|c| c.to_string()).collect::<Vec<_>>()));
    run.cov("body_templates_with_argument_counts", json!(plan.iter().map(|(b, a)| json!({"body": b.to_string(), "arguments": a})).collect::<Vec<_>>()));
    run.cov("shapes_with_recursive_call_nested_in_an_argument", nested_arg_shapes);
    run.cov("shapes_with_argument_mutating_a_mutable_capture", mutating_arg_shapes);
    run.cov("capture_pattern_x_call_syntax_with_both", covered.len() as u64);
    run.cov("typed_argument_type_vectors", json!(typed_vectors.iter().collect::<Vec<_>>()));
    run.cov("typed_(capture_pattern,argument_count,position,class)_cells_covered", typed_cells.len() as u64);
    run.cov("typed_(capture_class,argument_count,class)_cells_covered_of_80", typed_capture_classes.len() as u64);
    run.cov("argument_tuples_per_arity_1_to_4", json!(grids[1..=4].iter().map(|g| g.len()).collect::<Vec<_>>()));
    run.cov("programs_with_expected_type_arguments", expected.len() as u64);
    run.cov("expected_type_classes", json!(classes.iter().map(|c| json!({"class": c.name, "parameter_type": c.ty, "literal_only": c.literal_only, "recursive_call_arguments": c.sites.iter().chain(c.loop_sites.iter()).collect::<Vec<_>>()})).collect::<Vec<_>>()));
    run.cov("expected_type_shift_counts_of_the_loop_sites", json!(gen::E_SHIFTS.to_vec()));
    run.cov("expected_type_(argument_count,position,class)_cells_covered", json!({"all": expected_all.len(), "in_shapes_with_observable_results": expected_observable.len(), "of": 10 * classes.len()}));
    run.cov("expected_type_driver_tuples", grids[0].len() as u64);
    run.cov("programs_with_temporaries_in_arguments", temporaries.len() as u64);
    run.cov("temporaries_classes", json!(tclasses.iter().map(|c| json!({"class": c.name, "parameter_type": c.ty, "what": c.what, "recursive_call_arguments": c.exprs})).collect::<Vec<_>>()));
    run.cov("temporaries_(argument_count,position,class)_cells_covered", json!({"all": temp_all.len(), "in_shapes_with_observable_results": temp_observable.len(), "of": 10 * tclasses.len()}));
    run.cov(
        "temporaries_activations_entered_with_(guard_alive,refcell_borrowed,mutex_held)",
        json!(outs.iter().map(|o| json!({"build": o.profile.describe(), "both_versions_together": o.run.journal_entries.to_vec()})).collect::<Vec<_>>()),
    );
    run.cov("programs_with_identifier_collisions", named.len() as u64);
    run.cov("identifier_collision_schemes", json!(naming_schemes.iter().collect::<Vec<_>>()));
    run.cov("identifier_collision_(capture_pattern,argument_count,scheme)_cells", namings.len() as u64);
    run.cov("hidden_helper_identifier", json!({"name": gen::HIDDEN, "present_in_the_macro_source": hidden_in_source}));
    run.cov("programs_with_capture_type_classes", captyped.len() as u64);
    run.cov(
        "capture_type_vectors_per_pattern",
        if thorough { json!("the number of classes of the kind (of the larger kind, in a mixed pattern)") } else { json!(gen::captype_vectors_per_pattern_quick()) },
    );
    let class_list = |kind: bool| -> Vec<Value> { gen::cclasses(kind).iter().map(|c| json!({"class": c.name, "group": c.group, "declared_type": format!("{}{}", if kind { "&mut " } else { "&" }, c.ty)})).collect() };
    run.cov("capture_type_classes", json!({"shared": class_list(false), "mutable": class_list(true), "groups": gen::cclass_groups()}));
    run.cov("capture_type_(position,kind,class)_cells_covered", json!({"covered": captype_cells.len(), "of": 4 * (gen::cclasses(false).len() + gen::cclasses(true).len())}));
    run.cov("capture_type_(capture_pattern,position,class)_cells_covered", captype_pattern_cells.len() as u64);
    run.cov("programs_with_execution_environments", json!(envs.iter().map(|s| s.descriptor()).collect::<Vec<_>>()));
    run.cov(
        "execution_environments",
        json!({
            "environments": gen::ENVS.iter().map(|e| json!({"env": e, "driver": env_text(e)})).collect::<Vec<_>>(),
            "deep_recursion_levels": gen::DEEP,
            "deep_caller_stack_bytes": gen::BIG_STACK,
            "deep_stack_spanned_by_the_hand_written_fn_bytes_min_max": deep_span.map(|(a, b)| json!([a, b])),
            "deep_stack_spanned_by_the_macro_version_bytes_max": deep_span_macro,
            "driver_tuples": {"deep": grids[gen::GRID_DEEP].len(), "other": grids[gen::GRID_ENV].len()},
            "isolation": "every (version, tuple) of these programs runs in a child process of its own, the hand-written version first; a child killed by a signal gives the result DIED(signal n), which differs from every result of the hand-written version",
        }),
    );
    run.cov("skipped_out_of_domain", json!({"capture_named_like_the_hidden_helper": "not generated: a block-level item shadows the enclosing function's variables, so the helper's name cannot be the name of a captured variable for any macro that declares its helper next to the closure"}));
    run.cov("exhaustive", true);
    run.cov("crate_under_test", CRATE_PATH);
    run.cov(
        "rule",
        "every shape = (capture sequence of length 0..=4 over {&,&mut}, 1..=4 arguments, return type i64/none, recursive calls plain/trailing comma, body template; the templates and the argument counts each is emitted with are listed in body_templates_with_argument_counts: A two calls ordered by a branch, B early returns, C calls in a loop / match arm and a nested call, D argument expressions with effects — a recursive call nested in an argument of a recursive call (as a sub-expression, or as a statement of a block argument when nothing is returned), block arguments that mutate every mutable capture before yielding their value, and an argument computed from a value popped off a mutable Vec capture; D occurs in both tiers for every capture pattern, both return forms and both call syntaxes; these have the argument types i64, i64, u32, bool) plus the typed-argument family T: for every capture pattern and argument count, type vectors over the classes I by-value i64, B bool, S shared slice &[i64], M &mut Vec<i64> passed as an ARGUMENT (re-borrowed in the recursive calls, implicitly and as &mut *a), O owned Vec<i64> / String (cloned for the first recursive call, moved into the last) such that every class occurs at every argument position (five rotation vectors; further vectors — all arguments of one class, one non-integer class among integers — all in thorough, one per cell in quick), body = early return when the first argument is exhausted, then two recursive calls; the T driver creates the closure once and calls it four times, MUTATING the data behind the arguments after call 1, passing short-lived temporaries in call 3 and dropping and recreating the data before call 4, exactly as it drives the hand-written fn; plus the expected-type family E: the arguments of the recursive calls are expressions whose type NOTHING BUT THE PARAMETER fixes, so the macro version only agrees with the fn if the macro hands the parameter type down to the argument expression as a direct call does — parameter classes u8 u16 u32 u64 usize u128 i8 i16 i32 i64 isize i128 with unsuffixed-literal expressions (the largest value of the type, `!0 >> 1`, the smallest value, 2^32 written as a sum of two literals above i32::MAX, and in a loop over the shift counts expected_type_shift_counts_of_the_loop_sites `1 << (k % BITS)` and `!0 >> (k % BITS)` with a u32 variable k: values beyond the i32 / u32 range for every type that holds them), f32 / f64 with float literals (one that rounds differently to f32 directly and via f64, sums that differ between f32 and f64 arithmetic, the extreme finite values), literals nested in a tuple / Some / slice / vec!, and expressions that need the expected type to infer at all: Default::default(), .into(), .parse().unwrap(), Vec::new() / vec![], .collect(), .sum() / .product() / .max(), a String built by .into() / .collect(), None, closures with untyped parameters passed as fn(i64) -> i64 and as &dyn Fn(i64) -> i64 (all listed in expected_type_classes); for every capture pattern and argument count class vectors by rotation so that every class occurs at every argument position of every argument count (two rotations per cell with complementary (return type, call syntax) in quick, all in thorough); body = three levels of activations (a depth counter next to the shape modules, the same in both versions), the driver's activation makes 2 calls per shift count and 3 plain calls, each of those one more; the driver passes typed values built from the first tuple component; plus the identifier-collision family N (fixed argument types; body = early return, `max(..)` imported by `use std::cmp::max`, `Some(..)`, `drop(..)`, two recursive calls in a `for` loop and one after it, with a local and the loop variable in scope at the calls): the recursion is named like an argument (every position), like a captured variable (every position of every capture pattern), like the body's local, like the loop variable, like the variable the closure is bound to, like `max` / `drop` / `Some` / `vec` / `format`; an argument (every position), the local, the loop variable, the closure's variable or the recursion itself carries the name of the macro's hidden helper fn (hidden_helper_identifier); or every identifier is the name of one of the macro's metavariables (scheme meta) — the hand-written fn is called `hand` and takes the same names, so it compiles in every scheme (quick: per capture pattern and argument count one rec:arg, one rec:cap, one arg:hidden and one position-independent scheme, rotating; thorough: all); plus the capture-type family K (body of A, fixed argument types): the DECLARED TYPE of every capture comes from the classes listed in capture_type_classes — for `&` captures plain data (i64, String), tuple / array / fn pointer, generic containers (Vec<Vec<i64>>, BTreeMap<i64, Vec<i64>> with a comma inside the type, Option<Box<i64>>), unsized types ([i64] and str, the captured variable being the owner or already a reference), `impl Trait` (impl Fn(i64) -> i64 and impl Fn(usize, usize) -> u64 over local closures that borrow local data — the only way to capture a closure without dyn —, impl Display, impl AsRef<[i64]>), `dyn Trait` (dyn Fn over a closure and over a Box<dyn Fn>, dyn Debug), references / lifetimes inside the type (Vec<&str>, [&'static str], Option<&i64>, (&str, &[i64])), types that are not Send / Sync (Rc<Vec<i64>>, Cell<i64> and RefCell<Vec<i64>> — MUTATED through the shared capture), and another recursive lambda captured as impl Fn; for `&mut` captures Vec / i64 / String / tuple / array / fn pointer / BTreeMap / [i64] / str, impl FnMut(i64, i64) (a local closure that logs into a local Vec), impl Iterator<Item = i64>, impl fmt::Write, dyn FnMut(i64), dyn Iterator<Item = i64>, Box<dyn FnMut(i64) -> i64> (owning its state), Vec<&str>, Option<&str>, Rc (make_mut), RefCell (get_mut), and another recursive lambda with a mutable capture of its own captured as impl FnMut; the body reads every shared capture and changes every mutable one in the way of its class, the hand-written fn takes the same declared types as parameters, the driver renders what each capture holds after the last call (the closures' logs, the iterators' next item, the boxed closure's state); for every capture pattern with at least one capture, class vectors (quick: capture_type_vectors_per_pattern per pattern, every position taking the classes of its kind round-robin so that every class occurs at every capture position 0..3 for its kind; thorough: every class at every position of every capture pattern), argument count / return type / call syntax rotating; plus the execution-environment family X (default capture types, fixed argument types, body = a PATH: one recursive call per activation, depth = the first argument; Vec captures log near the leaves and every 65536 levels): the programs listed in programs_with_execution_environments, the same in both tiers — `deep`: the driver runs on a thread it gave deep_caller_stack_bytes of stack and recurses deep_recursion_levels levels (the body keeps a 16-word buffer across the recursive call; the hand-written fn measurably spans deep_stack_spanned_by_the_hand_written_fn_bytes_min_max bytes of stack, checked to lie between 300 MiB and three quarters of the caller's stack) after a shallow call of the same closure; `threads_own`: four threads released by a barrier, each with its own captured data and closure; `threads_shared`: one closure with shared captures only, called through `&` by four threads at the same time; `moved`: the closure is called, then moved to another thread and called there; `nested`: every activation of the body creates another recursive lambda over a local of the activation (mutable) and the outer lambda's shared captures, calls it and folds its result and log into its own; in the X programs the hand-written side is the closure `|arguments| hand(arguments, &captures…)` written out, driven by the same text; every (version, driver tuple) of an X program runs in a child process of its own that the generated binary starts from itself, the hand-written version first, so that a version that overflows its stack or aborts yields the result DIED(signal n) instead of taking the run down; plus the temporaries family G (default capture types; return type i64): the arguments of the recursive calls are expressions that create TEMPORARIES WITH DESTRUCTORS — in the hand-written `hand(<expression>, …)` such a temporary lives until the enclosing statement ends, i.e. through the whole recursive call, and the macro version must agree — from the classes listed in temporaries_classes: a guard object whose method result is passed by value (one and two guards per argument), a reference into a temporary guard (through a method and to a field), a shared borrow of a RefCell dereferenced and passed by value, a MutexGuard dereferenced and passed by value, a reference into a temporary String (`.to_string().as_str()`, a sub-slice of a returned String) or Vec (`&vec![..][1..]`, `.as_slice()`), a block expression with a guard as a local / as a temporary of its tail expression, and a plain by-value expression; EVERY argument expression notes its (site, position) tag in a per-thread journal next to the shape modules when it is evaluated, guards note their creation and their destruction, and every activation reads the journal ON ENTRY — number of guards alive, order-sensitive digest of all events so far, whether the RefCell can be borrowed mutably, how many mutexes are held — and folds it into its result and into every mutable capture, so both the ORDER in which the arguments are evaluated and the LIFETIME of their temporaries relative to the call show in the results and in the captured state (and a reference into a temporary must compile, as it does for the fn); three levels of activations; call sites: initialiser of a `let`, inside a larger expression, two calls in one statement (the first call's temporaries live through the second), expression statements when nothing is returned; class vectors by rotation (argument p gets class (p + r) mod 8; quick: r = index of the capture pattern, the (return type, call syntax) combination moving on with every pattern and once more with every full turn; thorough: every r for every pattern) so that every class occurs at every argument position of every argument count (temporaries_(argument_count,position,class)_cells_covered). Every shape is emitted as a rec_lambda! invocation and as a hand-written recursive fn with the same body, compiled against the real macro (as several library crates linked into one program) twice — without and with debug assertions / overflow checks — and run on every argument tuple of a fixed grid; an evaluation = one (shape, build, tuple) comparison of (results of all calls, every capture, every &mut argument's data). A shape is non-trivial when the reference's results differ between at least two tuples of the grid (measured, counted once per shape); shapes with neither return value nor mutable capture nor &mut argument show only termination and are excluded",
    );
    run.assume("a shape's compile verdict is the verdict of cargo/rustc of the installed tool chain on the generated program; the generated packages are built with opt-level 0, once with debug-assertions = false / overflow-checks = false and once with both true");
    run.assume("identifier collisions: a CAPTURED variable named like the macro's hidden helper fn is outside the family (skipped_out_of_domain): the helper is an item of the block that also holds the closure, and items shadow outer variables regardless of macro hygiene; locals, arguments, the recursion name and the closure's variable with that name are inside it");
    run.assume("capture types: what is demanded of a declared capture type is that the hand-written fn with a parameter of that type compiles and runs — `impl Trait` is allowed in parameter position, so it is in the family; a capture declared `&&T` is not generated (the `&` of the macro pattern does not match the single token `&&`; a user has to write `& &T`)");
    run.assume("execution environments: the macro version may be used wherever the closure `|arguments| hand(arguments, &captures…)` written out may be — shared between threads when it only has shared captures of Sync data, sent to another thread when the captured data is Send / Sync, run on whatever stack the calling thread has; the deep programs need about 0.4 GiB of stack memory per running child (two at a time) and the kernel must grant a 1 GiB stack mapping; a hand-written version that does not get through is a machinery failure, never a verdict");
    run.assume("all shapes of a build except the execution-environment programs run one after the other on the main thread of ONE process, so state that a macro keeps per thread between invocations accumulates over the whole run (early_returns_macro_version_per_process says how many activations ended in an explicit `return`); a violation that only shows after such a history is replayed with its history");

    // non-vacuity
    if !any_failure {
        for pi in 0..2 {
            if nontrivial_by_profile[pi] + trivial_by_profile[pi] != shapes.len() as u64 || nontrivial_by_profile[pi] < 2 {
                run.machinery_failure("non-trivial + trivially-observable shapes do not add up to the number of programs");
            }
        }
        if calls_macro != calls_hand || early_by_profile[0] + early_by_profile[1] != early_hand {
            run.machinery_failure("all results agree but the two versions executed the body (or left it through `return`) a different number of times");
        }
        if early_by_profile.iter().any(|&e| e == 0) {
            run.machinery_failure("no activation ever left a body through an explicit `return`");
        }
        if per_ncaps.iter().any(|&c| c == 0) || longest_log < 20 {
            run.machinery_failure("some capture count was never run, or no mutable log ever grew");
        }
        if typed_run != (typed.len() * PROFILES.len()) as u64 || typed_capture_classes.len() != 80 {
            run.machinery_failure("the typed-argument family was not run completely");
        }
        if expected_run != (expected.len() * PROFILES.len()) as u64 || named_run != (named.len() * PROFILES.len()) as u64 {
            run.machinery_failure("the expected-type family or the identifier-collision family was not run completely");
        }
        if captyped_run != (captyped.len() * PROFILES.len()) as u64 || envs_run != (envs.len() * PROFILES.len()) as u64 || deep_span.is_none() {
            run.machinery_failure("the capture-type family or the execution-environment family was not run completely");
        }
        if temporaries_run != (temporaries.len() * PROFILES.len()) as u64 {
            run.machinery_failure("the temporaries family was not run completely");
        }
        if outs.iter().any(|o| o.run.journal_entries.iter().any(|&e| e == 0)) {
            run.machinery_failure("temporaries family: no activation ever found a guard alive, the RefCell borrowed or a mutex held on entry");
        }
    }

    // samples: macro invocations written out, with one observed result each (the last one has typed arguments)
    let picks = [
        (args.seed as usize * 7 + n_fixed / 3 + 5) % n_fixed,
        (args.seed as usize * 13 + (2 * n_fixed) / 3 + 2) % n_fixed,
        n_fixed + (args.seed as usize * 29 + typed.len() / 2 + 3) % typed.len(),
        n_fixed + (args.seed as usize * 31 + typed.len() - 2) % typed.len(),
        n_fixed + typed.len() + (args.seed as usize * 37 + expected.len() / 2 + 1) % expected.len(),
        n_fixed + typed.len() + expected.len() + (args.seed as usize * 41 + named.len() / 3 + 1) % named.len(),
        n_fixed + typed.len() + expected.len() + named.len() + (args.seed as usize * 43 + captyped.len() / 2 + 1) % captyped.len(),
        n_fixed + typed.len() + expected.len() + named.len() + captyped.len() + (args.seed as usize * 47 + 2) % envs.len(),
        n_fixed + typed.len() + expected.len() + named.len() + captyped.len() + envs.len() + (args.seed as usize * 53 + temporaries.len() / 2 + 1) % temporaries.len(),
    ];
    for &i in &picks {
        // of the later families, a shape that shows more than termination
        let later_family = i >= n_fixed + typed.len();
        let i = if later_family { (i..shapes.len()).find(|&j| !shapes[j].1.trivially_observable()).unwrap_or(i) } else { i };
        let sh = &shapes[i].1;
        let grid = &grids[sh.grid_arity()];
        let obs = outs[0].run.results.get(&i).map(|o| {
            // a small tuple (first argument 2), so that the logs written out stay short
            let k = grid.iter().position(|t| t.0 == 2).unwrap_or(0);
            json!({"driver_tuple": format!("{:?}", grid[k]), "macro_version": o.mac[k], "hand_version": o.hand[k]})
        });
        let program = gen::program(&[(i, sh.clone())], thorough, true);
        let driver = program.find("    pub fn run_macro").map(|a| &program[a..]).and_then(|t| t.find("\n    pub fn run_hand").map(|b| t[..b].to_string()));
        run.sample(json!({
            "shape": sh.descriptor(),
            "driver_with_invocation": driver,
            "reference": gen::hand_fn(sh, "hand", ""),
            "observed": obs,
        }));
    }
    run.finish(&confirm)
}
