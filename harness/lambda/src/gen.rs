//! Program generator for C20: one `rec_lambda!` invocation and one hand-written recursive `fn` per shape,
//! both with the SAME body text (only the spelling of the recursive call differs: `f!(e1, e2)` /
//! `f!(e1, e2,)` in the macro version, `hand(e1, e2, <captures in written order>)` in the hand version),
//! and a driver per shape that calls both in the same way.  The shapes of a run are spread over several
//! library crates (compiled at the same time) that one binary links and runs.

use serde::{Deserialize, Serialize};

#[derive(Clone, Debug, PartialEq, Eq, Serialize, Deserialize)]
pub struct Shape {
    /// captures in the order written in the invocation; true = `&mut`, false = `&`
    pub caps: Vec<bool>,
    /// number of lambda arguments, 1..=4 (types i64, i64, u32, bool unless `types` says otherwise)
    pub nargs: usize,
    /// `-> i64` present
    pub ret: bool,
    /// recursive calls written `f!(a, b,)`
    pub trailing: bool,
    /// body template: 'A' two recursive calls, order chosen by a branch on the first argument;
    /// 'B' three recursive calls with early returns; 'C' nested call, calls in a loop and in a match arm;
    /// 'D' argument expressions with effects: a recursive call nested in an argument of a recursive call
    /// (also as a statement of a block argument when there is no return value), arguments that are blocks
    /// mutating every mutable capture before yielding their value, and an argument computed from a value
    /// popped off a mutable Vec capture;
    /// 'T' typed arguments: two recursive calls after an early return, over arguments of the classes in `types`
    pub body: char,
    /// body template 'T' only: the type class of every argument, one letter per argument —
    /// I `i64`, B `bool`, S `&[i64]` (shared slice), M `&mut Vec<i64>` (a mutable reference passed as an
    /// ARGUMENT and re-borrowed in the recursive calls), O owned and moved in (`Vec<i64>` at the 1st/3rd
    /// position, `String` at the 2nd/4th).  Empty for the other templates (fixed types i64, i64, u32, bool).
    #[serde(default, skip_serializing_if = "String::is_empty")]
    pub types: String,
}

pub const ARG_TYPES: [&str; 4] = ["i64", "i64", "u32", "bool"];
pub const CLASSES: [char; 5] = ['I', 'B', 'S', 'M', 'O'];
/// (return type present, trailing comma)
const COMBOS: [(bool, bool); 4] = [(false, false), (false, true), (true, false), (true, true)];
pub type Tuple = (i64, i64, u32, bool);

impl Shape {
    pub fn descriptor(&self) -> String {
        let caps = if self.caps.is_empty() {
            "-".to_string()
        } else {
            self.caps.iter().map(|&m| if m { "&mut" } else { "&" }).collect::<Vec<_>>().join(",")
        };
        format!(
            "caps={}/args={}{}/ret={}/call={}/body={}",
            caps,
            self.nargs,
            if self.types.is_empty() { String::new() } else { format!("/types={}", self.types) },
            if self.ret { "i64" } else { "none" },
            if self.trailing { "trailing_comma" } else { "plain" },
            self.body
        )
    }
    pub fn n_mut(&self) -> usize {
        self.caps.iter().filter(|&&m| m).count()
    }
    /// Nothing but termination can be observed: no return value and no mutable capture.
    pub fn trivially_observable(&self) -> bool {
        !self.ret && self.n_mut() == 0 && !self.types.contains('M')
    }
    /// Type class of argument k (0-based); the fixed types of the templates A-D count as by-value classes.
    pub fn class(&self, k: usize) -> char {
        match self.types.as_bytes().get(k) {
            Some(&c) => c as char,
            None => ['I', 'I', 'I', 'B'][k],
        }
    }
    pub fn arg_type(&self, k: usize) -> &'static str {
        if self.types.is_empty() {
            return ARG_TYPES[k];
        }
        match self.class(k) {
            'I' => "i64",
            'B' => "bool",
            'S' => "&[i64]",
            'M' => "&mut Vec<i64>",
            'O' if k % 2 == 0 => "Vec<i64>",
            'O' => "String",
            c => panic!("unknown argument class {c}"),
        }
    }
    fn owned_string(&self, k: usize) -> bool {
        self.class(k) == 'O' && k % 2 == 1
    }
    /// How often the driver calls the closure (and the hand-written fn) per argument tuple.
    pub fn top_level_calls(&self) -> usize {
        if self.body == 'T' {
            4
        } else {
            2
        }
    }
    /// 0 no capture, 1 shared only, 2 mutable only, 3 both kinds
    pub fn capture_class(&self) -> usize {
        (self.caps.contains(&false) as usize) | (self.caps.contains(&true) as usize) << 1
    }
    fn cap_name(&self, p: usize) -> String {
        format!("{}{}", if self.caps[p] { "m" } else { "s" }, p)
    }
    /// Type of the capture at written position p (without the reference).  Shared captures alternate
    /// i64 / Vec<i64>, mutable ones Vec<i64> (a log) / i64 (a counter), counted within their own kind, so
    /// that both "same type, different value" and "different type" neighbours occur.
    fn cap_is_vec(&self, p: usize) -> bool {
        let k = self.caps[..p].iter().filter(|&&m| m == self.caps[p]).count();
        if self.caps[p] {
            k % 2 == 0
        } else {
            k % 2 == 1
        }
    }
    fn cap_type(&self, p: usize) -> &'static str {
        if self.cap_is_vec(p) {
            "Vec<i64>"
        } else {
            "i64"
        }
    }
    fn cap_init(&self, p: usize) -> String {
        let p = p as i64;
        match (self.caps[p as usize], self.cap_is_vec(p as usize)) {
            (false, false) => format!("{}", 100 + 7 * p),
            (false, true) => format!("vec![{}, {}, 5]", p + 1, 2 * p + 3),
            (true, true) => format!("vec![{}]", 1000 + p),
            (true, false) => format!("{}", 10 * p + 1),
        }
    }
}

/// `plan` = (body template, argument counts it is emitted with).  Simplest first: body template, then
/// number of captures, capture pattern (`&` before `&mut`, leftmost position most significant), number of
/// arguments, return type absent before present, plain call before trailing comma.
pub fn enumerate(plan: &[(char, Vec<usize>)]) -> Vec<Shape> {
    let mut v = vec![];
    for (body, arities) in plan {
        let body = *body;
        for ncaps in 0..=4usize {
            for pat in 0..(1u32 << ncaps) {
                let caps: Vec<bool> = (0..ncaps).map(|i| (pat >> (ncaps - 1 - i)) & 1 == 1).collect();
                for &nargs in arities {
                    for ret in [false, true] {
                        for trailing in [false, true] {
                            v.push(Shape { caps: caps.clone(), nargs, ret, trailing, body, types: String::new() });
                        }
                    }
                }
            }
        }
    }
    v
}

/// The 31 capture patterns in the order of `enumerate`.
pub fn capture_patterns() -> Vec<Vec<bool>> {
    let mut v = vec![];
    for ncaps in 0..=4usize {
        for pat in 0..(1u32 << ncaps) {
            v.push((0..ncaps).map(|i| (pat >> (ncaps - 1 - i)) & 1 == 1).collect());
        }
    }
    v
}

/// The five "rotation" type vectors of an argument count: argument p gets class (p + r) mod 5 of I B S M O,
/// r = 0..5.  Over the five vectors every argument position takes every class exactly once, and for two or
/// more arguments every vector mixes classes.
pub fn rotation_types(nargs: usize) -> Vec<String> {
    (0..5).map(|r| (0..nargs).map(|p| CLASSES[(p + r) % 5]).collect()).collect()
}

/// Further type vectors for two or more arguments: every argument of the same class (two `&mut` arguments, two
/// slices … — several elided lifetimes in one signature), and one non-integer class at one position with
/// integers around it.  Vectors that are rotation vectors already are left out.
pub fn extra_types(nargs: usize) -> Vec<String> {
    let mut v: Vec<String> = vec![];
    if nargs < 2 {
        return v;
    }
    let rot = rotation_types(nargs);
    for &c in &CLASSES[1..] {
        v.push((0..nargs).map(|_| c).collect());
    }
    for p in 0..nargs {
        for &c in &CLASSES[1..] {
            v.push((0..nargs).map(|q| if q == p { c } else { 'I' }).collect());
        }
    }
    v.retain(|t| !rot.contains(t));
    v
}

/// The typed-argument family (body template 'T').  For every capture pattern and every argument count:
/// the five rotation vectors (quick: each with one of the four (return type, call syntax) combinations,
/// rotating so that all four occur; thorough: with all four), plus further vectors (quick: one per cell,
/// rotating through `extra_types`; thorough: all of them, the combination rotating).
pub fn enumerate_typed(thorough: bool) -> Vec<Shape> {
    let mut v = vec![];
    for (q, caps) in capture_patterns().into_iter().enumerate() {
        for nargs in 1..=4usize {
            let mut push = |types: &String, combo: usize| {
                let (ret, trailing) = COMBOS[combo % 4];
                v.push(Shape { caps: caps.clone(), nargs, ret, trailing, body: 'T', types: types.clone() });
            };
            for (r, types) in rotation_types(nargs).iter().enumerate() {
                if thorough {
                    (0..4).for_each(|c| push(types, c));
                } else {
                    push(types, q + nargs + r);
                }
            }
            let extra = extra_types(nargs);
            if thorough {
                extra.iter().enumerate().for_each(|(e, types)| push(types, q + nargs + e));
            } else if !extra.is_empty() {
                push(&extra[q % extra.len()], q + nargs);
            }
        }
    }
    v
}

pub fn grid(thorough: bool, nargs: usize) -> Vec<Tuple> {
    let a1: Vec<i64> = if thorough { (0..=7).collect() } else { vec![0, 1, 2, 3, 4, 6] };
    let a2: Vec<i64> = if thorough { vec![-3, 0, 2] } else { vec![-3, 2] };
    let a3: Vec<u32> = if thorough { vec![0, 9, u32::MAX] } else { vec![0, 9] };
    let a4 = vec![false, true];
    let mut out = vec![];
    for &x1 in &a1 {
        for &x2 in if nargs >= 2 { &a2[..] } else { &[0i64][..] } {
            for &x3 in if nargs >= 3 { &a3[..] } else { &[0u32][..] } {
                for &x4 in if nargs >= 4 { &a4[..] } else { &[false][..] } {
                    out.push((x1, x2, x3, x4));
                }
            }
        }
    }
    out
}

pub fn tuple_text(t: &Tuple, nargs: usize) -> String {
    let all = [t.0.to_string(), t.1.to_string(), t.2.to_string(), t.3.to_string()];
    format!("({})", all[..nargs].join(","))
}

/// Argument expressions of the recursive-call sites (truncated to the shape's argument count).  The first
/// argument strictly decreases at every site, so the recursion is bounded.
fn site(n: usize, nargs: usize) -> Vec<String> {
    let s: [&str; 4] = match n {
        0 => ["a1 - 1", "a2.wrapping_add(1)", "a3.wrapping_add(1)", "!a4"],
        1 => ["a1 - 2", "a2.wrapping_mul(2)", "a3 ^ 5", "a4"],
        2 => ["a1 - 2", "a2.wrapping_sub(3)", "a3.wrapping_mul(3)", "!a4"],
        3 => ["a1 - 1", "a2 ^ 1", "a3 / 2", "a4"],
        4 => ["a1 - 3", "a2.wrapping_add(a1)", "a3 | 1", "a4 ^ (a1 == 3)"],
        // inside `for i in 0..2i64`
        5 => ["a1 - 1 - i", "a2.wrapping_add(i)", "a3.wrapping_add(i as u32)", "a4 ^ (i == 1)"],
        _ => unreachable!(),
    };
    s[..nargs].iter().map(|x| x.to_string()).collect()
}

struct BodyGen<'a> {
    sh: &'a Shape,
    /// Some(name) = hand-written version calling `name(args…, captures…)`; None = macro version `f!(…)`
    hand: Option<&'a str>,
}

impl<'a> BodyGen<'a> {
    fn call_with(&self, args: Vec<String>) -> String {
        match self.hand {
            None => format!("f!({}{})", args.join(", "), if self.sh.trailing { "," } else { "" }),
            Some(name) => {
                let mut all = args;
                for p in 0..self.sh.caps.len() {
                    all.push(self.sh.cap_name(p));
                }
                format!("{}({})", name, all.join(", "))
            }
        }
    }
    fn call(&self, n: usize) -> String {
        self.call_with(site(n, self.sh.nargs))
    }
    /// Mutate every mutable capture with the value `e` (order-sensitive updates: push / x*5+e).
    fn mutate(&self, e: &str, ind: &str) -> String {
        let mut s = String::new();
        for p in 0..self.sh.caps.len() {
            if !self.sh.caps[p] {
                continue;
            }
            let n = self.sh.cap_name(p);
            if self.sh.cap_is_vec(p) {
                s += &format!("{ind}{n}.push(({e}).wrapping_add({p}));\n");
            } else {
                s += &format!("{ind}*{n} = {n}.wrapping_mul(5).wrapping_add({e}).wrapping_add({p});\n");
            }
        }
        s
    }
    /// The argument expression `{ <mutate every mutable capture with e>; value }`.
    fn effect_arg(&self, e: &str, value: &str, ind: &str) -> String {
        let inner = format!("{ind}    ");
        format!("{{\n{}{inner}{value}\n{ind}}}", self.mutate(e, &inner))
    }
    /// 0 or 1, popped off the first mutable Vec capture when there is one (the first mutable capture of a
    /// shape always is a Vec), else computed from the arguments.
    fn popped_bit(&self) -> String {
        match (0..self.sh.caps.len()).find(|&p| self.sh.caps[p] && self.sh.cap_is_vec(p)) {
            Some(p) => format!("{}.pop().unwrap_or(3).rem_euclid(2)", self.sh.cap_name(p)),
            None => "key.rem_euclid(2)".to_string(),
        }
    }
    /// key from all arguments, acc from key and every shared capture.
    fn prologue(&self, ind: &str) -> String {
        let mut s = format!("{ind}super::tick();\n");
        let typed = self.sh.body == 'T';
        // typed arguments enter the key through a digest (an i64 computed from the argument's contents)
        let d = |k: usize| if typed { format!("({})", self.t_digest(k)) } else { format!("a{}", k + 1) };
        let mut key = format!("{}.wrapping_mul(31)", d(0));
        if self.sh.nargs >= 2 {
            key += &format!(".wrapping_add({}.wrapping_mul(7))", d(1));
        }
        if self.sh.nargs >= 3 {
            key += &format!(".wrapping_add(({} as i64).wrapping_mul(3))", d(2));
        }
        if self.sh.nargs >= 4 {
            key += &format!(".wrapping_add({} as i64)", d(3));
        }
        s += &format!("{ind}let key: i64 = {key};\n{ind}let mut acc: i64 = key;\n");
        // index into a shared Vec capture: the first argument where it is an integer, else the key
        let index = if typed { "key" } else { "a1" };
        for p in 0..self.sh.caps.len() {
            if self.sh.caps[p] {
                continue;
            }
            let n = self.sh.cap_name(p);
            if self.sh.cap_is_vec(p) {
                s += &format!("{ind}acc = acc.wrapping_mul(3).wrapping_add({n}[{index}.rem_euclid({n}.len() as i64) as usize]);\n");
            } else {
                s += &format!("{ind}acc = acc.wrapping_mul(3).wrapping_add(*{n});\n");
            }
        }
        s
    }
    // ---- template T: arguments of the type classes in `sh.types` ----
    /// An i64 computed from the contents of argument k.
    fn t_digest(&self, k: usize) -> String {
        let a = format!("a{}", k + 1);
        match self.sh.class(k) {
            'I' => a,
            'B' => format!("{a} as i64"),
            'O' if self.sh.owned_string(k) => format!("{a}.bytes().fold({a}.len() as i64, |h, v| h.wrapping_mul(31).wrapping_add(v as i64))"),
            _ => format!("{a}.iter().fold({a}.len() as i64, |h, v| h.wrapping_mul(31).wrapping_add(*v))"),
        }
    }
    /// The recursion ends when the first argument is exhausted (integer <= 0, false, empty slice / Vec).
    fn t_base(&self) -> &'static str {
        match self.sh.class(0) {
            'I' => "a1 <= 0",
            'B' => "!a1",
            _ => "a1.is_empty()",
        }
    }
    /// Argument k of the first (site 0) / second and last (site 1) recursive call.  The first argument gets
    /// strictly smaller; references are passed on re-borrowed (implicitly `a`, explicitly `&mut *a`, as a
    /// sub-slice); owned values are cloned at site 0 and MOVED into the call at site 1.
    fn t_site(&self, k: usize, site: usize) -> String {
        let a = format!("a{}", k + 1);
        let s = match (self.sh.class(k), k == 0, site) {
            ('I', true, 0) => "a1 - 1".into(),
            ('I', true, _) => "a1 - 2".into(),
            ('I', false, 0) => format!("{a}.wrapping_add(1)"),
            ('I', false, _) => format!("{a}.wrapping_mul(2) ^ 1"),
            ('B', true, 0) => "false".into(),
            ('B', true, _) => "!a1".into(),
            ('B', false, 0) => format!("!{a}"),
            ('B', false, _) => a,
            ('S', true, 0) => "&a1[1..]".into(),
            ('S', true, _) => "&a1[a1.len().min(2)..]".into(),
            ('S', false, 0) => a,
            ('S', false, _) => format!("&{a}[{a}.len().min(1)..]"),
            // the bounding `&mut Vec` was popped before the calls
            ('M', _, 0) => a,
            ('M', _, _) => format!("&mut *{a}"),
            ('O', true, 0) => "a1[1..].to_vec()".into(),
            ('O', true, _) => "{ let mut w = a1; w.pop(); w }".into(),
            ('O', false, 0) if self.sh.owned_string(k) => format!("{a}.clone() + \"x\""),
            ('O', false, 0) => format!("{a}.clone()"),
            ('O', false, _) => a,
            (c, _, _) => panic!("unknown argument class {c}"),
        };
        s
    }
    fn t_call(&self, site: usize) -> String {
        self.call_with((0..self.sh.nargs).map(|k| self.t_site(k, site)).collect())
    }

    fn ret(&self, e: &str) -> String {
        // super::early() (a counter next to the shape modules) counts the activations that leave the body through an explicit `return`
        if self.sh.ret {
            format!("super::early(); return {e};")
        } else {
            "super::early(); return;".to_string()
        }
    }

    fn body(&self, ind: &str) -> String {
        let i1 = format!("{ind}    ");
        let i2 = format!("{ind}        ");
        let r = self.sh.ret;
        let mut s = self.prologue(&i1);
        match self.sh.body {
            'A' => {
                s += &self.mutate("acc", &i1);
                s += &format!("{i1}if a1 <= 0 {{\n{i2}{}\n{i1}}}\n", self.ret("acc"));
                s += &format!("{i1}if a1 % 2 == 0 {{\n");
                if r {
                    s += &format!("{i2}let x = {};\n{i2}let y = {};\n", self.call(0), self.call(1));
                    s += &self.mutate("x.wrapping_sub(y)", &i2);
                    s += &format!("{i2}x.wrapping_mul(3).wrapping_add(y).wrapping_add(acc)\n");
                } else {
                    s += &format!("{i2}{};\n{i2}{};\n", self.call(0), self.call(1));
                    s += &self.mutate("key ^ 1", &i2);
                }
                s += &format!("{i1}}} else {{\n");
                if r {
                    s += &format!("{i2}let y = {};\n{i2}let x = {};\n", self.call(2), self.call(3));
                    s += &self.mutate("x ^ y", &i2);
                    s += &format!("{i2}x.wrapping_sub(y.wrapping_mul(2)).wrapping_add(acc)\n");
                } else {
                    s += &format!("{i2}{};\n{i2}{};\n", self.call(2), self.call(3));
                    s += &self.mutate("key ^ 2", &i2);
                }
                s += &format!("{i1}}}\n");
            }
            'B' => {
                s += &format!("{i1}if a1 <= 0 {{\n");
                s += &self.mutate("acc ^ 9", &i2);
                s += &format!("{i2}{}\n{i1}}}\n", self.ret("acc"));
                // early return before any mutation
                s += &format!("{i1}if a1 == 1 && key.rem_euclid(2) == 0 {{\n{i2}{}\n{i1}}}\n", self.ret("acc ^ 0x55"));
                s += &self.mutate("acc", &i1);
                if r {
                    s += &format!("{i1}let x = {};\n", self.call(0));
                    s += &format!("{i1}if x.rem_euclid(3) == 0 {{\n");
                    s += &self.mutate("77i64", &i2);
                    s += &format!("{i2}{}\n{i1}}}\n", self.ret("x.wrapping_add(1)"));
                    s += &format!("{i1}let y = {};\n{i1}let z = {};\n", self.call(1), self.call(4));
                    s += &self.mutate("x ^ y.wrapping_mul(3) ^ z.wrapping_mul(7)", &i1);
                    s += &format!("{i1}x.wrapping_add(y).wrapping_sub(z).wrapping_add(acc)\n");
                } else {
                    s += &format!("{i1}{};\n", self.call(0));
                    s += &format!("{i1}if key.rem_euclid(3) == 0 {{\n");
                    s += &self.mutate("77i64", &i2);
                    s += &format!("{i2}{}\n{i1}}}\n", self.ret(""));
                    s += &format!("{i1}{};\n{i1}{};\n", self.call(1), self.call(4));
                    s += &self.mutate("key ^ 3", &i1);
                }
            }
            'C' => {
                s += &self.mutate("acc", &i1);
                s += &format!("{i1}if a1 <= 0 {{\n{i2}{}\n{i1}}}\n", self.ret("acc"));
                if r {
                    // a recursive call as (part of) an argument of a recursive call
                    let inner = self.call(1);
                    let mut outer = site(2, self.sh.nargs);
                    outer[0] = format!("{inner}.rem_euclid(2) + a1 - 3");
                    s += &format!("{i1}let x = {};\n{i1}let mut t = x;\n", self.call_with(outer));
                    s += &format!("{i1}for i in 0..2i64 {{\n{i2}t = t.wrapping_mul(3).wrapping_add({});\n", self.call(5));
                    s += &self.mutate("t", &i2);
                    s += &format!("{i1}}}\n");
                    s += &format!("{i1}let w = match a1 % 3 {{\n{i2}0 => {},\n{i2}1 => {{\n", self.call(4));
                    s += &self.mutate("5i64", &format!("{i2}    "));
                    s += &format!("{i2}    0\n{i2}}}\n{i2}_ => -1,\n{i1}}};\n");
                    s += &format!("{i1}t.wrapping_add(w)\n");
                } else {
                    s += &format!("{i1}{};\n", self.call(1));
                    s += &format!("{i1}for i in 0..2i64 {{\n{i2}{};\n", self.call(5));
                    s += &self.mutate("key ^ i", &i2);
                    s += &format!("{i1}}}\n");
                    s += &format!("{i1}match a1 % 3 {{\n{i2}0 => {},\n{i2}1 => {{\n", self.call(4));
                    s += &self.mutate("5i64", &format!("{i2}    "));
                    s += &format!("{i2}}}\n{i2}_ => {{}}\n{i1}}}\n");
                }
            }
            'D' => {
                let n = self.sh.nargs;
                s += &self.mutate("acc", &i1);
                s += &format!("{i1}if a1 <= 0 {{\n{i2}{}\n{i1}}}\n", self.ret("acc"));
                // inner call: its first argument is a block that mutates the mutable captures
                let mut inner = site(1, n);
                inner[0] = self.effect_arg("key ^ 1", "a1 - 2", &i2);
                let inner = self.call_with(inner);
                // outer call: the inner call is (part of) its first argument; its last argument is a block
                // that mutates the mutable captures (the same argument when there is only one)
                let mut outer = site(2, n);
                let first = if r {
                    format!("{inner}.rem_euclid(2) + a1 - 3")
                } else {
                    format!("{{\n{i2}    {inner};\n{}{i2}    a1 - 2\n{i2}}}", self.mutate("key ^ 4", &format!("{i2}    ")))
                };
                if n == 1 {
                    outer[0] = self.effect_arg("key ^ 2", &first, &i2);
                } else {
                    outer[0] = first;
                    outer[n - 1] = self.effect_arg("key ^ 2", &outer[n - 1].clone(), &i2);
                }
                // a call whose first argument depends on a value popped off a mutable capture
                let mut popping = site(3, n);
                popping[0] = format!("a1 - 1 - {}", self.popped_bit());
                if r {
                    s += &format!("{i1}let x = {};\n", self.call_with(outer));
                    s += &self.mutate("x", &i1);
                    s += &format!("{i1}let y = {};\n", self.call_with(popping));
                    s += &self.mutate("x ^ y", &i1);
                    s += &format!("{i1}x.wrapping_mul(3).wrapping_add(y).wrapping_add(acc)\n");
                } else {
                    s += &format!("{i1}{};\n", self.call_with(outer));
                    s += &self.mutate("key ^ 3", &i1);
                    s += &format!("{i1}{};\n", self.call_with(popping));
                    s += &self.mutate("key ^ 5", &i1);
                }
            }
            'T' => {
                let n = self.sh.nargs;
                s += &self.mutate("acc", &i1);
                // a `&mut Vec` argument that does not bound the recursion is a log: every activation appends
                for k in 1..n {
                    if self.sh.class(k) == 'M' {
                        s += &format!("{i1}a{}.push(acc.wrapping_add({k}));\n", k + 1);
                    }
                }
                s += &format!("{i1}if {} {{\n{i2}{}\n{i1}}}\n", self.t_base(), self.ret("acc"));
                // one that does bound it is popped before the calls and pushed back (changed) after them
                let bounding_mut = self.sh.class(0) == 'M';
                if bounding_mut {
                    s += &format!("{i1}let t1 = a1.pop().unwrap();\n");
                }
                if r {
                    s += &format!("{i1}let x = {};\n", self.t_call(0));
                    s += &self.mutate("x", &i1);
                    s += &format!("{i1}let y = {};\n", self.t_call(1));
                    if bounding_mut {
                        s += &format!("{i1}a1.push(t1.wrapping_add(x).wrapping_sub(y));\n");
                    }
                    s += &self.mutate("x ^ y", &i1);
                    s += &format!("{i1}x.wrapping_mul(3).wrapping_add(y).wrapping_add(acc)\n");
                } else {
                    s += &format!("{i1}{};\n", self.t_call(0));
                    s += &self.mutate("key ^ 1", &i1);
                    s += &format!("{i1}{};\n", self.t_call(1));
                    if bounding_mut {
                        s += &format!("{i1}a1.push(t1 ^ key);\n");
                    }
                    s += &self.mutate("key ^ 2", &i1);
                }
            }
            other => panic!("unknown body template {other}"),
        }
        s
    }
}

/// The `rec_lambda!(…)` invocation of a shape, as source text (an expression).
pub fn macro_invocation(sh: &Shape, ind: &str) -> String {
    let caps: Vec<String> =
        (0..sh.caps.len()).map(|p| format!("{}: {}{}", sh.cap_name(p), if sh.caps[p] { "&mut " } else { "&" }, sh.cap_type(p))).collect();
    let args: Vec<String> = (0..sh.nargs).map(|i| format!("a{}: {}", i + 1, sh.arg_type(i))).collect();
    let i1 = format!("{ind}    ");
    let mut s = format!("rec_lambda!(f, |{}| {{\n", caps.join(", "));
    s += &format!("{i1}|{}|{} {{\n", args.join(", "), if sh.ret { " -> i64" } else { "" });
    s += &BodyGen { sh, hand: None }.body(&i1);
    s += &format!("{i1}}}\n{ind}}})");
    s
}

/// The argument lists (text between the parentheses) of every `f!(…)` in a macro invocation, nested ones
/// included.  Used for the non-vacuity facts "a recursive call occurs inside an argument of a recursive
/// call" and "an argument expression mutates a mutable capture".
pub fn call_argument_lists(invocation: &str) -> Vec<&str> {
    let b = invocation.as_bytes();
    let mut out = vec![];
    let mut from = 0;
    while let Some(k) = invocation[from..].find("f!(") {
        let open = from + k + 2;
        let mut depth = 0usize;
        let mut end = b.len();
        for (i, &c) in b.iter().enumerate().skip(open) {
            match c {
                b'(' | b'{' | b'[' => depth += 1,
                b')' | b'}' | b']' => {
                    depth -= 1;
                    if depth == 0 {
                        end = i;
                        break;
                    }
                }
                _ => {}
            }
        }
        out.push(&invocation[open + 1..end]);
        from = open + 1;
    }
    out
}
pub fn has_nested_call_argument(invocation: &str) -> bool {
    call_argument_lists(invocation).iter().any(|a| a.contains("f!("))
}
/// `mutate` writes `name.push(` / `*name = `; `popped_bit` writes `name.pop()`; mutable captures are named m<p>
pub fn has_mutating_argument(invocation: &str) -> bool {
    call_argument_lists(invocation).iter().any(|a| {
        (0..4).any(|p| a.contains(&format!("m{p}.push(")) || a.contains(&format!("m{p}.pop()")) || a.contains(&format!("*m{p} = ")))
    })
}

/// The equivalent hand-written recursive function: arguments, then the captures in written order.
pub fn hand_fn(sh: &Shape, name: &str, ind: &str) -> String {
    let mut params: Vec<String> = (0..sh.nargs).map(|i| format!("a{}: {}", i + 1, sh.arg_type(i))).collect();
    for p in 0..sh.caps.len() {
        params.push(format!("{}: {}{}", sh.cap_name(p), if sh.caps[p] { "&mut " } else { "&" }, sh.cap_type(p)));
    }
    let mut s = format!("{ind}fn {name}({}){} {{\n", params.join(", "), if sh.ret { " -> i64" } else { "" });
    // the body text is generated one level shallower than in the closure; indentation is cosmetic
    s += &BodyGen { sh, hand: Some(name) }.body(ind);
    s += &format!("{ind}}}\n");
    s
}

/// `()`, `(a,)`, `(a, b)`
fn tuple(parts: &[String]) -> String {
    match parts.len() {
        1 => format!("({},)", parts[0]),
        _ => format!("({})", parts.join(", ")),
    }
}

/// Driver of a typed-argument shape (template T), the same text for the closure and for the hand-written fn
/// except for the call itself (`call(arguments)`).  The data behind the arguments lives in the driver:
///   call 1;  the data is MUTATED (push, first element changed; integers and bools change value);  call 2;
///   call 3 on short-lived temporaries that are dropped right after it;  the data is dropped and RECREATED
///   (assignment of a new Vec / String);  call 4.
/// A reference argument therefore borrows for a different, non-overlapping region at every call, as is
/// ordinary for the hand-written fn.  Result: ((r1, r2, data passed by `&mut` after call 2, r3, temporaries
/// passed by `&mut` after call 3, r4), (captures…), (data passed by `&mut` at the end…)).
struct TypedDriver {
    /// declarations of the data behind the arguments
    data: String,
    /// the four calls with the changes in between (inside the scope of the closure)
    calls: String,
    /// the expression rendering the result
    show: String,
}

fn typed_calls(sh: &Shape, call: &dyn Fn(&[String]) -> String, dind: &str, ind: &str) -> TypedDriver {
    let n = sh.nargs;
    let mut decl = String::new();
    let mut mutate = String::new();
    let mut temps = String::new();
    let mut recreate = String::new();
    let (mut pass, mut pass_temp, mut mut_temps, mut mut_data) = (vec![], vec![], vec![], vec![]);
    for k in 0..n {
        let p = k + 1;
        match sh.class(k) {
            'I' => {
                let seed = ["a1".to_string(), "a2".into(), "(a3 % 1000) as i64".into(), "a4 as i64 + 5".into()][k].clone();
                decl += &format!("{dind}let mut v{p}: i64 = {seed};\n");
                if k == 0 {
                    mutate += &format!("{ind}v1 -= 1;\n");
                    recreate += &format!("{ind}v1 = a1.rem_euclid(4) + 1;\n");
                } else {
                    mutate += &format!("{ind}v{p} ^= 1;\n");
                    recreate += &format!("{ind}v{p} = v{p}.wrapping_mul(3) + {p};\n");
                }
                pass.push(format!("v{p}"));
                pass_temp.push(format!("v{p}"));
            }
            'B' => {
                let seed = ["a1 % 2 == 1".to_string(), "(a1 + 2) % 2 == 0".into(), "(a1 + 3) % 2 == 0".into(), "a4".into()][k].clone();
                decl += &format!("{dind}let mut v{p}: bool = {seed};\n");
                mutate += &format!("{ind}v{p} = !v{p};\n");
                recreate += &format!("{ind}v{p} = {};\n", if k == 0 { "true" } else { "a1 % 3 == 0" });
                pass.push(format!("v{p}"));
                pass_temp.push(format!("v{p}"));
            }
            'O' if sh.owned_string(k) => {
                decl += &format!("{dind}let mut d{p}: String = \"ab\".repeat((a1 + {p}).rem_euclid(3) as usize + 1);\n");
                mutate += &format!("{ind}d{p}.push('z');\n");
                recreate += &format!("{ind}d{p} = format!(\"q{{}}\", a2);\n");
                pass.push(format!("d{p}.clone()"));
                pass_temp.push("String::from(\"tmp\")".to_string());
            }
            c @ ('S' | 'M' | 'O') => {
                // the first argument bounds the recursion: at most 6 elements at any call
                let len = if k == 0 { "a1.rem_euclid(5)".to_string() } else { format!("(a1 + {p}).rem_euclid(3) + 1") };
                decl += &format!("{dind}let mut d{p}: Vec<i64> = (0..{len}).map(|i| i * 3 + a2 + {p}).collect();\n");
                mutate += &format!("{ind}d{p}.push(11 + {p});\n{ind}if let Some(v) = d{p}.first_mut() {{\n{ind}    *v ^= 5;\n{ind}}}\n");
                recreate += &format!("{ind}d{p} = vec![a2 - {p}, 8, a1];\n");
                match c {
                    'S' => {
                        temps += &format!("{ind}    let t{p}: Vec<i64> = vec![{p}, 4, a2];\n");
                        pass.push(format!("&d{p}"));
                        pass_temp.push(format!("&t{p}"));
                    }
                    'M' => {
                        temps += &format!("{ind}    let mut t{p}: Vec<i64> = vec![{p}, 4, a2];\n");
                        pass.push(format!("&mut d{p}"));
                        pass_temp.push(format!("&mut t{p}"));
                        mut_temps.push(format!("&t{p}"));
                        mut_data.push(format!("&d{p}"));
                    }
                    _ => {
                        pass.push(format!("d{p}.clone()"));
                        pass_temp.push(format!("vec![{p}, 4, a2]"));
                    }
                }
            }
            c => panic!("unknown argument class {c}"),
        }
    }
    let mut s = String::new();
    s += &format!("{ind}let r1 = {};\n", call(&pass));
    s += &mutate;
    s += &format!("{ind}let r2 = {};\n", call(&pass));
    s += &format!("{ind}let after2 = format!(\"{{:?}}\", {});\n", tuple(&mut_data));
    s += &format!("{ind}let (r3, t3) = {{\n{temps}{ind}    let r = {};\n{ind}    (r, format!(\"{{:?}}\", {}))\n{ind}}};\n", call(&pass_temp), tuple(&mut_temps));
    s += &recreate;
    s += &format!("{ind}let r4 = {};\n", call(&pass));
    // the caller closes the scope of the closure and then renders `show`
    let caps: Vec<String> = (0..sh.caps.len()).map(|p| format!("&{}", sh.cap_name(p))).collect();
    let show = format!("format!(\"{{:?}}\", ((r1, r2, after2, r3, t3, r4), {}, {}))", tuple(&caps), tuple(&mut_data));
    TypedDriver { data: decl, calls: s, show }
}

fn shape_module(id: usize, sh: &Shape, with_macro: bool) -> String {
    let n = sh.nargs;
    let mut s = format!("// shape {id}: {}\nmod shape_{id} {{\n    use rlib_lambda::rec_lambda;\n\n", sh.descriptor());
    s += &hand_fn(sh, "hand", "    ");
    let decl = |s: &mut String| {
        for p in 0..sh.caps.len() {
            *s += &format!(
                "        let {}{}: {} = {};\n",
                if sh.caps[p] { "mut " } else { "" },
                sh.cap_name(p),
                sh.cap_type(p),
                sh.cap_init(p)
            );
        }
    };
    let lam = if with_macro {
        format!("            let mut lam = {};\n", macro_invocation(sh, "            "))
    } else {
        // control variant (used only to tell a generator defect from a macro defect): an ordinary closure
        // around the hand-written function, no macro involved
        let ps: Vec<String> = (0..n).map(|i| format!("a{}: {}", i + 1, sh.arg_type(i))).collect();
        let mut all: Vec<String> = (1..=n).map(|i| format!("a{i}")).collect();
        for p in 0..sh.caps.len() {
            all.push(format!("{}{}", if sh.caps[p] { "&mut " } else { "&" }, sh.cap_name(p)));
        }
        format!("            let mut lam = |{}| hand({});\n", ps.join(", "), all.join(", "))
    };
    let caps_pass: Vec<String> = (0..sh.caps.len()).map(|p| format!("{}{}", if sh.caps[p] { "&mut " } else { "&" }, sh.cap_name(p))).collect();
    let with = |a: &[String]| {
        let mut all = a.to_vec();
        all.extend(caps_pass.iter().cloned());
        all.join(", ")
    };
    let call_lam = |a: &[String]| format!("lam({})", a.join(", "));
    let call_hand = |a: &[String]| format!("hand({})", with(a));

    if sh.body == 'T' {
        // the closure is created once and called four times, the data behind its arguments changing in between
        for (name, is_lam) in [("run_macro", true), ("run_hand", false)] {
            let call: &dyn Fn(&[String]) -> String = if is_lam { &call_lam } else { &call_hand };
            let TypedDriver { data, calls, show } = typed_calls(sh, call, "        ", "            ");
            s += &format!("\n    pub fn {name}(a1: i64, a2: i64, a3: u32, a4: bool) -> String {{\n");
            decl(&mut s);
            s += &data;
            s += "        let (r1, r2, after2, r3, t3, r4) = {\n";
            if is_lam {
                s += &lam;
            }
            s += &calls;
            s += "            (r1, r2, after2, r3, t3, r4)\n        };\n";
            s += &format!("        {show}\n    }}\n");
        }
        s += "}\n\n";
        return s;
    }

    let show = {
        let mut parts = vec!["r1".to_string(), "r2".to_string()];
        for p in 0..sh.caps.len() {
            parts.push(format!("&{}", sh.cap_name(p)));
        }
        format!("        format!(\"{{:?}}\", ({}))\n", parts.join(", "))
    };
    let first: Vec<String> = (1..=n).map(|i| format!("a{i}")).collect();
    let mut second = first.clone();
    second[0] = "a1 - 1".to_string();

    // (a) the macro version: the closure is created once and called twice
    s += "\n    pub fn run_macro(a1: i64, a2: i64, a3: u32, a4: bool) -> String {\n";
    decl(&mut s);
    s += "        let (r1, r2) = {\n";
    s += &lam;
    s += &format!("            let r1 = {};\n            let r2 = {};\n            (r1, r2)\n        }};\n", call_lam(&first), call_lam(&second));
    s += &show;
    s += "    }\n";

    // (b) the hand-written version
    s += "\n    pub fn run_hand(a1: i64, a2: i64, a3: u32, a4: bool) -> String {\n";
    decl(&mut s);
    s += &format!("        let r1 = {};\n        let r2 = {};\n", call_hand(&first), call_hand(&second));
    s += &show;
    s += "    }\n}\n\n";
    s
}

const ALLOW: &str = "#![allow(warnings)]\n#![allow(unused, unused_mut, unused_variables, unused_assignments, dead_code, unreachable_code, clippy::all)]\n\n";

/// A generated package = several LIBRARY crates, each holding the modules of some shapes (so that the compiler
/// front-end works on them at the same time), and one binary that links them all and runs every shape, in the
/// order of the ids, on its main thread.
///
/// Source of one library (without the crate-level attributes): two counters, one module per shape, the table
/// of its shapes.  Also returns the 1-based line range (first, last) of every shape's module relative to the
/// first line of this text, used to attribute compiler diagnostics to shapes.
pub fn lib_source(shapes: &[(usize, Shape)], with_macro: bool) -> (String, Vec<(usize, usize, usize)>) {
    let mut lines = vec![];
    let mut s = String::new();
    s += "use std::sync::atomic::{AtomicU64, Ordering};\n";
    s += "static CALLS: AtomicU64 = AtomicU64::new(0);\n";
    s += "pub fn tick() {\n    CALLS.fetch_add(1, Ordering::Relaxed);\n}\n";
    s += "static EARLY: AtomicU64 = AtomicU64::new(0);\n";
    s += "pub fn early() {\n    EARLY.fetch_add(1, Ordering::Relaxed);\n}\n";
    s += "/// (body executions, activations left through an explicit `return`) so far\n";
    s += "pub fn counters() -> (u64, u64) {\n    (CALLS.load(Ordering::Relaxed), EARLY.load(Ordering::Relaxed))\n}\n";
    s += "pub type Runner = fn(i64, i64, u32, bool) -> String;\n\n";
    let mut line = s.matches('\n').count();
    for (id, sh) in shapes {
        let m = shape_module(*id, sh, with_macro);
        let n = m.matches('\n').count();
        lines.push((*id, line + 1, line + n));
        line += n;
        s += &m;
    }
    s += "pub static SHAPES: &[(u64, usize, Runner, Runner)] = &[\n";
    for (id, sh) in shapes {
        s += &format!("    ({id}, {}, shape_{id}::run_macro, shape_{id}::run_hand),\n", sh.nargs);
    }
    s += "];\n";
    (s, lines)
}

/// A library crate's `src/lib.rs`; the line ranges are those of the file.
pub fn lib_file(shapes: &[(usize, Shape)], with_macro: bool) -> (String, Vec<(usize, usize, usize)>) {
    let head = format!("// GENERATED by eng_lambda (C20) - do not edit\n{ALLOW}");
    let off = head.matches('\n').count();
    let (body, lines) = lib_source(shapes, with_macro);
    (head + &body, lines.into_iter().map(|(id, a, b)| (id, a + off, b + off)).collect())
}

/// The driver: prints one JSON line per shape with id >= argv[1] (default 0), in the order of the ids.
/// `parts` = paths of the crates / modules that hold the shapes.
pub fn main_source(parts: &[String], thorough: bool) -> String {
    let mut s = String::new();
    s += "type Tuple = (i64, i64, u32, bool);\ntype Runner = fn(i64, i64, u32, bool) -> String;\ntype Counters = fn() -> (u64, u64);\n\n";
    for nargs in 1..=4 {
        let g = grid(thorough, nargs);
        s += &format!("static GRID_{nargs}: &[Tuple] = &[\n");
        for t in &g {
            s += &format!("    ({}, {}, {}, {}),\n", t.0, t.1, t.2, t.3);
        }
        s += "];\n";
    }
    s += "\nfn shapes() -> Vec<(u64, usize, Runner, Runner, Counters)> {\n    let mut v: Vec<(u64, usize, Runner, Runner, Counters)> = vec![];\n";
    for p in parts {
        s += &format!("    v.extend({p}::SHAPES.iter().map(|&(id, n, m, h)| (id, n, m, h, {p}::counters as Counters)));\n");
    }
    s += "    v.sort_by_key(|e| e.0);\n    v\n}\n\n";
    s += r#"fn run_all(f: Runner, grid: &[Tuple], counters: Counters) -> (Vec<String>, u64, u64) {
    let (calls, early) = counters();
    let mut out = vec![];
    for &(a1, a2, a3, a4) in grid {
        out.push(match std::panic::catch_unwind(move || f(a1, a2, a3, a4)) {
            Ok(s) => s,
            Err(_) => "PANIC".to_string(),
        });
    }
    let after = counters();
    (out, after.0 - calls, after.1 - early)
}

fn quote(v: &[String]) -> String {
    // the strings are Debug renderings of integers, vectors of integers, unit and ASCII strings
    let q: Vec<String> = v.iter().map(|s| format!("\"{}\"", s.replace('\\', "\\\\").replace('"', "\\\""))).collect();
    format!("[{}]", q.join(","))
}

fn main() {
    std::panic::set_hook(Box::new(|_| {}));
    let from: u64 = std::env::args().nth(1).and_then(|s| s.parse().ok()).unwrap_or(0);
    for (id, nargs, m, h, counters) in shapes() {
        if id < from {
            continue;
        }
        let grid = match nargs {
            1 => GRID_1,
            2 => GRID_2,
            3 => GRID_3,
            _ => GRID_4,
        };
        // announce before running, so that a crash (stack overflow) is attributable to a shape
        println!("{{\"begin\":{}}}", id);
        let (rm, cm, em) = run_all(m, grid, counters);
        let (rh, ch, eh) = run_all(h, grid, counters);
        println!(
            "{{\"id\":{},\"macro\":{},\"hand\":{},\"calls_macro\":{},\"calls_hand\":{},\"early_macro\":{},\"early_hand\":{}}}",
            id,
            quote(&rm),
            quote(&rh),
            cm,
            ch,
            em,
            eh
        );
    }
    println!("{{\"done\":true}}");
}
"#;
    s
}

/// The binary's `src/main.rs`.
pub fn main_file(lib_names: &[String], thorough: bool) -> String {
    format!("// GENERATED by eng_lambda (C20) - do not edit\n{ALLOW}{}", main_source(lib_names, thorough))
}

/// A complete single-file program (shape modules and driver in one crate), used where a shape is compiled on
/// its own with rustc.  `with_macro = false` gives the control variant in which no `rec_lambda!` invocation
/// occurs (same hand-written functions and driver).
pub fn program(shapes: &[(usize, Shape)], thorough: bool, with_macro: bool) -> String {
    let (lib, _) = lib_source(shapes, with_macro);
    format!("// GENERATED by eng_lambda (C20) - do not edit\n{ALLOW}mod part {{\n{lib}}}\n\n{}", main_source(&["part".to_string()], thorough))
}

const PROFILES: &str = r#"[profile.release]
opt-level = 0
debug = false
incremental = false
codegen-units = 16
overflow-checks = false
debug-assertions = false
panic = "unwind"

# the same with what `cargo build` / `cargo test` switch on by default; `cfg(debug_assertions)` inside a
# macro_rules! macro is evaluated in the crate that invokes it, i.e. in these packages
[profile.dbg]
inherits = "release"
overflow-checks = true
debug-assertions = true
"#;

/// Manifest of the binary = root of the generated workspace (standalone: not a member of /verif/harness's).
pub fn root_cargo_toml(pkg_name: &str, lib_names: &[String]) -> String {
    let members: Vec<String> = lib_names.iter().map(|l| format!("\"{l}\"")).collect();
    let deps: Vec<String> = lib_names.iter().map(|l| format!("{l} = {{ path = \"{l}\" }}\n")).collect();
    format!(
        "# GENERATED by eng_lambda (C20)\n[package]\nname = \"{pkg_name}\"\nversion = \"0.0.0\"\nedition = \"2021\"\npublish = false\n\n[workspace]\nmembers = [{}]\n\n[dependencies]\n{}\n{PROFILES}",
        members.join(", "),
        deps.concat()
    )
}

/// Manifest of one library of shapes.
pub fn lib_cargo_toml(lib_name: &str, crate_path: &str) -> String {
    format!(
        "# GENERATED by eng_lambda (C20)\n[package]\nname = \"{lib_name}\"\nversion = \"0.0.0\"\nedition = \"2021\"\npublish = false\n\n[dependencies]\nrlib_lambda = {{ path = \"{crate_path}\" }}\n"
    )
}
