//! Program generator for C20: one `rec_lambda!` invocation and one hand-written recursive `fn` per shape,
//! both with the SAME body text (only the spelling of the recursive call differs: `f!(e1, e2)` /
//! `f!(e1, e2,)` in the macro version, `hand(e1, e2, <captures in written order>)` in the hand version),
//! and a driver per shape that calls both in the same way.  Families: body templates A-D (fixed argument
//! types), T (argument TYPE classes), E (argument EXPRESSION classes whose type only the parameter fixes),
//! N (identifier collisions: which names the recursion, the arguments, the locals and the closure carry), K (classes
//! of DECLARED CAPTURE TYPES), X (execution environments: deep recursion on a big caller stack, several threads, a
//! moved closure, a lambda inside a lambda - run in child processes), G (argument expressions that create TEMPORARIES
//! WITH DESTRUCTORS - guards, RefCell borrows, MutexGuards, references into temporary Strings / Vecs, blocks with
//! locals - with a journal that every activation reads on entry).  The shapes of a run are spread over several
//! library crates (compiled at the same time) that one binary links and runs.

use serde::{Deserialize, Serialize};

#[derive(Clone, Debug, Default, PartialEq, Eq, Serialize, Deserialize)]
pub struct Shape {
    /// captures in the order written in the invocation; true = `&mut`, false = `&`
    pub caps: Vec<bool>,
    /// number of lambda arguments, 1..=4 (types i64, i64, u32, bool unless `types` says otherwise)
    pub nargs: usize,
    /// `-> i64` present
    pub ret: bool,
    /// recursive calls written `f!(a, b,)`
    pub trailing: bool,
    /// body template: 'A' two recursive calls, order chosen by a branch on the first argument;
    /// 'B' three recursive calls with early returns; 'C' nested call, calls in a loop and in a match arm;
    /// 'D' argument expressions with effects: a recursive call nested in an argument of a recursive call
    /// (also as a statement of a block argument when there is no return value), arguments that are blocks
    /// mutating every mutable capture before yielding their value, and an argument computed from a value
    /// popped off a mutable Vec capture;
    /// 'T' typed arguments: two recursive calls after an early return, over arguments of the classes in `types`;
    /// 'E' arguments whose type only the PARAMETER fixes (classes in `exprs`): the recursive calls pass
    /// literal-only integer / float expressions and expressions that need the expected type to infer;
    /// 'N' identifier collisions (scheme in `naming`): two recursive calls in a loop and one after it, with a
    /// local, a loop variable and calls of `max`, `drop`, `Some` by their plain names in scope;
    /// 'K' the body of 'A' over captures whose declared types come from the classes in `captypes`;
    /// 'X' a path (one recursive call per activation) driven in the execution environment `env`;
    /// 'G' argument expressions that create TEMPORARIES WITH DESTRUCTORS (classes in `temps`): guards, RefCell
    /// borrows, MutexGuards, references into temporary Strings / Vecs, blocks with locals; the body reads, on
    /// entry, a journal of what was created, evaluated and destroyed so far
    pub body: char,
    /// body template 'T' only: the type class of every argument, one letter per argument —
    /// I `i64`, B `bool`, S `&[i64]` (shared slice), M `&mut Vec<i64>` (a mutable reference passed as an
    /// ARGUMENT and re-borrowed in the recursive calls), O owned and moved in (`Vec<i64>` at the 1st/3rd
    /// position, `String` at the 2nd/4th).  Empty for the other templates (fixed types i64, i64, u32, bool).
    #[serde(default, skip_serializing_if = "String::is_empty")]
    pub types: String,
    /// body template 'E' only: the expression class (see `eclasses`) of every argument, by name.
    #[serde(default, skip_serializing_if = "Vec::is_empty")]
    pub exprs: Vec<String>,
    /// body template 'N' only: which identifiers coincide (see `Shape::names`).  Empty = the default names
    /// (recursion name `f`, arguments a1.., captures s<p> / m<p>, local `acc`, loop variable `i`, the closure is
    /// bound to `lam`).
    #[serde(default, skip_serializing_if = "String::is_empty")]
    pub naming: String,
    /// body template 'K' only: the class (see `cclasses`) of the DECLARED TYPE of every capture, by name, in
    /// written order; the kind (`&` / `&mut`) of the capture is in `caps`.  Empty for the other templates
    /// (shared captures i64 / Vec<i64>, mutable ones Vec<i64> / i64).
    #[serde(default, skip_serializing_if = "Vec::is_empty")]
    pub captypes: Vec<String>,
    /// body template 'X' only: the execution environment the driver calls the closure in (see `ENVS`).
    #[serde(default, skip_serializing_if = "String::is_empty")]
    pub env: String,
    /// body template 'G' only: the class (see `tclasses`) of the argument EXPRESSION at every argument position
    /// of the recursive calls, by name: expressions that create temporaries with destructors.
    #[serde(default, skip_serializing_if = "Vec::is_empty")]
    pub temps: Vec<String>,
}

/// The identifier of the helper fn that the macro defines next to the user's body (read off
/// /repo/rlib/lambda/src/lib.rs; the engine records whether the source still contains it).
pub const HIDDEN: &str = "_lambda_name_";
/// Names of the macro's own metavariables, used as user identifiers by the naming scheme `meta`.
const META_REC: &str = "name";
const META_ARGS: [&str; 4] = ["x", "xf", "arg", "ret"];
const META_CAPS: [&str; 4] = ["dol", "body", "var", "rem"];
const META_LOCAL: &str = "var_type";
const META_LOOPVAR: &str = "arg_type";
/// Names of the standard library that the recursion may be named after: `max` (imported with `use
/// std::cmp::max` and CALLED in the body), `drop` and `Some` (prelude, used in the body), `vec` and `format`
/// (macros; the body does not invoke them).
pub const STD_NAMES: [&str; 5] = ["max", "drop", "Some", "vec", "format"];

/// The identifiers of a shape (captures: `Shape::cap_name`).
pub struct Names {
    pub rec: String,
    pub args: Vec<String>,
    pub local: String,
    pub loopvar: String,
    /// the variable the closure is bound to in the driver
    pub binding: String,
}

pub const ARG_TYPES: [&str; 4] = ["i64", "i64", "u32", "bool"];
pub const CLASSES: [char; 5] = ['I', 'B', 'S', 'M', 'O'];
/// (return type present, trailing comma)
const COMBOS: [(bool, bool); 4] = [(false, false), (false, true), (true, false), (true, true)];
pub type Tuple = (i64, i64, u32, bool);

impl Shape {
    pub fn descriptor(&self) -> String {
        let caps = if self.caps.is_empty() {
            "-".to_string()
        } else {
            self.caps.iter().map(|&m| if m { "&mut" } else { "&" }).collect::<Vec<_>>().join(",")
        };
        let extra = if !self.types.is_empty() {
            format!("/types={}", self.types)
        } else if !self.exprs.is_empty() {
            format!("/exprs={}", self.exprs.join(","))
        } else if !self.naming.is_empty() {
            format!("/names={}", self.naming)
        } else if !self.captypes.is_empty() {
            format!("/captypes={}", self.captypes.join(","))
        } else if !self.env.is_empty() {
            format!("/env={}", self.env)
        } else if !self.temps.is_empty() {
            format!("/temps={}", self.temps.join(","))
        } else {
            String::new()
        };
        format!(
            "caps={}/args={}{}/ret={}/call={}/body={}",
            caps,
            self.nargs,
            extra,
            if self.ret { "i64" } else { "none" },
            if self.trailing { "trailing_comma" } else { "plain" },
            self.body
        )
    }
    pub fn n_mut(&self) -> usize {
        self.caps.iter().filter(|&&m| m).count()
    }
    /// Nothing but termination can be observed: no return value and no mutable capture.
    pub fn trivially_observable(&self) -> bool {
        !self.ret && self.n_mut() == 0 && !self.types.contains('M') && !(0..self.captypes.len()).any(|p| self.cclass(p).interior)
    }
    /// Type class of argument k (0-based); the fixed types of the templates A-D count as by-value classes.
    pub fn class(&self, k: usize) -> char {
        match self.types.as_bytes().get(k) {
            Some(&c) => c as char,
            None => ['I', 'I', 'I', 'B'][k],
        }
    }
    pub fn arg_type(&self, k: usize) -> String {
        if self.body == 'E' {
            return eclass(&self.exprs[k]).ty;
        }
        if self.body == 'G' {
            return tclass(&self.temps[k]).ty.to_string();
        }
        if self.types.is_empty() {
            return ARG_TYPES[k].to_string();
        }
        let t: &str = match self.class(k) {
            'I' => "i64",
            'B' => "bool",
            'S' => "&[i64]",
            'M' => "&mut Vec<i64>",
            'O' if k % 2 == 0 => "Vec<i64>",
            'O' => "String",
            c => panic!("unknown argument class {c}"),
        };
        t.to_string()
    }
    /// Which grid of driver tuples the shape is run on: its argument count, or 0 = the grid of template E
    /// (only the first component of a tuple enters the values the driver passes).
    pub fn grid_arity(&self) -> usize {
        match self.body {
            'E' | 'G' => 0,
            'X' if self.env == "deep" => GRID_DEEP,
            'X' => GRID_ENV,
            _ => self.nargs,
        }
    }
    /// How many components of a driver tuple the shape uses (for messages and signatures).
    pub fn tuple_arity(&self) -> usize {
        if self.body == 'E' || self.body == 'G' {
            1
        } else {
            self.nargs
        }
    }
    /// The driver runs every call of this shape in a child process of its own (see `main_source`).
    pub fn isolated(&self) -> bool {
        self.body == 'X'
    }
    /// The identifiers the naming scheme gives to the recursion, the arguments, the body's local and loop
    /// variable and the variable the closure is bound to.  Schemes: `rec:arg<k>` / `rec:cap<p>` / `rec:local` /
    /// `rec:loopvar` / `rec:binding` the recursion is named like that argument / capture / local / loop variable /
    /// like the variable the closure is bound to; `rec:std.<name>` like a name of the standard library;
    /// `rec:hidden`, `arg<k>:hidden`, `local:hidden`, `loopvar:hidden`, `binding:hidden` that identifier is
    /// the macro's hidden helper name; `meta` every identifier is the name of one of the macro's metavariables.
    pub fn names(&self) -> Names {
        let mut n = Names {
            rec: "f".into(),
            args: (1..=self.nargs).map(|k| format!("a{k}")).collect(),
            local: "acc".into(),
            loopvar: "i".into(),
            binding: "lam".into(),
        };
        let scheme = self.naming.as_str();
        if scheme.is_empty() {
            return n;
        }
        if scheme == "meta" {
            n.rec = META_REC.into();
            n.args = META_ARGS[..self.nargs].iter().map(|s| s.to_string()).collect();
            n.local = META_LOCAL.into();
            n.loopvar = META_LOOPVAR.into();
            return n;
        }
        let (who, what) = scheme.split_once(':').unwrap_or_else(|| panic!("bad naming scheme {scheme}"));
        let index = |s: &str, prefix: &str| s.strip_prefix(prefix).and_then(|d| d.parse::<usize>().ok());
        let name: String = if what == "hidden" {
            HIDDEN.into()
        } else if let Some(std) = what.strip_prefix("std.") {
            std.into()
        } else if let Some(k) = index(what, "arg") {
            n.args[k - 1].clone()
        } else if let Some(p) = index(what, "cap") {
            self.cap_name(p)
        } else {
            match what {
                "local" => n.local.clone(),
                "loopvar" => n.loopvar.clone(),
                "binding" => n.binding.clone(),
                _ => panic!("bad naming scheme {scheme}"),
            }
        };
        if let Some(k) = index(who, "arg") {
            n.args[k - 1] = name;
        } else {
            match who {
                "rec" => n.rec = name,
                "local" => n.local = name,
                "loopvar" => n.loopvar = name,
                "binding" => n.binding = name,
                _ => panic!("bad naming scheme {scheme}"),
            }
        }
        n
    }
    fn owned_string(&self, k: usize) -> bool {
        self.class(k) == 'O' && k % 2 == 1
    }
    /// How often the driver calls the closure (and the hand-written fn) per argument tuple.
    pub fn top_level_calls(&self) -> usize {
        if self.body == 'T' {
            4
        } else {
            2
        }
    }
    /// 0 no capture, 1 shared only, 2 mutable only, 3 both kinds
    pub fn capture_class(&self) -> usize {
        (self.caps.contains(&false) as usize) | (self.caps.contains(&true) as usize) << 1
    }
    pub fn cap_name(&self, p: usize) -> String {
        if self.naming == "meta" {
            return META_CAPS[p].to_string();
        }
        format!("{}{}", if self.caps[p] { "m" } else { "s" }, p)
    }
    /// Type of the capture at written position p (without the reference).  Shared captures alternate
    /// i64 / Vec<i64>, mutable ones Vec<i64> (a log) / i64 (a counter), counted within their own kind, so
    /// that both "same type, different value" and "different type" neighbours occur.
    fn cap_is_vec(&self, p: usize) -> bool {
        let k = self.caps[..p].iter().filter(|&&m| m == self.caps[p]).count();
        if self.caps[p] {
            k % 2 == 0
        } else {
            k % 2 == 1
        }
    }
    /// The class of the declared type of capture p (body template 'K').
    pub fn cclass(&self, p: usize) -> &'static CClass {
        cclass(self.caps[p], &self.captypes[p])
    }
    fn cap_type(&self, p: usize) -> &'static str {
        if !self.captypes.is_empty() {
            self.cclass(p).ty
        } else if self.cap_is_vec(p) {
            "Vec<i64>"
        } else {
            "i64"
        }
    }
    fn cap_init(&self, p: usize) -> String {
        let p = p as i64;
        match (self.caps[p as usize], self.cap_is_vec(p as usize)) {
            (false, false) => format!("{}", 100 + 7 * p),
            (false, true) => format!("vec![{}, {}, 5]", p + 1, 2 * p + 3),
            (true, true) => format!("vec![{}]", 1000 + p),
            (true, false) => format!("{}", 10 * p + 1),
        }
    }
}

/// `plan` = (body template, argument counts it is emitted with).  Simplest first: body template, then
/// number of captures, capture pattern (`&` before `&mut`, leftmost position most significant), number of
/// arguments, return type absent before present, plain call before trailing comma.
pub fn enumerate(plan: &[(char, Vec<usize>)]) -> Vec<Shape> {
    let mut v = vec![];
    for (body, arities) in plan {
        let body = *body;
        for ncaps in 0..=4usize {
            for pat in 0..(1u32 << ncaps) {
                let caps: Vec<bool> = (0..ncaps).map(|i| (pat >> (ncaps - 1 - i)) & 1 == 1).collect();
                for &nargs in arities {
                    for ret in [false, true] {
                        for trailing in [false, true] {
                            v.push(Shape { caps: caps.clone(), nargs, ret, trailing, body, ..Shape::default() });
                        }
                    }
                }
            }
        }
    }
    v
}

/// The 31 capture patterns in the order of `enumerate`.
pub fn capture_patterns() -> Vec<Vec<bool>> {
    let mut v = vec![];
    for ncaps in 0..=4usize {
        for pat in 0..(1u32 << ncaps) {
            v.push((0..ncaps).map(|i| (pat >> (ncaps - 1 - i)) & 1 == 1).collect());
        }
    }
    v
}

/// The five "rotation" type vectors of an argument count: argument p gets class (p + r) mod 5 of I B S M O,
/// r = 0..5.  Over the five vectors every argument position takes every class exactly once, and for two or
/// more arguments every vector mixes classes.
pub fn rotation_types(nargs: usize) -> Vec<String> {
    (0..5).map(|r| (0..nargs).map(|p| CLASSES[(p + r) % 5]).collect()).collect()
}

/// Further type vectors for two or more arguments: every argument of the same class (two `&mut` arguments, two
/// slices … — several elided lifetimes in one signature), and one non-integer class at one position with
/// integers around it.  Vectors that are rotation vectors already are left out.
pub fn extra_types(nargs: usize) -> Vec<String> {
    let mut v: Vec<String> = vec![];
    if nargs < 2 {
        return v;
    }
    let rot = rotation_types(nargs);
    for &c in &CLASSES[1..] {
        v.push((0..nargs).map(|_| c).collect());
    }
    for p in 0..nargs {
        for &c in &CLASSES[1..] {
            v.push((0..nargs).map(|q| if q == p { c } else { 'I' }).collect());
        }
    }
    v.retain(|t| !rot.contains(t));
    v
}

/// The typed-argument family (body template 'T').  For every capture pattern and every argument count:
/// the five rotation vectors (quick: each with one of the four (return type, call syntax) combinations,
/// rotating so that all four occur; thorough: with all four), plus further vectors (quick: one per cell,
/// rotating through `extra_types`; thorough: all of them, the combination rotating).
pub fn enumerate_typed(thorough: bool) -> Vec<Shape> {
    let mut v = vec![];
    for (q, caps) in capture_patterns().into_iter().enumerate() {
        for nargs in 1..=4usize {
            let mut push = |types: &String, combo: usize| {
                let (ret, trailing) = COMBOS[combo % 4];
                v.push(Shape { caps: caps.clone(), nargs, ret, trailing, body: 'T', types: types.clone(), ..Shape::default() });
            };
            for (r, types) in rotation_types(nargs).iter().enumerate() {
                if thorough {
                    (0..4).for_each(|c| push(types, c));
                } else {
                    push(types, q + nargs + r);
                }
            }
            let extra = extra_types(nargs);
            if thorough {
                extra.iter().enumerate().for_each(|(e, types)| push(types, q + nargs + e));
            } else if !extra.is_empty() {
                push(&extra[q % extra.len()], q + nargs);
            }
        }
    }
    v
}

/// A class of argument expressions whose type is fixed by nothing but the parameter they are passed to
/// (body template 'E').
#[derive(Clone, Debug)]
pub struct EClass {
    pub name: String,
    /// the parameter's type
    pub ty: String,
    /// a value for the driver's call, from the i64 expression `{v}` (0..=20)
    pub top: String,
    /// an i64 computed from the argument `{a}`
    pub digest: String,
    /// the argument at the three plain recursive-call sites
    pub sites: [String; 3],
    /// the argument at the two sites inside `for k in [..u32 values..]`; `{k}` = the loop variable
    pub loop_sites: [String; 2],
    /// every one of the five is built from unsuffixed literals only (plus the u32 loop variable as a shift count)
    pub literal_only: bool,
}

/// Shift counts of the loop sites (reduced modulo the parameter's width in the expressions).
pub const E_SHIFTS: [u32; 11] = [0, 1, 7, 8, 15, 16, 31, 32, 63, 64, 127];
/// A literal-only expression worth 2^32: either literal exceeds i32, their sum exceeds u32.
const TWO_32: &str = "0x8000_0000 + 0x8000_0000";
/// Decimal literal just above the midpoint of two neighbouring f32 values, by less than half an f64 ulp:
/// rounding it to f32 directly gives the upper neighbour, rounding to f64 first gives the midpoint itself
/// and then (ties to even) the lower one.
const F32_DOUBLE_ROUNDING: &str = "1.000000298023223876953125000001";

fn build_eclasses() -> Vec<EClass> {
    let s = |x: &str| x.to_string();
    let mut v = vec![];
    let ints: [(&str, u32, bool); 12] = [
        ("u8", 8, false),
        ("u16", 16, false),
        ("u32", 32, false),
        ("u64", 64, false),
        ("usize", usize::BITS, false),
        ("u128", 128, false),
        ("i8", 8, true),
        ("i16", 16, true),
        ("i32", 32, true),
        ("i64", 64, true),
        ("isize", isize::BITS, true),
        ("i128", 128, true),
    ];
    for (t, b, signed) in ints {
        let value_bits = if signed { b - 1 } else { b };
        let max: u128 = if value_bits == 128 { u128::MAX } else { (1u128 << value_bits) - 1 };
        let digest = if b == 128 { s("({a} as i64) ^ (({a} >> 64) as i64).wrapping_mul(31)") } else { s("{a} as i64") };
        // 1: the largest value, 2: all ones shifted right (unsigned) / the smallest value (signed),
        // 3: 2^32 where it fits, else a value with the top bit of the type in play
        let second = if signed { format!("-{max} - 1") } else { s("!0 >> 1") };
        let third = if b >= 64 {
            s(TWO_32)
        } else if signed {
            s("!0 >> 1")
        } else if b == 32 {
            s("0x8000_0000")
        } else {
            format!("{max} / 2 + 1")
        };
        v.push(EClass {
            name: s(t),
            ty: s(t),
            top: format!("{{v}} as {t}"),
            digest,
            sites: [max.to_string(), second, third],
            loop_sites: [format!("1 << ({{k}} % {b})"), format!("!0 >> ({{k}} % {b})")],
            literal_only: true,
        });
    }
    let mut add = |name: &str, ty: &str, top: &str, digest: &str, sites: [&str; 3], loop_sites: [&str; 2], literal_only: bool| {
        v.push(EClass {
            name: s(name),
            ty: s(ty),
            top: s(top),
            digest: s(digest),
            sites: sites.map(s),
            loop_sites: loop_sites.map(s),
            literal_only,
        })
    };
    let vec_digest = "{a}.iter().fold({a}.len() as i64, |h, v| h.wrapping_mul(31).wrapping_add(*v as i64))";
    add("f32", "f32", "{v} as f32 + 0.25", "{a}.to_bits() as i64", [F32_DOUBLE_ROUNDING, "16777216.0 + 1.0 + 1.0", "0.1 + 0.2"], ["1.0 / 3.0", "3.4028235e38"], true);
    add("f64", "f64", "{v} as f64 + 0.25", "{a}.to_bits() as i64", ["0.1", "1.7976931348623157e308", "5e-324 + 1e-320"], ["1.0 / 3.0", "1e16 + 1.0"], true);
    add(
        "tuple",
        "(u64, f32)",
        "({v} as u64, 0.5)",
        "({a}.0 as i64) ^ ({a}.1.to_bits() as i64)",
        ["(18446744073709551615, 0.1)", "(0x8000_0000 + 0x8000_0000, 16777216.0 + 1.0 + 1.0)", "(!0 >> 1, 1.000000298023223876953125000001)"],
        ["(1 << ({k} % 64), 0.5)", "(!0 >> ({k} % 64), 1.0 / 3.0)"],
        true,
    );
    add(
        "option",
        "Option<u64>",
        "Some({v} as u64)",
        "{a}.map_or(-1, |v| v as i64)",
        ["None", "Some(0x8000_0000 + 0x8000_0000)", "Some(!0 >> 1)"],
        ["Some(1 << ({k} % 64))", "None"],
        true,
    );
    add(
        "slice",
        "&[u64]",
        "&[{v} as u64, 1]",
        vec_digest,
        ["&[]", "&[0x8000_0000 + 0x8000_0000, 2]", "&[18446744073709551615]"],
        ["&[1 << ({k} % 64), 3]", "&[!0 >> ({k} % 64)]"],
        true,
    );
    add(
        "vecnew",
        "Vec<u64>",
        "vec![{v} as u64; 2]",
        vec_digest,
        ["Vec::new()", "vec![]", "vec![0x8000_0000 + 0x8000_0000, 5]"],
        ["vec![1 << ({k} % 64); 2]", "Vec::with_capacity(4)"],
        false,
    );
    add(
        "default",
        "(u16, bool)",
        "({v} as u16, true)",
        "({a}.0 as i64) * 2 + {a}.1 as i64",
        ["Default::default()", "(Default::default(), true)", "(65535, Default::default())"],
        ["({k} as u16, Default::default())", "Default::default()"],
        false,
    );
    add("into", "u64", "{v} as u64", "{a} as i64", ["7u8.into()", "300u16.into()", "true.into()"], ["{k}.into()", "'x'.into()"], false);
    add(
        "parse",
        "u16",
        "{v} as u16",
        "{a} as i64",
        ["\"65535\".parse().unwrap()", "\"12\".parse().unwrap_or(3)", "\"x\".parse().unwrap_or_default()"],
        ["{k}.to_string().parse().unwrap()", "\"7\".parse().unwrap()"],
        false,
    );
    add(
        "collect",
        "Vec<i64>",
        "vec![{v}; 2]",
        vec_digest,
        ["(0..3).collect()", "[4, 5].iter().map(|x| x * 2).collect()", "std::iter::repeat(0x8000_0000 + 0x8000_0000).take(2).collect()"],
        ["(0..{k} % 4).map(|x| x.into()).collect()", "Some(9).into_iter().collect()"],
        false,
    );
    add(
        "fold",
        "i64",
        "{v}",
        "{a}",
        ["[1, 2, 3].iter().sum()", "(1..5).product()", "[3, 9].into_iter().max().unwrap()"],
        ["(0..{k}).map(|x| x as i64).sum()", "[0x8000_0000 + 0x8000_0000, 1].into_iter().min().unwrap()"],
        false,
    );
    add(
        "string",
        "String",
        "\"ab\".repeat({v} as usize % 5)",
        "{a}.bytes().fold({a}.len() as i64, |h, v| h.wrapping_mul(31).wrapping_add(v as i64))",
        ["\"ab\".into()", "Default::default()", "['a', 'b'].iter().collect()"],
        ["{k}.to_string().chars().rev().collect()", "String::new()"],
        false,
    );
    add(
        "closure_fn",
        "fn(i64) -> i64",
        "if {v} % 2 == 0 { |x| x + 1 } else { |x| x - 1 }",
        "{a}(10)",
        ["|x| x + 1", "|x| x * 2 - 3", "i64::abs"],
        ["|x| x ^ 5", "|x| -x"],
        false,
    );
    add(
        "closure_dyn",
        "&dyn Fn(i64) -> i64",
        "&|x| x + {v}",
        "{a}(10)",
        ["&|x| x + 1", "&|x| x.wrapping_mul(key)", "&move |x| x - (key & 7)"],
        ["&|x| x + {k} as i64", "&|x| x"],
        false,
    );
    v
}

pub fn eclasses() -> &'static [EClass] {
    static ALL: std::sync::OnceLock<Vec<EClass>> = std::sync::OnceLock::new();
    ALL.get_or_init(build_eclasses)
}
pub fn eclass(name: &str) -> EClass {
    eclasses().iter().find(|c| c.name == name).unwrap_or_else(|| panic!("unknown expression class {name}")).clone()
}

/// The expected-type family (body template 'E').  For every capture pattern and every argument count, class
/// vectors by rotation: argument p gets class (p + r) mod (number of classes).  Quick: two rotations per cell
/// (r = index of the capture pattern, and half the class list further) with complementary (return type, call
/// syntax) combinations, so that over the capture patterns every class occurs at every argument position of
/// every argument count; thorough: every rotation, the combination rotating.
pub fn enumerate_expected(thorough: bool) -> Vec<Shape> {
    let names: Vec<String> = eclasses().iter().map(|c| c.name.clone()).collect();
    let nc = names.len();
    let mut v = vec![];
    for (q, caps) in capture_patterns().into_iter().enumerate() {
        for nargs in 1..=4usize {
            let mut push = |r: usize, combo: usize| {
                let (ret, trailing) = COMBOS[combo % 4];
                let exprs = (0..nargs).map(|p| names[(p + r) % nc].clone()).collect();
                v.push(Shape { caps: caps.clone(), nargs, ret, trailing, body: 'E', exprs, ..Shape::default() });
            };
            if thorough {
                (0..nc).for_each(|r| push(r, q + nargs + r));
            } else {
                push(q % nc, q + nargs);
                push((q + nc / 2) % nc, q + nargs + 3);
            }
        }
    }
    v
}

/// A class of argument expressions that create TEMPORARIES WITH DESTRUCTORS (body template 'G').  In the
/// hand-written `hand(<expression>, …)` a temporary created while an argument is evaluated lives until the end
/// of the enclosing statement, i.e. through the whole recursive call; what the callee finds on entry (guards
/// alive, a RefCell borrowed, a Mutex held) and whether a reference into the temporary may be passed at all
/// depend on it.  Placeholders: `{k}` the tag of the (call site, argument position) — noted in the journal
/// when the expression is evaluated, so the ORDER of evaluation of the arguments shows as well —, `{x}` an i64
/// expression, `{m}` the index of a mutex that no other live expression uses.
#[derive(Clone, Debug)]
pub struct TClass {
    pub name: &'static str,
    /// the parameter's type
    pub ty: &'static str,
    /// a value for the driver's call, from the i64 expression `{v}`
    pub top: &'static str,
    /// an i64 computed from the argument `{a}`
    pub digest: &'static str,
    /// the argument at the even / odd recursive-call sites
    pub exprs: [&'static str; 2],
    /// what the temporary is and how the callee can tell that it is alive
    pub what: &'static str,
}

const STR_DIGEST: &str = "{a}.bytes().fold({a}.len() as i64, |h, v| h.wrapping_mul(31).wrapping_add(v as i64))";
const SLICE_DIGEST: &str = "{a}.iter().fold({a}.len() as i64, |h, v| h.wrapping_mul(31).wrapping_add(*v))";

static TCLASSES: &[TClass] = &[
    TClass {
        name: "plain",
        ty: "i64",
        top: "{v}",
        digest: "{a}",
        exprs: ["super::mark({k}, {x})", "super::mark({k}, {x}) ^ 1"],
        what: "no temporary with a destructor: a by-value expression whose evaluation is noted in the journal (evaluation order of the arguments)",
    },
    TClass {
        name: "guard",
        ty: "i64",
        top: "{v}",
        digest: "{a}",
        exprs: ["super::Guard::enter({k}, {x}).pass()", "super::Guard::enter({k}, {x}).pass().wrapping_add(super::Guard::enter({k} + 500, 2).pass())"],
        what: "a guard object (creation and destruction noted in the journal, the number of live guards kept) whose method result is passed by value; at odd sites two guards in one argument",
    },
    TClass {
        name: "guard_ref",
        ty: "&i64",
        top: "&({v})",
        digest: "*{a}",
        exprs: ["super::Guard::enter({k}, {x}).slot_ref()", "&super::Guard::enter({k}, {x}).slot"],
        what: "a REFERENCE into a temporary guard object: through a method, and to a field",
    },
    TClass {
        name: "refcell",
        ty: "i64",
        top: "{v}",
        digest: "{a}",
        exprs: ["({x}).wrapping_add(*super::memo({k}).borrow().last().unwrap())", "super::memo({k}).borrow().iter().sum::<i64>() ^ ({x})"],
        what: "a shared borrow (`Ref`) of a RefCell, dereferenced and passed by value; the callee sees whether the cell can be borrowed mutably",
    },
    TClass {
        name: "mutex",
        ty: "i64",
        top: "{v}",
        digest: "{a}",
        exprs: ["({x}) ^ *super::lock({k}, {m}).lock().unwrap_or_else(|e| e.into_inner())", "super::lock({k}, {m}).lock().as_deref().map_or(-1, |g| *g).wrapping_add({x})"],
        what: "a MutexGuard dereferenced and passed by value (a mutex of its own per depth, site and position: none is locked twice); the callee sees how many mutexes are held",
    },
    TClass {
        name: "string_ref",
        ty: "&str",
        top: "({v}).to_string().as_str()",
        digest: STR_DIGEST,
        exprs: ["super::mark({k}, {x}).to_string().as_str()", "&super::text({k}, {x})[1..]"],
        what: "a reference into a temporary String: `.to_string().as_str()` and a sub-slice of a String returned by a call",
    },
    TClass {
        name: "vec_slice",
        ty: "&[i64]",
        top: "&[{v}, 1]",
        digest: SLICE_DIGEST,
        exprs: ["&vec![super::mark({k}, {x}), 4, 9][1..]", "vec![super::mark({k}, {x}); 2].as_slice()"],
        what: "a reference into a temporary Vec: `&vec![..][1..]` and `.as_slice()`",
    },
    TClass {
        name: "block",
        ty: "i64",
        top: "{v}",
        digest: "{a}",
        exprs: ["{ let g = super::Guard::enter({k}, {x}); let t = g.pass(); t.wrapping_add(1) }", "{ let u = {x}; super::Guard::enter({k}, u).pass() }"],
        what: "a block expression creating locals: a guard that is a local of the block (gone when the block ends), and a guard that is a temporary of the block's tail expression (alive until the enclosing statement ends)",
    },
];

pub fn tclasses() -> &'static [TClass] {
    TCLASSES
}
pub fn tclass(name: &str) -> &'static TClass {
    TCLASSES.iter().find(|c| c.name == name).unwrap_or_else(|| panic!("unknown temporary class {name}"))
}

/// The temporaries family (body template 'G'), enumerated like the expected-type family: for every capture
/// pattern and every argument count class vectors by rotation (argument p gets class (p + r) mod number of
/// classes).  Quick: one rotation per cell, r = index q of the capture pattern, so that over the capture patterns
/// every class occurs at every argument position of every argument count; the (return type, call syntax)
/// combination moves on with q and once more with every full turn of the rotation, so that the shapes that share
/// a (argument count, position, class) cell differ in it.  Thorough: every rotation.
pub fn enumerate_temporaries(thorough: bool) -> Vec<Shape> {
    let names: Vec<String> = TCLASSES.iter().map(|c| c.name.to_string()).collect();
    let nc = names.len();
    let mut v = vec![];
    for (q, caps) in capture_patterns().into_iter().enumerate() {
        for nargs in 1..=4usize {
            let mut push = |r: usize, combo: usize| {
                let (ret, trailing) = COMBOS[combo % 4];
                let temps = (0..nargs).map(|p| names[(p + r) % nc].clone()).collect();
                v.push(Shape { caps: caps.clone(), nargs, ret, trailing, body: 'G', temps, ..Shape::default() });
            };
            if thorough {
                (0..nc).for_each(|r| push(r, q + nargs + r));
            } else {
                push(q % nc, q + q / nc + nargs);
            }
        }
    }
    v
}

/// Items next to the shape modules that the temporaries family uses: the journal (per thread) of what the
/// argument expressions created, evaluated and destroyed, the guard object, a RefCell and mutexes to borrow / lock.
const JOURNAL_ITEMS: &str = r#"thread_local! {
    /// (guards alive, order-sensitive digest of the events so far)
    static JOURNAL: std::cell::Cell<(i64, i64)> = const { std::cell::Cell::new((0, 0)) };
    static MEMO: &'static std::cell::RefCell<Vec<i64>> = Box::leak(Box::new(std::cell::RefCell::new(vec![3, 5])));
}
fn note(alive: i64, event: i64) {
    JOURNAL.with(|j| {
        let (a, d) = j.get();
        j.set((a + alive, d.wrapping_mul(31).wrapping_add(event)));
    });
}
/// An argument expression without a temporary: its evaluation is an event.
pub fn mark(k: i64, x: i64) -> i64 {
    note(0, k);
    x
}
/// A String returned by a call (the caller borrows from the temporary).
pub fn text(k: i64, x: i64) -> String {
    note(0, k);
    format!("t{x}")
}
/// Creation and destruction are events; `slot` is data that the guard owns.
pub struct Guard {
    k: i64,
    pub slot: i64,
}
impl Guard {
    pub fn enter(k: i64, x: i64) -> Guard {
        note(1, k);
        Guard { k, slot: x }
    }
    pub fn pass(&self) -> i64 {
        self.slot
    }
    pub fn slot_ref(&self) -> &i64 {
        &self.slot
    }
}
impl Drop for Guard {
    fn drop(&mut self) {
        note(-1, -1000 - self.k);
    }
}
/// The RefCell of this thread (borrowing it is an event).
pub fn memo(k: i64) -> &'static std::cell::RefCell<Vec<i64>> {
    note(0, k);
    MEMO.with(|m| *m)
}
const FREE: std::sync::Mutex<i64> = std::sync::Mutex::new(7);
static LOCKS: [std::sync::Mutex<i64>; 64] = [FREE; 64];
pub fn lock(k: i64, m: usize) -> &'static std::sync::Mutex<i64> {
    note(0, k);
    &LOCKS[m % 64]
}
/// What the journal says right now: the guards alive, the events so far in their order, whether the RefCell is
/// borrowed, how many mutexes are held.
fn journal_parts() -> (i64, i64, i64, i64) {
    let (alive, digest) = JOURNAL.with(|j| j.get());
    let borrowed = MEMO.with(|m| m.try_borrow_mut().is_err()) as i64;
    let held = LOCKS.iter().filter(|l| matches!(l.try_lock(), Err(std::sync::TryLockError::WouldBlock))).count() as i64;
    (alive, digest, borrowed, held)
}
pub fn journal() -> i64 {
    let (alive, digest, borrowed, held) = journal_parts();
    alive.wrapping_mul(1_000_003).wrapping_add(digest) ^ (borrowed << 40) ^ (held << 44)
}
static ENTRIES: [AtomicU64; 3] = [AtomicU64::new(0), AtomicU64::new(0), AtomicU64::new(0)];
/// `journal()` for an activation that has just been entered; counts the entries that found a guard alive, the
/// RefCell borrowed, a mutex held (the engine demands that each of them happened).
pub fn on_entry() -> i64 {
    let (alive, _, borrowed, held) = journal_parts();
    for (slot, yes) in ENTRIES.iter().zip([alive > 0, borrowed > 0, held > 0]) {
        slot.fetch_add(yes as u64, Ordering::Relaxed);
    }
    journal()
}
pub fn entries() -> (u64, u64, u64) {
    (ENTRIES[0].load(Ordering::Relaxed), ENTRIES[1].load(Ordering::Relaxed), ENTRIES[2].load(Ordering::Relaxed))
}
/// Every driver run starts from an empty journal.
pub fn reset_journal() {
    JOURNAL.with(|j| j.set((0, 0)));
}
"#;

/// Naming schemes of a cell that do not depend on a position.
pub fn plain_namings() -> Vec<String> {
    let mut v: Vec<String> = ["rec:local", "rec:loopvar", "rec:binding"].iter().map(|s| s.to_string()).collect();
    v.extend(STD_NAMES.iter().map(|n| format!("rec:std.{n}")));
    v.extend(["rec:hidden", "local:hidden", "loopvar:hidden", "binding:hidden", "meta"].iter().map(|s| s.to_string()));
    v
}

/// The identifier-collision family (body template 'N').  Per capture pattern (c captures) and argument count n
/// the schemes are: the recursion named like argument k (n), like capture p (c), an argument carrying the
/// hidden helper's name (n), and the position-independent ones of `plain_namings`.  Thorough: all of them, the
/// (return type, call syntax) combination rotating.  Quick: four per cell — one `rec:arg`, one `rec:cap` (or a
/// second plain one when there is no capture), one `arg:hidden` and one plain scheme, all rotating with the
/// capture pattern and the argument count, so that over the cells every argument position, every position of
/// every capture pattern and every plain scheme occurs.
/// (A CAPTURE carrying the hidden name is not generated: an item declared in a block shadows the enclosing
/// function's variables inside that block, so `&_lambda_name_` in the macro's outer closure names the helper
/// fn, not the user's variable — the hidden name is reserved for captures by construction of the macro.)
pub fn enumerate_named(thorough: bool) -> Vec<Shape> {
    let plain = plain_namings();
    let mut v = vec![];
    for (q, caps) in capture_patterns().into_iter().enumerate() {
        let c = caps.len();
        for nargs in 1..=4usize {
            let mut schemes: Vec<String> = vec![];
            if thorough {
                schemes.extend((1..=nargs).map(|k| format!("rec:arg{k}")));
                schemes.extend((0..c).map(|p| format!("rec:cap{p}")));
                schemes.extend((1..=nargs).map(|k| format!("arg{k}:hidden")));
                schemes.extend(plain.iter().cloned());
            } else {
                let cell = q * 4 + nargs - 1;
                schemes.push(format!("rec:arg{}", (q + nargs) % nargs + 1));
                if c > 0 {
                    schemes.push(format!("rec:cap{}", (q + nargs) % c));
                } else {
                    schemes.push(plain[(cell + plain.len() / 2) % plain.len()].clone());
                }
                schemes.push(format!("arg{}:hidden", (q / 2 + nargs) % nargs + 1));
                schemes.push(plain[cell % plain.len()].clone());
            }
            for (j, naming) in schemes.into_iter().enumerate() {
                let (ret, trailing) = COMBOS[(q + nargs + j) % 4];
                v.push(Shape { caps: caps.clone(), nargs, ret, trailing, body: 'N', naming, ..Shape::default() });
            }
        }
    }
    v
}

/// A class of DECLARED CAPTURE TYPES (body template 'K'): the type written after `&` / `&mut` in the capture
/// list, which the hand-written fn takes as the type of the corresponding parameter.  Placeholders in the texts:
/// `{n}` the capture's name, `{p}` its written position, `{e}` an i64 expression, `{acc}` the body's accumulator.
#[derive(Clone, Debug)]
pub struct CClass {
    pub name: &'static str,
    /// the kind of capture the class is for: true = `&mut`, false = `&`
    pub mutable: bool,
    /// what the class stands for: plain data, generic container, unsized (slice / str), `impl Trait`, `dyn Trait`,
    /// references / lifetimes inside the type, tuple / array / fn pointer, not Send / Sync, `Box<dyn FnMut>`,
    /// another recursive lambda
    pub group: &'static str,
    /// the declared type (without the reference)
    pub ty: &'static str,
    /// statements of the driver that declare the captured variable `{n}` and what it refers to
    pub setup: &'static str,
    /// the same for the hand-written version where it differs (a captured lambda becomes a closure around a fn)
    pub setup_hand: &'static str,
    /// items next to the hand-written fn that `setup_hand` needs
    pub items: &'static str,
    /// the use in the body: for a shared capture an i64 expression (over `key`), for a mutable one statements
    /// that change what the capture refers to with the value `{e}` (and may add to `{acc}`)
    pub uses: &'static str,
    /// the expression the driver renders after the last call ("" = the capture holds nothing that can change)
    pub show: &'static str,
    /// a shared capture that is mutated through (Cell, RefCell): state is observable without `&mut`
    pub interior: bool,
}

const fn cc(name: &'static str, mutable: bool, group: &'static str, ty: &'static str, setup: &'static str, uses: &'static str, show: &'static str) -> CClass {
    CClass { name, mutable, group, ty, setup, setup_hand: "", items: "", uses, show, interior: false }
}

const FN_CLOSURE: &str = "let base{p}: Vec<i64> = vec![{p} + 2, 11, 5];\nlet {n} = |x: i64| base{p}[x.rem_euclid(3) as usize].wrapping_add(x);";
const SLICE_USE: &str = "{n}[key.rem_euclid({n}.len() as i64) as usize]";
const STR_USE: &str = "({n}.len() as i64) ^ ({n}.as_bytes()[0] as i64)";
const ITER_USE: &str = "{acc} = {acc}.wrapping_add({n}.next().unwrap_or(-1));";
const MAP: &str = "std::collections::BTreeMap<i64, Vec<i64>>";

/// The classes for shared captures, then those for mutable ones.
static CCLASSES: &[CClass] = &[
    // ---- shared ----
    cc("i64", false, "plain", "i64", "let {n}: i64 = 100 + 7 * {p};", "*{n}", "&{n}"),
    cc("string", false, "plain", "String", "let {n}: String = \"ab\".repeat({p} + 1);", STR_USE, "&{n}"),
    cc("tuple", false, "tuple_array_fnptr", "(i64, u8)", "let {n}: (i64, u8) = (50 + {p}, 7);", "{n}.0.wrapping_add({n}.1 as i64)", "&{n}"),
    cc("array", false, "tuple_array_fnptr", "[i64; 3]", "let {n}: [i64; 3] = [{p}, 4, 9];", "{n}[key.rem_euclid(3) as usize]", "&{n}"),
    cc("fnptr", false, "tuple_array_fnptr", "fn(i64) -> i64", "let {n}: fn(i64) -> i64 = i64::wrapping_neg;", "{n}(key)", ""),
    cc("vecvec", false, "container", "Vec<Vec<i64>>", "let {n}: Vec<Vec<i64>> = vec![vec![{p}, 2], vec![3]];", "{n}[key.rem_euclid(2) as usize][0]", "&{n}"),
    cc("map", false, "container", MAP, "let {n}: std::collections::BTreeMap<i64, Vec<i64>> = (0..3).map(|k| (k, vec![k + {p}, 1])).collect();", "{n}.get(&key.rem_euclid(4)).map_or(-1, |v| v[0])", "&{n}"),
    cc("optbox", false, "container", "Option<Box<i64>>", "let {n}: Option<Box<i64>> = Some(Box::new(40 + {p}));", "{n}.as_deref().copied().unwrap_or(-5)", "&{n}"),
    cc("slice", false, "unsized", "[i64]", "let {n}: Vec<i64> = vec![{p} + 1, 2 * {p} + 3, 5];", SLICE_USE, "&{n}"),
    cc("slice_ref", false, "unsized", "[i64]", "let back{p}: Vec<i64> = vec![9, {p} + 1, 7, 5];\nlet {n}: &[i64] = &back{p}[1..];", SLICE_USE, "&{n}"),
    cc("str", false, "unsized", "str", "let {n}: String = \"xyz\".repeat({p} + 1);", STR_USE, "&{n}"),
    cc("str_lit", false, "unsized", "str", "let {n}: &'static str = \"hello\";", STR_USE, "&{n}"),
    cc("impl_fn", false, "impl_trait", "impl Fn(i64) -> i64", FN_CLOSURE, "{n}(key)", ""),
    cc(
        "impl_fn2",
        false,
        "impl_trait",
        "impl Fn(usize, usize) -> u64",
        "let pref{p}: Vec<u64> = vec![0, 3, 4, 8, 9 + {p}];\nlet {n} = |l: usize, r: usize| pref{p}[r] - pref{p}[l];",
        "{n}(key.rem_euclid(2) as usize, 2 + key.rem_euclid(3) as usize) as i64",
        "",
    ),
    cc(
        "impl_display",
        false,
        "impl_trait",
        "impl std::fmt::Display",
        "let {n}: i64 = 12345 + {p};",
        "format!(\"{}\", {n}).bytes().fold(0i64, |h, b| h.wrapping_mul(31).wrapping_add(b as i64))",
        "&{n}",
    ),
    cc("impl_asref", false, "impl_trait", "impl AsRef<[i64]>", "let {n}: Vec<i64> = vec![{p} + 4, 6];", "{n}.as_ref()[key.rem_euclid(2) as usize]", "&{n}"),
    cc("dyn_fn", false, "dyn_trait", "dyn Fn(i64) -> i64", FN_CLOSURE, "{n}(key)", ""),
    cc(
        "dyn_fn_boxed",
        false,
        "dyn_trait",
        "dyn Fn(i64) -> i64",
        "let {n}: Box<dyn Fn(i64) -> i64> = Box::new(move |x: i64| x.wrapping_mul(3).wrapping_add({p}));",
        "{n}(key)",
        "",
    ),
    cc("dyn_debug", false, "dyn_trait", "dyn std::fmt::Debug", "let {n}: (i64, &str) = ({p}, \"q\");", "format!(\"{:?}\", {n}).len() as i64", "&{n}"),
    cc(
        "vec_str",
        false,
        "lifetimes",
        "Vec<&str>",
        "let text{p}: String = \"ab cde f\".to_string();\nlet {n}: Vec<&str> = text{p}.split(' ').collect();",
        "{n}[key.rem_euclid(3) as usize].len() as i64",
        "&{n}",
    ),
    cc("slice_static_str", false, "lifetimes", "[&'static str]", "let {n}: [&'static str; 2] = [\"a\", \"bcd\"];", "{n}[key.rem_euclid(2) as usize].len() as i64", "&{n}"),
    cc("opt_ref", false, "lifetimes", "Option<&i64>", "let back{p}: i64 = 77 + {p};\nlet {n}: Option<&i64> = Some(&back{p});", "{n}.copied().unwrap_or(0)", "&{n}"),
    cc(
        "tuple_refs",
        false,
        "lifetimes",
        "(&str, &[i64])",
        "let back{p}: Vec<i64> = vec![{p}, 6];\nlet {n}: (&str, &[i64]) = (\"pq\", &back{p});",
        "({n}.0.len() as i64).wrapping_add({n}.1[0])",
        "&{n}",
    ),
    cc(
        "rc",
        false,
        "not_send_sync",
        "std::rc::Rc<Vec<i64>>",
        "let {n}: std::rc::Rc<Vec<i64>> = std::rc::Rc::new(vec![{p}, 8]);",
        "{n}[key.rem_euclid(2) as usize].wrapping_add(std::rc::Rc::strong_count({n}) as i64)",
        "&{n}",
    ),
    CClass {
        interior: true,
        ..cc(
            "cell",
            false,
            "not_send_sync",
            "std::cell::Cell<i64>",
            "let {n}: std::cell::Cell<i64> = std::cell::Cell::new({p});",
            "{ {n}.set({n}.get().wrapping_mul(3).wrapping_add(key)); {n}.get() }",
            "{n}.get()",
        )
    },
    CClass {
        interior: true,
        ..cc(
            "refcell",
            false,
            "not_send_sync",
            "std::cell::RefCell<Vec<i64>>",
            "let {n}: std::cell::RefCell<Vec<i64>> = std::cell::RefCell::new(vec![{p}]);",
            "{ {n}.borrow_mut().push(key); {n}.borrow().len() as i64 }",
            "&{n}",
        )
    },
    // re-entrant use: the capture is itself a recursive lambda (the hand-written version captures a closure around a fn)
    CClass {
        setup_hand: "let tab{p}: Vec<i64> = vec![{p} + 1, 4, 6];\nlet {n} = |b1: i64| inner_shared(b1, &tab{p});",
        items: "fn inner_shared(b1: i64, tab: &Vec<i64>) -> i64 {\n    if b1 <= 0 {\n        return tab[0];\n    }\n    inner_shared(b1 - 1, tab).wrapping_mul(3).wrapping_add(tab[b1 as usize % 3])\n}\n",
        ..cc(
            "lambda",
            false,
            "lambda",
            "impl Fn(i64) -> i64",
            "let tab{p}: Vec<i64> = vec![{p} + 1, 4, 6];\nlet {n} = rec_lambda!(g, |tab{p}: &Vec<i64>| {\n    |b1: i64| -> i64 {\n        if b1 <= 0 {\n            return tab{p}[0];\n        }\n        g!(b1 - 1).wrapping_mul(3).wrapping_add(tab{p}[b1 as usize % 3])\n    }\n});",
            "{n}(key.rem_euclid(4))",
            "",
        )
    },
    // ---- mutable ----
    cc("vec", true, "container", "Vec<i64>", "let mut {n}: Vec<i64> = vec![1000 + {p}];", "{n}.push(({e}).wrapping_add({p}));", "&{n}"),
    cc("i64", true, "plain", "i64", "let mut {n}: i64 = 10 * {p} + 1;", "*{n} = {n}.wrapping_mul(5).wrapping_add({e}).wrapping_add({p});", "&{n}"),
    cc("string", true, "plain", "String", "let mut {n}: String = String::from(\"s\");", "{n}.push(char::from(b'a' + ({e}).rem_euclid(26) as u8));", "&{n}"),
    cc(
        "tuple",
        true,
        "tuple_array_fnptr",
        "(i64, Vec<u8>)",
        "let mut {n}: (i64, Vec<u8>) = ({p}, vec![]);",
        "{n}.0 = {n}.0.wrapping_mul(7).wrapping_add({e});\n{n}.1.push(({e}) as u8);",
        "&{n}",
    ),
    cc("array", true, "tuple_array_fnptr", "[i64; 4]", "let mut {n}: [i64; 4] = [{p}; 4];", "{n}[({e}).rem_euclid(4) as usize] ^= ({e}).wrapping_add(1);\n{n}.rotate_left(1);", "&{n}"),
    // a fn pointer that is replaced, next to the value it has been applied to so far
    cc(
        "fnptr",
        true,
        "tuple_array_fnptr",
        "(fn(i64) -> i64, i64)",
        "let mut {n}: (fn(i64) -> i64, i64) = (i64::wrapping_neg, {p});",
        "{n}.1 = ({n}.0)({n}.1).wrapping_mul(3).wrapping_add({e});\n{n}.0 = if ({e}) % 2 == 0 { i64::wrapping_abs } else { i64::wrapping_neg };",
        "(({n}.0)(5), {n}.1)",
    ),
    cc("map", true, "container", MAP, "let mut {n}: std::collections::BTreeMap<i64, Vec<i64>> = Default::default();", "{n}.entry(({e}).rem_euclid(3)).or_default().push({e});", "&{n}"),
    cc(
        "slice",
        true,
        "unsized",
        "[i64]",
        "let mut {n}: Vec<i64> = vec![{p}, 1, 2];",
        "{n}[({e}).rem_euclid(3) as usize] = ({e}).wrapping_add({n}[0]);\n{n}.swap(0, 2);",
        "&{n}",
    ),
    cc(
        "str",
        true,
        "unsized",
        "str",
        "let mut {n}: String = String::from(\"aBcdEfgh\");",
        "let at = ({e}).rem_euclid(8) as usize;\nif {n}.as_bytes()[at].is_ascii_uppercase() {\n    {n}[at..at + 1].make_ascii_lowercase();\n} else {\n    {n}[at..at + 1].make_ascii_uppercase();\n}",
        "&{n}",
    ),
    cc(
        "impl_fnmut",
        true,
        "impl_trait",
        "impl FnMut(i64, i64)",
        "let mut log{p}: Vec<(i64, i64)> = vec![];\nlet mut {n} = |a: i64, b: i64| log{p}.push((a, b));",
        "{n}(a1, {e});",
        "&log{p}",
    ),
    cc("impl_iter", true, "impl_trait", "impl Iterator<Item = i64>", "let mut {n} = (0i64..).map(|x| x * x + {p});", ITER_USE, "{n}.next()"),
    cc(
        "impl_write",
        true,
        "impl_trait",
        "impl std::fmt::Write",
        "let mut {n}: String = String::new();",
        "std::fmt::Write::write_fmt({n}, format_args!(\"{},\", ({e}) & 7)).unwrap();",
        "&{n}",
    ),
    cc("dyn_fnmut", true, "dyn_trait", "dyn FnMut(i64)", "let mut log{p}: Vec<i64> = vec![];\nlet mut {n} = |a: i64| log{p}.push(a);", "{n}({e});", "&log{p}"),
    cc("dyn_iter", true, "dyn_trait", "dyn Iterator<Item = i64>", "let mut {n} = (0i64..).step_by({p} + 2);", ITER_USE, "{n}.next()"),
    cc(
        "box_dyn_fnmut",
        true,
        "box_dyn",
        "Box<dyn FnMut(i64) -> i64>",
        "let mut {n}: Box<dyn FnMut(i64) -> i64> = {\n    let mut total: i64 = {p};\n    Box::new(move |x: i64| {\n        total = total.wrapping_mul(3).wrapping_add(x);\n        total\n    })\n};",
        "{acc} = {acc}.wrapping_add({n}({e}));",
        "{n}(0)",
    ),
    cc("vec_str", true, "lifetimes", "Vec<&str>", "let mut {n}: Vec<&str> = vec![\"s\"];", "{n}.push(if ({e}) % 2 == 0 { \"ev\" } else { \"odd\" });", "&{n}"),
    cc("opt_str", true, "lifetimes", "Option<&str>", "let mut {n}: Option<&str> = None;", "*{n} = [None, Some(\"k\"), Some(\"kk\"), Some(\"l\"), {n}.map(|s| &s[..1])][({e}).rem_euclid(5) as usize];", "&{n}"),
    cc(
        "rc",
        true,
        "not_send_sync",
        "std::rc::Rc<Vec<i64>>",
        "let mut {n}: std::rc::Rc<Vec<i64>> = std::rc::Rc::new(vec![{p}]);",
        "std::rc::Rc::make_mut({n}).push({e});",
        "&{n}",
    ),
    cc(
        "refcell",
        true,
        "not_send_sync",
        "std::cell::RefCell<Vec<i64>>",
        "let mut {n}: std::cell::RefCell<Vec<i64>> = std::cell::RefCell::new(vec![{p}]);",
        "{n}.get_mut().push({e});",
        "&{n}",
    ),
    CClass {
        setup_hand: "let mut ilog{p}: Vec<i64> = vec![{p}];\nlet mut {n} = |b1: i64| inner_mut(b1, &mut ilog{p});",
        items: "fn inner_mut(b1: i64, ilog: &mut Vec<i64>) -> i64 {\n    ilog.push(b1);\n    if b1 <= 0 {\n        return 1;\n    }\n    let t = inner_mut(b1 - 1, ilog);\n    ilog.push(t);\n    t.wrapping_mul(3).wrapping_add(b1)\n}\n",
        ..cc(
            "lambda",
            true,
            "lambda",
            "impl FnMut(i64) -> i64",
            "let mut ilog{p}: Vec<i64> = vec![{p}];\nlet mut {n} = rec_lambda!(g, |ilog{p}: &mut Vec<i64>| {\n    |b1: i64| -> i64 {\n        ilog{p}.push(b1);\n        if b1 <= 0 {\n            return 1;\n        }\n        let t = g!(b1 - 1);\n        ilog{p}.push(t);\n        t.wrapping_mul(3).wrapping_add(b1)\n    }\n});",
            "{acc} = {acc}.wrapping_add({n}(({e}).rem_euclid(4)));",
            "&ilog{p}",
        )
    },
];

pub fn cclasses(mutable: bool) -> Vec<&'static CClass> {
    CCLASSES.iter().filter(|c| c.mutable == mutable).collect()
}
pub fn cclass(mutable: bool, name: &str) -> &'static CClass {
    CCLASSES.iter().find(|c| c.mutable == mutable && c.name == name).unwrap_or_else(|| panic!("unknown capture-type class {name}"))
}
/// The groups of capture-type classes (for the evidence).
pub fn cclass_groups() -> Vec<&'static str> {
    let mut v: Vec<&'static str> = vec![];
    for c in CCLASSES {
        if !v.contains(&c.group) {
            v.push(c.group);
        }
    }
    v
}

/// How many class vectors per capture pattern the quick tier emits: enough for the 8 patterns that have a given
/// kind at the last of four positions to go through all classes of that kind.
pub fn captype_vectors_per_pattern_quick() -> usize {
    let most = cclasses(false).len().max(cclasses(true).len());
    (most + 7) / 8
}

/// The capture-type family (body template 'K'): for every capture pattern with at least one capture, vectors of
/// capture-type classes.  Thorough: vector j gives capture p class (p + j) of its kind's list, j over the longer
/// of the lists of the kinds in the pattern — every class of the right kind at every position of every pattern.  Quick: per pattern
/// `captype_vectors_per_pattern_quick()` vectors; position p takes the classes of its kind round-robin (one
/// counter per (position, kind) over the whole enumeration), so that every class occurs at every position index
/// for both kinds.  Argument count, return type and call syntax rotate.
pub fn enumerate_captyped(thorough: bool) -> Vec<Shape> {
    let lists = [cclasses(false), cclasses(true)];
    let mut next = [[0usize; 2]; 4];
    let mut v = vec![];
    for (q, caps) in capture_patterns().into_iter().enumerate() {
        if caps.is_empty() {
            continue;
        }
        // thorough: as many vectors as the longest class list among the kinds that occur in the pattern
        let per_pattern = if thorough { caps.iter().map(|&m| lists[m as usize].len()).max().unwrap_or(0) } else { captype_vectors_per_pattern_quick() };
        for j in 0..per_pattern {
            let captypes: Vec<String> = (0..caps.len())
                .map(|p| {
                    let kind = caps[p] as usize;
                    let list = &lists[kind];
                    let k = if thorough {
                        p + j
                    } else {
                        next[p][kind] += 1;
                        next[p][kind] - 1
                    };
                    list[k % list.len()].name.to_string()
                })
                .collect();
            let (ret, trailing) = COMBOS[(q + j) % 4];
            v.push(Shape { caps: caps.clone(), nargs: (q + j) % 4 + 1, ret, trailing, body: 'K', captypes, ..Shape::default() });
        }
    }
    v
}

/// Execution environments (body template 'X'): where and how the driver calls the closure.
///   deep          on a thread that was given BIG_STACK bytes of stack, recursing DEEP levels (after a shallow call)
///   threads_own   four threads at the same time, each with its own captured data and its own closure
///   threads_shared one closure with shared captures only, called by four threads at the same time through `&`
///   moved         created and called on one thread, then moved to another thread and called there
///   nested        every activation of the body creates and calls ANOTHER recursive lambda (over a local of the
///                 body and the outer lambda's shared captures) between its own recursive calls
pub const ENVS: [&str; 5] = ["deep", "threads_own", "threads_shared", "moved", "nested"];
pub const GRID_DEEP: usize = 5;
pub const GRID_ENV: usize = 6;
/// Stack of the thread that makes the deep calls, and the recursion depth: the hand-written fn must need well
/// over 256 MiB and well under BIG_STACK (the engine checks the measured figure).
pub const BIG_STACK: usize = 1 << 30;
pub const DEEP: i64 = 1_700_000;
pub const THREADS: usize = 4;

/// The execution-environment family: a handful of programs, the same in both tiers.
pub fn enumerate_env(_thorough: bool) -> Vec<Shape> {
    let mk = |env: &str, caps: &[bool], nargs: usize, ret: bool, trailing: bool| Shape { caps: caps.to_vec(), nargs, ret, trailing, body: 'X', env: env.to_string(), ..Shape::default() };
    vec![
        mk("deep", &[], 4, true, false),
        mk("deep", &[true, false, true], 3, false, true),
        mk("threads_own", &[false, true], 2, true, false),
        mk("threads_own", &[true, true, false], 4, false, true),
        mk("threads_shared", &[false], 1, true, false),
        mk("threads_shared", &[false, false], 3, true, true),
        mk("moved", &[true], 1, false, false),
        mk("moved", &[false, true, false], 2, true, true),
        mk("nested", &[false, true], 2, true, false),
        mk("nested", &[true, false, false], 3, false, true),
    ]
}

pub fn grid(thorough: bool, nargs: usize) -> Vec<Tuple> {
    if nargs == 0 {
        // template E: only the first component is used
        let a1: Vec<i64> = if thorough { vec![0, 1, 2, 3, 5, 6] } else { vec![0, 3, 6] };
        return a1.into_iter().map(|x| (x, 0, 0, false)).collect();
    }
    if nargs == GRID_DEEP {
        // a shallow tuple and the deep one
        return vec![(1500, -3, 9, true), (DEEP, 2, 0, false)];
    }
    if nargs == GRID_ENV {
        return vec![(3, -3, 9, true), (40, 2, 0, false), (700, 2, 9, true)];
    }
    let a1: Vec<i64> = if thorough { (0..=7).collect() } else { vec![0, 1, 2, 3, 4, 6] };
    let a2: Vec<i64> = if thorough { vec![-3, 0, 2] } else { vec![-3, 2] };
    let a3: Vec<u32> = if thorough { vec![0, 9, u32::MAX] } else { vec![0, 9] };
    let a4 = vec![false, true];
    let mut out = vec![];
    for &x1 in &a1 {
        for &x2 in if nargs >= 2 { &a2[..] } else { &[0i64][..] } {
            for &x3 in if nargs >= 3 { &a3[..] } else { &[0u32][..] } {
                for &x4 in if nargs >= 4 { &a4[..] } else { &[false][..] } {
                    out.push((x1, x2, x3, x4));
                }
            }
        }
    }
    out
}

pub fn tuple_text(t: &Tuple, nargs: usize) -> String {
    let all = [t.0.to_string(), t.1.to_string(), t.2.to_string(), t.3.to_string()];
    format!("({})", all[..nargs.clamp(1, 4)].join(","))
}

/// Argument expressions of the recursive-call sites (truncated to the shape's argument count).  The first
/// argument strictly decreases at every site, so the recursion is bounded.
fn site(n: usize, nargs: usize) -> Vec<String> {
    let args: Vec<String> = (1..=4).map(|k| format!("a{k}")).collect();
    site_named(n, nargs, &args, "i")
}

/// The same with the given argument names (a1..a4 replaced; unused ones may be missing) and loop variable.
fn site_named(n: usize, nargs: usize, args: &[String], loopvar: &str) -> Vec<String> {
    let s: [&str; 4] = match n {
        0 => ["a1 - 1", "a2.wrapping_add(1)", "a3.wrapping_add(1)", "!a4"],
        1 => ["a1 - 2", "a2.wrapping_mul(2)", "a3 ^ 5", "a4"],
        2 => ["a1 - 2", "a2.wrapping_sub(3)", "a3.wrapping_mul(3)", "!a4"],
        3 => ["a1 - 1", "a2 ^ 1", "a3 / 2", "a4"],
        4 => ["a1 - 3", "a2.wrapping_add(a1)", "a3 | 1", "a4 ^ (a1 == 3)"],
        // inside `for i in 0..2i64`
        5 => ["a1 - 1 - i", "a2.wrapping_add(i)", "a3.wrapping_add(i as u32)", "a4 ^ (i == 1)"],
        _ => unreachable!(),
    };
    // single pass over the text, so that a new name is never renamed again
    let rename = |text: &str| -> String {
        let b = text.as_bytes();
        let ident = |c: u8| c.is_ascii_alphanumeric() || c == b'_';
        let mut out = String::new();
        let mut i = 0;
        while i < b.len() {
            if ident(b[i]) && (i == 0 || !ident(b[i - 1])) {
                let j = (i..b.len()).find(|&j| !ident(b[j])).unwrap_or(b.len());
                let word = &text[i..j];
                let k = ["a1", "a2", "a3", "a4"].iter().position(|a| *a == word);
                match k {
                    Some(k) if k < args.len() => out += &args[k],
                    _ if word == "i" => out += loopvar,
                    _ => out += word,
                }
                i = j;
            } else {
                out.push(b[i] as char);
                i += 1;
            }
        }
        out
    };
    s[..nargs].iter().map(|x| rename(x)).collect()
}

struct BodyGen<'a> {
    sh: &'a Shape,
    /// Some(name) = hand-written version calling `name(args…, captures…)`; None = macro version `f!(…)`
    hand: Option<&'a str>,
    names: Names,
}

impl<'a> BodyGen<'a> {
    fn new(sh: &'a Shape, hand: Option<&'a str>) -> BodyGen<'a> {
        BodyGen { sh, hand, names: sh.names() }
    }
    fn call_with(&self, args: Vec<String>) -> String {
        match self.hand {
            None => format!("{}!({}{})", self.names.rec, args.join(", "), if self.sh.trailing { "," } else { "" }),
            Some(name) => {
                let mut all = args;
                for p in 0..self.sh.caps.len() {
                    all.push(self.sh.cap_name(p));
                }
                format!("{}({})", name, all.join(", "))
            }
        }
    }
    fn call(&self, n: usize) -> String {
        self.call_with(site(n, self.sh.nargs))
    }
    /// Mutate every mutable capture with the value `e` (order-sensitive updates: push / x*5+e).
    fn mutate(&self, e: &str, ind: &str) -> String {
        let mut s = String::new();
        for p in 0..self.sh.caps.len() {
            if !self.sh.caps[p] {
                continue;
            }
            let n = self.sh.cap_name(p);
            if self.sh.body == 'K' {
                // the class of the declared type says how the capture is changed
                for line in subst(self.sh.cclass(p).uses, &n, p, e).lines() {
                    s += &format!("{ind}{line}\n");
                }
            } else if self.sh.body == 'X' && self.sh.cap_is_vec(p) {
                // a log that stays short over millions of activations: near the leaves and every 65536 levels
                s += &format!("{ind}if a1 < 8 || a1 & 0xFFFF == 0 {{\n{ind}    {n}.push(({e}).wrapping_add({p}));\n{ind}}}\n");
            } else if self.sh.cap_is_vec(p) {
                s += &format!("{ind}{n}.push(({e}).wrapping_add({p}));\n");
            } else {
                s += &format!("{ind}*{n} = {n}.wrapping_mul(5).wrapping_add({e}).wrapping_add({p});\n");
            }
        }
        s
    }
    /// The argument expression `{ <mutate every mutable capture with e>; value }`.
    fn effect_arg(&self, e: &str, value: &str, ind: &str) -> String {
        let inner = format!("{ind}    ");
        format!("{{\n{}{inner}{value}\n{ind}}}", self.mutate(e, &inner))
    }
    /// 0 or 1, popped off the first mutable Vec capture when there is one (the first mutable capture of a
    /// shape always is a Vec), else computed from the arguments.
    fn popped_bit(&self) -> String {
        match (0..self.sh.caps.len()).find(|&p| self.sh.caps[p] && self.sh.cap_is_vec(p)) {
            Some(p) => format!("{}.pop().unwrap_or(3).rem_euclid(2)", self.sh.cap_name(p)),
            None => "key.rem_euclid(2)".to_string(),
        }
    }
    /// key from all arguments, acc from key and every shared capture.
    fn prologue(&self, ind: &str) -> String {
        let mut s = format!("{ind}super::tick();\n");
        if self.sh.env == "deep" {
            // records how far apart on the stack the activations of a run are
            s += &format!("{ind}super::probe();\n");
        }
        let temporaries = self.sh.body == 'G';
        let expected = self.sh.body == 'E' || temporaries;
        if expected {
            // how many activations are below this one (0 = called by the driver); `_level` counts down on drop
            s += &format!("{ind}let (_level, depth) = super::enter();\n");
        }
        if temporaries {
            // what this activation finds on entry: guards alive, events so far, cell borrowed, mutexes held
            s += &format!("{ind}let seen: i64 = super::on_entry();\n");
        }
        let typed = self.sh.body == 'T' || expected;
        let acc = &self.names.local;
        // typed arguments enter the key through a digest (an i64 computed from the argument's contents)
        let d = |k: usize| {
            if temporaries {
                format!("v{}", k + 1)
            } else if expected {
                format!("({})", eclass(&self.sh.exprs[k]).digest.replace("{a}", &self.names.args[k]))
            } else if typed {
                format!("({})", self.t_digest(k))
            } else {
                self.names.args[k].clone()
            }
        };
        let mut key = format!("{}.wrapping_mul(31)", d(0));
        if self.sh.nargs >= 2 {
            key += &format!(".wrapping_add({}.wrapping_mul(7))", d(1));
        }
        if self.sh.nargs >= 3 {
            key += &format!(".wrapping_add(({} as i64).wrapping_mul(3))", d(2));
        }
        if self.sh.nargs >= 4 {
            key += &format!(".wrapping_add({} as i64)", d(3));
        }
        if temporaries {
            // the arguments as integers (the recursive calls compute their arguments from these)
            for k in 0..self.sh.nargs {
                s += &format!("{ind}let v{}: i64 = {};\n", k + 1, tclass(&self.sh.temps[k]).digest.replace("{a}", &self.names.args[k]));
            }
        }
        s += &format!("{ind}let key: i64 = {key};\n{ind}let mut {acc}: i64 = key;\n");
        if temporaries {
            s += &format!("{ind}{acc} = {acc}.wrapping_mul(7).wrapping_add(seen);\n");
        }
        // index into a shared Vec capture: the first argument where it is an integer, else the key
        let index = if typed { "key" } else { self.names.args[0].as_str() };
        for p in 0..self.sh.caps.len() {
            if self.sh.caps[p] {
                continue;
            }
            let n = self.sh.cap_name(p);
            if self.sh.body == 'K' {
                s += &format!("{ind}{acc} = {acc}.wrapping_mul(3).wrapping_add({});\n", subst(self.sh.cclass(p).uses, &n, p, "key"));
            } else if self.sh.cap_is_vec(p) {
                s += &format!("{ind}{acc} = {acc}.wrapping_mul(3).wrapping_add({n}[{index}.rem_euclid({n}.len() as i64) as usize]);\n");
            } else {
                s += &format!("{ind}{acc} = {acc}.wrapping_mul(3).wrapping_add(*{n});\n");
            }
        }
        s
    }
    // ---- template T: arguments of the type classes in `sh.types` ----
    /// An i64 computed from the contents of argument k.
    fn t_digest(&self, k: usize) -> String {
        let a = format!("a{}", k + 1);
        match self.sh.class(k) {
            'I' => a,
            'B' => format!("{a} as i64"),
            'O' if self.sh.owned_string(k) => format!("{a}.bytes().fold({a}.len() as i64, |h, v| h.wrapping_mul(31).wrapping_add(v as i64))"),
            _ => format!("{a}.iter().fold({a}.len() as i64, |h, v| h.wrapping_mul(31).wrapping_add(*v))"),
        }
    }
    /// The recursion ends when the first argument is exhausted (integer <= 0, false, empty slice / Vec).
    fn t_base(&self) -> &'static str {
        match self.sh.class(0) {
            'I' => "a1 <= 0",
            'B' => "!a1",
            _ => "a1.is_empty()",
        }
    }
    /// Argument k of the first (site 0) / second and last (site 1) recursive call.  The first argument gets
    /// strictly smaller; references are passed on re-borrowed (implicitly `a`, explicitly `&mut *a`, as a
    /// sub-slice); owned values are cloned at site 0 and MOVED into the call at site 1.
    fn t_site(&self, k: usize, site: usize) -> String {
        let a = format!("a{}", k + 1);
        let s = match (self.sh.class(k), k == 0, site) {
            ('I', true, 0) => "a1 - 1".into(),
            ('I', true, _) => "a1 - 2".into(),
            ('I', false, 0) => format!("{a}.wrapping_add(1)"),
            ('I', false, _) => format!("{a}.wrapping_mul(2) ^ 1"),
            ('B', true, 0) => "false".into(),
            ('B', true, _) => "!a1".into(),
            ('B', false, 0) => format!("!{a}"),
            ('B', false, _) => a,
            ('S', true, 0) => "&a1[1..]".into(),
            ('S', true, _) => "&a1[a1.len().min(2)..]".into(),
            ('S', false, 0) => a,
            ('S', false, _) => format!("&{a}[{a}.len().min(1)..]"),
            // the bounding `&mut Vec` was popped before the calls
            ('M', _, 0) => a,
            ('M', _, _) => format!("&mut *{a}"),
            ('O', true, 0) => "a1[1..].to_vec()".into(),
            ('O', true, _) => "{ let mut w = a1; w.pop(); w }".into(),
            ('O', false, 0) if self.sh.owned_string(k) => format!("{a}.clone() + \"x\""),
            ('O', false, 0) => format!("{a}.clone()"),
            ('O', false, _) => a,
            (c, _, _) => panic!("unknown argument class {c}"),
        };
        s
    }
    fn t_call(&self, site: usize) -> String {
        self.call_with((0..self.sh.nargs).map(|k| self.t_site(k, site)).collect())
    }

    fn ret(&self, e: &str) -> String {
        // super::early() (a counter next to the shape modules) counts the activations that leave the body through an explicit `return`
        if self.sh.ret {
            format!("super::early(); return {e};")
        } else {
            "super::early(); return;".to_string()
        }
    }

    fn body(&self, ind: &str) -> String {
        let i1 = format!("{ind}    ");
        let i2 = format!("{ind}        ");
        let r = self.sh.ret;
        let mut s = self.prologue(&i1);
        match self.sh.body {
            // K: the body of A over captures of the declared types in `captypes`
            'A' | 'K' => {
                s += &self.mutate("acc", &i1);
                s += &format!("{i1}if a1 <= 0 {{\n{i2}{}\n{i1}}}\n", self.ret("acc"));
                s += &format!("{i1}if a1 % 2 == 0 {{\n");
                if r {
                    s += &format!("{i2}let x = {};\n{i2}let y = {};\n", self.call(0), self.call(1));
                    s += &self.mutate("x.wrapping_sub(y)", &i2);
                    s += &format!("{i2}x.wrapping_mul(3).wrapping_add(y).wrapping_add(acc)\n");
                } else {
                    s += &format!("{i2}{};\n{i2}{};\n", self.call(0), self.call(1));
                    s += &self.mutate("key ^ 1", &i2);
                }
                s += &format!("{i1}}} else {{\n");
                if r {
                    s += &format!("{i2}let y = {};\n{i2}let x = {};\n", self.call(2), self.call(3));
                    s += &self.mutate("x ^ y", &i2);
                    s += &format!("{i2}x.wrapping_sub(y.wrapping_mul(2)).wrapping_add(acc)\n");
                } else {
                    s += &format!("{i2}{};\n{i2}{};\n", self.call(2), self.call(3));
                    s += &self.mutate("key ^ 2", &i2);
                }
                s += &format!("{i1}}}\n");
            }
            'B' => {
                s += &format!("{i1}if a1 <= 0 {{\n");
                s += &self.mutate("acc ^ 9", &i2);
                s += &format!("{i2}{}\n{i1}}}\n", self.ret("acc"));
                // early return before any mutation
                s += &format!("{i1}if a1 == 1 && key.rem_euclid(2) == 0 {{\n{i2}{}\n{i1}}}\n", self.ret("acc ^ 0x55"));
                s += &self.mutate("acc", &i1);
                if r {
                    s += &format!("{i1}let x = {};\n", self.call(0));
                    s += &format!("{i1}if x.rem_euclid(3) == 0 {{\n");
                    s += &self.mutate("77i64", &i2);
                    s += &format!("{i2}{}\n{i1}}}\n", self.ret("x.wrapping_add(1)"));
                    s += &format!("{i1}let y = {};\n{i1}let z = {};\n", self.call(1), self.call(4));
                    s += &self.mutate("x ^ y.wrapping_mul(3) ^ z.wrapping_mul(7)", &i1);
                    s += &format!("{i1}x.wrapping_add(y).wrapping_sub(z).wrapping_add(acc)\n");
                } else {
                    s += &format!("{i1}{};\n", self.call(0));
                    s += &format!("{i1}if key.rem_euclid(3) == 0 {{\n");
                    s += &self.mutate("77i64", &i2);
                    s += &format!("{i2}{}\n{i1}}}\n", self.ret(""));
                    s += &format!("{i1}{};\n{i1}{};\n", self.call(1), self.call(4));
                    s += &self.mutate("key ^ 3", &i1);
                }
            }
            'C' => {
                s += &self.mutate("acc", &i1);
                s += &format!("{i1}if a1 <= 0 {{\n{i2}{}\n{i1}}}\n", self.ret("acc"));
                if r {
                    // a recursive call as (part of) an argument of a recursive call
                    let inner = self.call(1);
                    let mut outer = site(2, self.sh.nargs);
                    outer[0] = format!("{inner}.rem_euclid(2) + a1 - 3");
                    s += &format!("{i1}let x = {};\n{i1}let mut t = x;\n", self.call_with(outer));
                    s += &format!("{i1}for i in 0..2i64 {{\n{i2}t = t.wrapping_mul(3).wrapping_add({});\n", self.call(5));
                    s += &self.mutate("t", &i2);
                    s += &format!("{i1}}}\n");
                    s += &format!("{i1}let w = match a1 % 3 {{\n{i2}0 => {},\n{i2}1 => {{\n", self.call(4));
                    s += &self.mutate("5i64", &format!("{i2}    "));
                    s += &format!("{i2}    0\n{i2}}}\n{i2}_ => -1,\n{i1}}};\n");
                    s += &format!("{i1}t.wrapping_add(w)\n");
                } else {
                    s += &format!("{i1}{};\n", self.call(1));
                    s += &format!("{i1}for i in 0..2i64 {{\n{i2}{};\n", self.call(5));
                    s += &self.mutate("key ^ i", &i2);
                    s += &format!("{i1}}}\n");
                    s += &format!("{i1}match a1 % 3 {{\n{i2}0 => {},\n{i2}1 => {{\n", self.call(4));
                    s += &self.mutate("5i64", &format!("{i2}    "));
                    s += &format!("{i2}}}\n{i2}_ => {{}}\n{i1}}}\n");
                }
            }
            'D' => {
                let n = self.sh.nargs;
                s += &self.mutate("acc", &i1);
                s += &format!("{i1}if a1 <= 0 {{\n{i2}{}\n{i1}}}\n", self.ret("acc"));
                // inner call: its first argument is a block that mutates the mutable captures
                let mut inner = site(1, n);
                inner[0] = self.effect_arg("key ^ 1", "a1 - 2", &i2);
                let inner = self.call_with(inner);
                // outer call: the inner call is (part of) its first argument; its last argument is a block
                // that mutates the mutable captures (the same argument when there is only one)
                let mut outer = site(2, n);
                let first = if r {
                    format!("{inner}.rem_euclid(2) + a1 - 3")
                } else {
                    format!("{{\n{i2}    {inner};\n{}{i2}    a1 - 2\n{i2}}}", self.mutate("key ^ 4", &format!("{i2}    ")))
                };
                if n == 1 {
                    outer[0] = self.effect_arg("key ^ 2", &first, &i2);
                } else {
                    outer[0] = first;
                    outer[n - 1] = self.effect_arg("key ^ 2", &outer[n - 1].clone(), &i2);
                }
                // a call whose first argument depends on a value popped off a mutable capture
                let mut popping = site(3, n);
                popping[0] = format!("a1 - 1 - {}", self.popped_bit());
                if r {
                    s += &format!("{i1}let x = {};\n", self.call_with(outer));
                    s += &self.mutate("x", &i1);
                    s += &format!("{i1}let y = {};\n", self.call_with(popping));
                    s += &self.mutate("x ^ y", &i1);
                    s += &format!("{i1}x.wrapping_mul(3).wrapping_add(y).wrapping_add(acc)\n");
                } else {
                    s += &format!("{i1}{};\n", self.call_with(outer));
                    s += &self.mutate("key ^ 3", &i1);
                    s += &format!("{i1}{};\n", self.call_with(popping));
                    s += &self.mutate("key ^ 5", &i1);
                }
            }
            'T' => {
                let n = self.sh.nargs;
                s += &self.mutate("acc", &i1);
                // a `&mut Vec` argument that does not bound the recursion is a log: every activation appends
                for k in 1..n {
                    if self.sh.class(k) == 'M' {
                        s += &format!("{i1}a{}.push(acc.wrapping_add({k}));\n", k + 1);
                    }
                }
                s += &format!("{i1}if {} {{\n{i2}{}\n{i1}}}\n", self.t_base(), self.ret("acc"));
                // one that does bound it is popped before the calls and pushed back (changed) after them
                let bounding_mut = self.sh.class(0) == 'M';
                if bounding_mut {
                    s += &format!("{i1}let t1 = a1.pop().unwrap();\n");
                }
                if r {
                    s += &format!("{i1}let x = {};\n", self.t_call(0));
                    s += &self.mutate("x", &i1);
                    s += &format!("{i1}let y = {};\n", self.t_call(1));
                    if bounding_mut {
                        s += &format!("{i1}a1.push(t1.wrapping_add(x).wrapping_sub(y));\n");
                    }
                    s += &self.mutate("x ^ y", &i1);
                    s += &format!("{i1}x.wrapping_mul(3).wrapping_add(y).wrapping_add(acc)\n");
                } else {
                    s += &format!("{i1}{};\n", self.t_call(0));
                    s += &self.mutate("key ^ 1", &i1);
                    s += &format!("{i1}{};\n", self.t_call(1));
                    if bounding_mut {
                        s += &format!("{i1}a1.push(t1 ^ key);\n");
                    }
                    s += &self.mutate("key ^ 2", &i1);
                }
            }
            'E' => {
                let n = self.sh.nargs;
                let cls: Vec<EClass> = (0..n).map(|k| eclass(&self.sh.exprs[k])).collect();
                let plain = |j: usize| self.call_with(cls.iter().map(|c| c.sites[j].clone()).collect());
                let looped = |j: usize| self.call_with(cls.iter().map(|c| c.loop_sites[j].replace("{k}", "k")).collect());
                let shifts: Vec<String> = E_SHIFTS.iter().enumerate().map(|(i, k)| format!("{k}{}", if i == 0 { "u32" } else { "" })).collect();
                s += &self.mutate("acc", &i1);
                // three levels of activations: the driver's call, its calls, their calls
                s += &format!("{i1}if depth >= 2 {{\n{i2}{}\n{i1}}}\n", self.ret("acc"));
                if r {
                    s += &format!("{i1}let x = {};\n", plain(0));
                    s += &self.mutate("x", &i1);
                    s += &format!("{i1}if depth == 0 {{\n{i2}for k in [{}] {{\n", shifts.join(", "));
                    let i3 = format!("{i2}    ");
                    s += &format!("{i3}acc = acc.wrapping_mul(3).wrapping_add({});\n", looped(0));
                    s += &format!("{i3}acc = acc.wrapping_mul(5).wrapping_add({});\n", looped(1));
                    s += &self.mutate("acc ^ k as i64", &i3);
                    s += &format!("{i2}}}\n");
                    s += &format!("{i2}let y = {};\n", plain(1));
                    s += &self.mutate("x ^ y", &i2);
                    s += &format!("{i2}let z = {};\n", plain(2));
                    s += &format!("{i2}acc = acc.wrapping_add(y.wrapping_mul(3)).wrapping_add(z.wrapping_mul(7));\n");
                    s += &format!("{i1}}}\n");
                    s += &format!("{i1}x.wrapping_mul(3).wrapping_add(acc)\n");
                } else {
                    s += &format!("{i1}{};\n", plain(0));
                    s += &self.mutate("key ^ 1", &i1);
                    s += &format!("{i1}if depth == 0 {{\n{i2}for k in [{}] {{\n", shifts.join(", "));
                    let i3 = format!("{i2}    ");
                    s += &format!("{i3}{};\n{i3}{};\n", looped(0), looped(1));
                    s += &self.mutate("key ^ k as i64", &i3);
                    s += &format!("{i2}}}\n");
                    s += &format!("{i2}{};\n", plain(1));
                    s += &self.mutate("key ^ 2", &i2);
                    s += &format!("{i2}{};\n", plain(2));
                    s += &self.mutate("key ^ 3", &i2);
                    s += &format!("{i1}}}\n");
                }
            }
            'G' => {
                let n = self.sh.nargs;
                // site j, argument position p: tag 10 j + p + 1, value from the argument's own digest, and a
                // mutex index that depends on the depth, the site and the position
                let call = |j: usize| {
                    self.call_with(
                        (0..n)
                            .map(|p| {
                                let x = format!("v{}.wrapping_mul({}).wrapping_add({})", p + 1, 2 * j + 3, j + p);
                                let m = format!("depth as usize * 16 + {}", 4 * j + p);
                                tclass(&self.sh.temps[p]).exprs[j % 2].replace("{k}", &(10 * j + p + 1).to_string()).replace("{x}", &x).replace("{m}", &m)
                            })
                            .collect(),
                    )
                };
                s += &self.mutate("acc", &i1);
                // three levels of activations: the driver's call, its calls, their calls
                s += &format!("{i1}if depth >= 2 {{\n{i2}{}\n{i1}}}\n", self.ret("acc"));
                if r {
                    // a call as the initialiser of a `let`: the temporaries of its arguments are gone after the `;`
                    s += &format!("{i1}let x = {};\n", call(0));
                    s += &self.mutate("x ^ super::journal()", &i1);
                    // a call inside a larger expression
                    s += &format!("{i1}let y = 1i64.wrapping_add({}).wrapping_mul(3);\n", call(1));
                    s += &self.mutate("x ^ y", &i1);
                    s += &format!("{i1}if depth == 0 {{\n");
                    // two calls in one statement: the temporaries of the first live through the second
                    s += &format!("{i2}let z = {}.wrapping_sub({});\n", call(2), call(3));
                    s += &format!("{i2}acc = acc.wrapping_add(z.wrapping_mul(7)) ^ super::journal();\n");
                    s += &format!("{i1}}}\n");
                    s += &format!("{i1}x.wrapping_mul(3).wrapping_add(y).wrapping_add(acc)\n");
                } else {
                    s += &format!("{i1}{};\n", call(0));
                    s += &self.mutate("key ^ super::journal()", &i1);
                    s += &format!("{i1}{};\n", call(1));
                    s += &self.mutate("key ^ 2", &i1);
                    s += &format!("{i1}if depth == 0 {{\n");
                    // two calls in one statement: the temporaries of the first live through the second
                    s += &format!("{i2}let _pair = ({}, {});\n", call(2), call(3));
                    s += &self.mutate("key ^ 3 ^ super::journal()", &i2);
                    s += &format!("{i1}}}\n");
                }
            }
            'N' => {
                let n = self.sh.nargs;
                let (acc, v, a1) = (&self.names.local, &self.names.loopvar, &self.names.args[0]);
                let in_loop = self.call_with(site_named(5, n, &self.names.args, v));
                let after = self.call_with(site_named(1, n, &self.names.args, v));
                s += &self.mutate(acc, &i1);
                s += &format!("{i1}if {a1} <= 0 {{\n{i2}{}\n{i1}}}\n", self.ret(acc));
                // names of the standard library in the value namespace: an imported fn, a prelude variant, a prelude fn
                s += &format!("{i1}{acc} = max({acc}, key ^ 21);\n");
                s += &format!("{i1}let spare = Some({acc} ^ 7);\n");
                if r {
                    s += &format!("{i1}for {v} in 0..2i64 {{\n{i2}{acc} = {acc}.wrapping_mul(3).wrapping_add({in_loop});\n");
                    s += &self.mutate(acc, &i2);
                    s += &format!("{i1}}}\n");
                    s += &format!("{i1}let y = {after};\n{i1}drop(spare);\n");
                    s += &self.mutate(&format!("{acc} ^ y"), &i1);
                    s += &format!("{i1}{acc}.wrapping_add(y.wrapping_mul(5))\n");
                } else {
                    s += &format!("{i1}for {v} in 0..2i64 {{\n{i2}{in_loop};\n");
                    s += &self.mutate(&format!("{acc} ^ {v}"), &i2);
                    s += &format!("{i1}}}\n");
                    s += &format!("{i1}{after};\n{i1}drop(spare);\n");
                    s += &self.mutate("key ^ 2", &i1);
                }
            }
            'X' => {
                // a path: one recursive call per activation, so that the depth is the first argument
                s += &self.mutate("acc", &i1);
                s += &format!("{i1}if a1 <= 0 {{\n{i2}{}\n{i1}}}\n", self.ret("acc"));
                if self.sh.env == "nested" {
                    s += &self.nested_lambda(&i1);
                }
                let deep = self.sh.env == "deep";
                if deep {
                    // a small buffer that lives across the recursive call, as a dfs keeps one: frames of 150-250 bytes
                    s += &format!("{i1}let pad: [i64; 16] = [key; 16];\n");
                }
                if r {
                    s += &format!("{i1}let x = {};\n", self.call(0));
                    if deep {
                        s += &format!("{i1}acc ^= pad[(x & 15) as usize];\n");
                    }
                    s += &self.mutate("x", &i1);
                    s += &format!("{i1}x.wrapping_mul(3).wrapping_add(acc)\n");
                } else {
                    s += &format!("{i1}{};\n", self.call(0));
                    if deep {
                        s += &format!("{i1}acc ^= pad[(acc & 15) as usize];\n");
                    }
                    s += &self.mutate("key ^ 1 ^ acc", &i1);
                }
            }
            other => panic!("unknown body template {other}"),
        }
        s
    }
    /// Environment `nested`: statements of the outer body that create ANOTHER recursive lambda - over a local of
    /// this activation (mutable) and the outer lambda's shared captures - call it and fold what it did into `acc`.
    /// The hand-written version calls the fn `hand_inner` (see `nested_hand_fn`) with the same things.
    fn nested_lambda(&self, ind: &str) -> String {
        let shared: Vec<usize> = (0..self.sh.caps.len()).filter(|&p| !self.sh.caps[p]).collect();
        let mut s = format!("{ind}let mut ilog: Vec<i64> = vec![];\n");
        match self.hand {
            None => {
                let mut caps = vec!["ilog: &mut Vec<i64>".to_string()];
                caps.extend(shared.iter().map(|&p| format!("{}: &{}", self.sh.cap_name(p), self.sh.cap_type(p))));
                s += &format!("{ind}let t = {{\n{ind}    let mut inner = rec_lambda!(g, |{}| {{\n{ind}        |b1: i64| -> i64 {{\n", caps.join(", "));
                s += &nested_inner_body(self.sh, "g!(b1 - 1)", &format!("{ind}            "));
                s += &format!("{ind}        }}\n{ind}    }});\n{ind}    inner(a1.rem_euclid(4))\n{ind}}};\n");
            }
            Some(_) => {
                let mut args = vec!["a1.rem_euclid(4)".to_string(), "&mut ilog".to_string()];
                args.extend(shared.iter().map(|&p| format!("&{}", self.sh.cap_name(p))));
                s += &format!("{ind}let t = hand_inner({});\n", args.join(", "));
            }
        }
        s += &format!("{ind}acc = acc.wrapping_add(t).wrapping_add(ilog.iter().fold(0i64, |h, v| h.wrapping_mul(31).wrapping_add(*v)));\n");
        s
    }
}

/// Body of the inner lambda of environment `nested` (`rec` = the spelling of its recursive call).
fn nested_inner_body(sh: &Shape, rec: &str, ind: &str) -> String {
    let mut base = "1i64".to_string();
    for p in (0..sh.caps.len()).filter(|&p| !sh.caps[p]) {
        let n = sh.cap_name(p);
        base += &if sh.cap_is_vec(p) { format!(".wrapping_add({n}[0])") } else { format!(".wrapping_add(*{n})") };
    }
    format!("{ind}ilog.push(b1);\n{ind}if b1 <= 0 {{\n{ind}    return {base};\n{ind}}}\n{ind}let t = {rec};\n{ind}ilog.push(t ^ b1);\n{ind}t.wrapping_mul(3).wrapping_add(b1)\n")
}

/// The hand-written counterpart of the inner lambda of environment `nested`.
fn nested_hand_fn(sh: &Shape, ind: &str) -> String {
    let shared: Vec<usize> = (0..sh.caps.len()).filter(|&p| !sh.caps[p]).collect();
    let mut params = vec!["b1: i64".to_string(), "ilog: &mut Vec<i64>".to_string()];
    params.extend(shared.iter().map(|&p| format!("{}: &{}", sh.cap_name(p), sh.cap_type(p))));
    let mut args = vec!["b1 - 1".to_string(), "ilog".to_string()];
    args.extend(shared.iter().map(|&p| sh.cap_name(p)));
    let mut s = format!("{ind}fn hand_inner({}) -> i64 {{\n", params.join(", "));
    s += &nested_inner_body(sh, &format!("hand_inner({})", args.join(", ")), &format!("{ind}    "));
    s += &format!("{ind}}}\n");
    s
}

/// A text of a capture-type class with its placeholders filled in.
fn subst(text: &str, n: &str, p: usize, e: &str) -> String {
    text.replace("{n}", n).replace("{p}", &p.to_string()).replace("{acc}", "acc").replace("{e}", e)
}

/// The `rec_lambda!(…)` invocation of a shape, as source text (an expression).
pub fn macro_invocation(sh: &Shape, ind: &str) -> String {
    let caps: Vec<String> =
        (0..sh.caps.len()).map(|p| format!("{}: {}{}", sh.cap_name(p), if sh.caps[p] { "&mut " } else { "&" }, sh.cap_type(p))).collect();
    let names = sh.names();
    let args: Vec<String> = (0..sh.nargs).map(|i| format!("{}: {}", names.args[i], sh.arg_type(i))).collect();
    let i1 = format!("{ind}    ");
    let mut s = format!("rec_lambda!({}, |{}| {{\n", names.rec, caps.join(", "));
    s += &format!("{i1}|{}|{} {{\n", args.join(", "), if sh.ret { " -> i64" } else { "" });
    s += &BodyGen::new(sh, None).body(&i1);
    s += &format!("{i1}}}\n{ind}}})");
    s
}

/// The argument lists (text between the parentheses) of every `f!(…)` in a macro invocation, nested ones
/// included.  Used for the non-vacuity facts "a recursive call occurs inside an argument of a recursive
/// call" and "an argument expression mutates a mutable capture".
pub fn call_argument_lists(invocation: &str) -> Vec<&str> {
    let b = invocation.as_bytes();
    let mut out = vec![];
    let mut from = 0;
    while let Some(k) = invocation[from..].find("f!(") {
        let open = from + k + 2;
        let mut depth = 0usize;
        let mut end = b.len();
        for (i, &c) in b.iter().enumerate().skip(open) {
            match c {
                b'(' | b'{' | b'[' => depth += 1,
                b')' | b'}' | b']' => {
                    depth -= 1;
                    if depth == 0 {
                        end = i;
                        break;
                    }
                }
                _ => {}
            }
        }
        out.push(&invocation[open + 1..end]);
        from = open + 1;
    }
    out
}
pub fn has_nested_call_argument(invocation: &str) -> bool {
    call_argument_lists(invocation).iter().any(|a| a.contains("f!("))
}
/// `mutate` writes `name.push(` / `*name = `; `popped_bit` writes `name.pop()`; mutable captures are named m<p>
pub fn has_mutating_argument(invocation: &str) -> bool {
    call_argument_lists(invocation).iter().any(|a| {
        (0..4).any(|p| a.contains(&format!("m{p}.push(")) || a.contains(&format!("m{p}.pop()")) || a.contains(&format!("*m{p} = ")))
    })
}

/// The equivalent hand-written recursive function: arguments, then the captures in written order.
pub fn hand_fn(sh: &Shape, name: &str, ind: &str) -> String {
    let names = sh.names();
    let mut params: Vec<String> = (0..sh.nargs).map(|i| format!("{}: {}", names.args[i], sh.arg_type(i))).collect();
    for p in 0..sh.caps.len() {
        params.push(format!("{}: {}{}", sh.cap_name(p), if sh.caps[p] { "&mut " } else { "&" }, sh.cap_type(p)));
    }
    let mut s = format!("{ind}fn {name}({}){} {{\n", params.join(", "), if sh.ret { " -> i64" } else { "" });
    // the body text is generated one level shallower than in the closure; indentation is cosmetic
    s += &BodyGen::new(sh, Some(name)).body(ind);
    s += &format!("{ind}}}\n");
    s
}

/// `()`, `(a,)`, `(a, b)`
fn tuple(parts: &[String]) -> String {
    match parts.len() {
        1 => format!("({},)", parts[0]),
        _ => format!("({})", parts.join(", ")),
    }
}

/// Driver of a typed-argument shape (template T), the same text for the closure and for the hand-written fn
/// except for the call itself (`call(arguments)`).  The data behind the arguments lives in the driver:
///   call 1;  the data is MUTATED (push, first element changed; integers and bools change value);  call 2;
///   call 3 on short-lived temporaries that are dropped right after it;  the data is dropped and RECREATED
///   (assignment of a new Vec / String);  call 4.
/// A reference argument therefore borrows for a different, non-overlapping region at every call, as is
/// ordinary for the hand-written fn.  Result: ((r1, r2, data passed by `&mut` after call 2, r3, temporaries
/// passed by `&mut` after call 3, r4), (captures…), (data passed by `&mut` at the end…)).
struct TypedDriver {
    /// declarations of the data behind the arguments
    data: String,
    /// the four calls with the changes in between (inside the scope of the closure)
    calls: String,
    /// the expression rendering the result
    show: String,
}

fn typed_calls(sh: &Shape, call: &dyn Fn(&[String]) -> String, dind: &str, ind: &str) -> TypedDriver {
    let n = sh.nargs;
    let mut decl = String::new();
    let mut mutate = String::new();
    let mut temps = String::new();
    let mut recreate = String::new();
    let (mut pass, mut pass_temp, mut mut_temps, mut mut_data) = (vec![], vec![], vec![], vec![]);
    for k in 0..n {
        let p = k + 1;
        match sh.class(k) {
            'I' => {
                let seed = ["a1".to_string(), "a2".into(), "(a3 % 1000) as i64".into(), "a4 as i64 + 5".into()][k].clone();
                decl += &format!("{dind}let mut v{p}: i64 = {seed};\n");
                if k == 0 {
                    mutate += &format!("{ind}v1 -= 1;\n");
                    recreate += &format!("{ind}v1 = a1.rem_euclid(4) + 1;\n");
                } else {
                    mutate += &format!("{ind}v{p} ^= 1;\n");
                    recreate += &format!("{ind}v{p} = v{p}.wrapping_mul(3) + {p};\n");
                }
                pass.push(format!("v{p}"));
                pass_temp.push(format!("v{p}"));
            }
            'B' => {
                let seed = ["a1 % 2 == 1".to_string(), "(a1 + 2) % 2 == 0".into(), "(a1 + 3) % 2 == 0".into(), "a4".into()][k].clone();
                decl += &format!("{dind}let mut v{p}: bool = {seed};\n");
                mutate += &format!("{ind}v{p} = !v{p};\n");
                recreate += &format!("{ind}v{p} = {};\n", if k == 0 { "true" } else { "a1 % 3 == 0" });
                pass.push(format!("v{p}"));
                pass_temp.push(format!("v{p}"));
            }
            'O' if sh.owned_string(k) => {
                decl += &format!("{dind}let mut d{p}: String = \"ab\".repeat((a1 + {p}).rem_euclid(3) as usize + 1);\n");
                mutate += &format!("{ind}d{p}.push('z');\n");
                recreate += &format!("{ind}d{p} = format!(\"q{{}}\", a2);\n");
                pass.push(format!("d{p}.clone()"));
                pass_temp.push("String::from(\"tmp\")".to_string());
            }
            c @ ('S' | 'M' | 'O') => {
                // the first argument bounds the recursion: at most 6 elements at any call
                let len = if k == 0 { "a1.rem_euclid(5)".to_string() } else { format!("(a1 + {p}).rem_euclid(3) + 1") };
                decl += &format!("{dind}let mut d{p}: Vec<i64> = (0..{len}).map(|i| i * 3 + a2 + {p}).collect();\n");
                mutate += &format!("{ind}d{p}.push(11 + {p});\n{ind}if let Some(v) = d{p}.first_mut() {{\n{ind}    *v ^= 5;\n{ind}}}\n");
                recreate += &format!("{ind}d{p} = vec![a2 - {p}, 8, a1];\n");
                match c {
                    'S' => {
                        temps += &format!("{ind}    let t{p}: Vec<i64> = vec![{p}, 4, a2];\n");
                        pass.push(format!("&d{p}"));
                        pass_temp.push(format!("&t{p}"));
                    }
                    'M' => {
                        temps += &format!("{ind}    let mut t{p}: Vec<i64> = vec![{p}, 4, a2];\n");
                        pass.push(format!("&mut d{p}"));
                        pass_temp.push(format!("&mut t{p}"));
                        mut_temps.push(format!("&t{p}"));
                        mut_data.push(format!("&d{p}"));
                    }
                    _ => {
                        pass.push(format!("d{p}.clone()"));
                        pass_temp.push(format!("vec![{p}, 4, a2]"));
                    }
                }
            }
            c => panic!("unknown argument class {c}"),
        }
    }
    let mut s = String::new();
    s += &format!("{ind}let r1 = {};\n", call(&pass));
    s += &mutate;
    s += &format!("{ind}let r2 = {};\n", call(&pass));
    s += &format!("{ind}let after2 = format!(\"{{:?}}\", {});\n", tuple(&mut_data));
    s += &format!("{ind}let (r3, t3) = {{\n{temps}{ind}    let r = {};\n{ind}    (r, format!(\"{{:?}}\", {}))\n{ind}}};\n", call(&pass_temp), tuple(&mut_temps));
    s += &recreate;
    s += &format!("{ind}let r4 = {};\n", call(&pass));
    // the caller closes the scope of the closure and then renders `show`
    let caps: Vec<String> = (0..sh.caps.len()).map(|p| format!("&{}", sh.cap_name(p))).collect();
    let show = format!("format!(\"{{:?}}\", ((r1, r2, after2, r3, t3, r4), {}, {}))", tuple(&caps), tuple(&mut_data));
    TypedDriver { data: decl, calls: s, show }
}

/// Every line of `text` behind `ind`.
fn indent(text: &str, ind: &str) -> String {
    text.lines().map(|l| if l.is_empty() { "\n".to_string() } else { format!("{ind}{l}\n") }).collect()
}

/// `let mut lam = |arguments| hand(arguments, captures);` - the closure that the macro stands for, written out.
fn control_lam(sh: &Shape) -> String {
    let names = sh.names();
    let ps: Vec<String> = (0..sh.nargs).map(|i| format!("{}: {}", names.args[i], sh.arg_type(i))).collect();
    let mut all: Vec<String> = names.args.clone();
    for p in 0..sh.caps.len() {
        all.push(format!("{}{}", if sh.caps[p] { "&mut " } else { "&" }, sh.cap_name(p)));
    }
    format!("            let mut {} = |{}| hand({});\n", names.binding, ps.join(", "), all.join(", "))
}

/// The two drivers of an execution-environment shape (body template 'X'): the same text, once around the
/// rec_lambda closure (`lam`) and once around the closure written out over the hand-written fn (`control`).
fn env_drivers(sh: &Shape, lam: &str, control: &str, decl_at: &dyn Fn(&mut String, bool, &str), cap_shows: &[String]) -> String {
    let n = sh.nargs;
    let rest: Vec<String> = (2..=n).map(|i| format!("a{i}")).collect();
    // the argument lists of the two calls, `first` being the first argument
    let args = |first: &str| {
        let mut v = vec![first.to_string()];
        v.extend(rest.iter().cloned());
        v.join(", ")
    };
    let show = |first: &str| {
        let mut parts = vec![first.to_string()];
        parts.extend(cap_shows.iter().cloned());
        format!("format!(\"{{:?}}\", {})", tuple(&parts))
    };
    // closure creation re-indented to `ind` (it is generated for 12 spaces)
    let lam_at = |text: &str, ind: &str| -> String { text.lines().map(|l| format!("{ind}{}\n", l.strip_prefix("            ").unwrap_or(l))).collect() };
    let mut s = String::new();
    for (name, text, hand) in [("run_macro", lam, false), ("run_hand", control, true)] {
        s += &format!("\n    pub fn {name}(a1: i64, a2: i64, a3: u32, a4: bool) -> String {{\n");
        match sh.env.as_str() {
            "deep" => {
                // the caller arranges a big stack for its deep recursion; a shallow call first
                s += "        let big = std::thread::Builder::new().stack_size(super::BIG_STACK).spawn(move || {\n";
                decl_at(&mut s, hand, "            ");
                s += "            let (r1, r2) = {\n";
                s += &lam_at(text, "                ");
                s += &format!("                let r1 = lam({});\n                let r2 = lam({});\n                (r1, r2)\n            }};\n", args("a1.min(64)"), args("a1"));
                s += &format!("            {}\n", show("(r1, r2)"));
                s += "        });\n";
                s += "        big.unwrap().join().unwrap_or_else(|_| \"PANIC\".to_string())\n";
            }
            "threads_own" => {
                s += &format!("        let barrier = std::sync::Barrier::new({THREADS});\n");
                s += "        let outs: Vec<String> = std::thread::scope(|sc| {\n";
                s += &format!("            let hs: Vec<_> = (0..{THREADS}i64)\n                .map(|t| {{\n                    let barrier = &barrier;\n                    sc.spawn(move || {{\n");
                decl_at(&mut s, hand, "                        ");
                s += "                        barrier.wait();\n";
                s += "                        let (r1, r2) = {\n";
                s += &lam_at(text, "                            ");
                s += &format!(
                    "                            let r1 = lam({});\n                            let r2 = lam({});\n                            (r1, r2)\n                        }};\n",
                    args("a1 + 16 * t"),
                    args("a1 - 1 + 16 * t")
                );
                s += &format!("                        {}\n", show("(r1, r2)"));
                s += "                    })\n                })\n                .collect();\n";
                s += "            hs.into_iter().map(|h| h.join().unwrap_or_else(|_| \"PANIC\".to_string())).collect()\n";
                s += "        });\n";
                s += "        outs.join(\" | \")\n";
            }
            "threads_shared" => {
                decl_at(&mut s, hand, "        ");
                s += "        let outs: Vec<String> = {\n";
                s += &lam_at(text, "            ");
                s += "            let lam = &lam;\n";
                s += &format!("            let barrier = std::sync::Barrier::new({THREADS});\n");
                s += "            std::thread::scope(|sc| {\n";
                s += &format!("                let hs: Vec<_> = (0..{THREADS}i64)\n                    .map(|t| {{\n                        let barrier = &barrier;\n                        sc.spawn(move || {{\n");
                s += "                            barrier.wait();\n";
                s += &format!("                            let r1 = lam({});\n                            let r2 = lam({});\n", args("a1 + 16 * t"), args("a1 - 1 + 16 * t"));
                s += "                            format!(\"{:?}\", (r1, r2))\n";
                s += "                        })\n                    })\n                    .collect();\n";
                s += "                hs.into_iter().map(|h| h.join().unwrap_or_else(|_| \"PANIC\".to_string())).collect()\n";
                s += "            })\n        };\n";
                s += &format!("        {}\n", show("outs"));
            }
            "moved" => {
                decl_at(&mut s, hand, "        ");
                s += "        let (r1, r2) = {\n";
                s += &lam_at(text, "            ");
                s += &format!("            let r1 = lam({});\n", args("a1.min(64)"));
                s += "            // the closure goes to another thread and is called there; None = it panicked there\n";
                s += &format!("            let r2 = std::thread::scope(|sc| {{\n                sc.spawn(move || {{\n                    let mut lam = lam;\n                    lam({})\n                }})\n                .join()\n            }});\n", args("a1"));
                s += "            (r1, r2.ok())\n        };\n";
                s += &format!("        {}\n", show("(r1, r2)"));
            }
            "nested" => {
                decl_at(&mut s, hand, "        ");
                s += "        let (r1, r2) = {\n";
                s += &lam_at(text, "            ");
                s += &format!("            let r1 = lam({});\n            let r2 = lam({});\n            (r1, r2)\n        }};\n", args("a1.min(64)"), args("a1"));
                s += &format!("        {}\n", show("(r1, r2)"));
            }
            other => panic!("unknown execution environment {other}"),
        }
        s += "    }\n";
    }
    s
}

fn shape_module(id: usize, sh: &Shape, with_macro: bool) -> String {
    let n = sh.nargs;
    let names = sh.names();
    let lam_name = names.binding.as_str();
    let mut s = format!("// shape {id}: {}\nmod shape_{id} {{\n    use rlib_lambda::rec_lambda;\n", sh.descriptor());
    if sh.body == 'N' {
        s += "    use std::cmp::max;\n";
    }
    s += "\n";
    // items the hand-written version needs besides `hand`: the fn behind a captured lambda, the inner fn of `nested`
    let mut items: Vec<&str> = vec![];
    for p in 0..sh.captypes.len() {
        let c = sh.cclass(p);
        if !c.items.is_empty() && !items.contains(&c.items) {
            items.push(c.items);
            s += &indent(c.items, "    ");
        }
    }
    if sh.env == "nested" {
        s += &nested_hand_fn(sh, "    ");
    }
    s += &hand_fn(sh, "hand", "    ");
    // `hand` = for the hand-written version (a captured lambda is a closure around a fn there)
    let decl_at = |s: &mut String, hand: bool, ind: &str| {
        for p in 0..sh.caps.len() {
            if sh.body == 'K' {
                let c = sh.cclass(p);
                let text = if (hand || !with_macro) && !c.setup_hand.is_empty() { c.setup_hand } else { c.setup };
                *s += &indent(&subst(text, &sh.cap_name(p), p, ""), ind);
                continue;
            }
            *s += &format!(
                "{ind}let {}{}: {} = {};\n",
                if sh.caps[p] { "mut " } else { "" },
                sh.cap_name(p),
                sh.cap_type(p),
                sh.cap_init(p)
            );
        }
    };
    let decl = |s: &mut String, hand: bool| decl_at(s, hand, "        ");
    let lam = if with_macro {
        format!("            let mut {lam_name} = {};\n", macro_invocation(sh, "            "))
    } else {
        // control variant (used only to tell a generator defect from a macro defect): an ordinary closure
        // around the hand-written function, no macro involved
        control_lam(sh)
    };
    let caps_pass: Vec<String> = (0..sh.caps.len()).map(|p| format!("{}{}", if sh.caps[p] { "&mut " } else { "&" }, sh.cap_name(p))).collect();
    let with = |a: &[String]| {
        let mut all = a.to_vec();
        all.extend(caps_pass.iter().cloned());
        all.join(", ")
    };
    let call_lam = |a: &[String]| format!("{lam_name}({})", a.join(", "));
    let call_hand = |a: &[String]| format!("hand({})", with(a));

    if sh.body == 'T' {
        // the closure is created once and called four times, the data behind its arguments changing in between
        for (name, is_lam) in [("run_macro", true), ("run_hand", false)] {
            let call: &dyn Fn(&[String]) -> String = if is_lam { &call_lam } else { &call_hand };
            let TypedDriver { data, calls, show } = typed_calls(sh, call, "        ", "            ");
            s += &format!("\n    pub fn {name}(a1: i64, a2: i64, a3: u32, a4: bool) -> String {{\n");
            decl(&mut s, !is_lam);
            s += &data;
            s += "        let (r1, r2, after2, r3, t3, r4) = {\n";
            if is_lam {
                s += &lam;
            }
            s += &calls;
            s += "            (r1, r2, after2, r3, t3, r4)\n        };\n";
            s += &format!("        {show}\n    }}\n");
        }
        s += "}\n\n";
        return s;
    }

    // what the captures hold after the last call
    let cap_shows: Vec<String> = (0..sh.caps.len())
        .filter_map(|p| {
            if sh.body == 'K' {
                let c = sh.cclass(p);
                (!c.show.is_empty()).then(|| subst(c.show, &sh.cap_name(p), p, ""))
            } else {
                Some(format!("&{}", sh.cap_name(p)))
            }
        })
        .collect();
    if sh.body == 'X' {
        s += &env_drivers(sh, &lam, &control_lam(sh), &decl_at, &cap_shows);
        s += "}\n\n";
        return s;
    }
    let show = {
        let mut parts = vec!["r1".to_string(), "r2".to_string()];
        parts.extend(cap_shows.iter().cloned());
        format!("        format!(\"{{:?}}\", ({}))\n", parts.join(", "))
    };
    let mut first: Vec<String> = (1..=n).map(|i| format!("a{i}")).collect();
    let mut second = first.clone();
    second[0] = "a1 - 1".to_string();
    if sh.body == 'E' {
        // values of the parameter types, built from the first component of the driver tuple
        let top = |k: usize, add: usize| eclass(&sh.exprs[k]).top.replace("{v}", &format!("(a1 + {})", k + add));
        first = (0..n).map(|k| top(k, 0)).collect();
        second = (0..n).map(|k| top(k, 7)).collect();
    }
    if sh.body == 'G' {
        let top = |k: usize, add: usize| tclass(&sh.temps[k]).top.replace("{v}", &format!("(a1 + {})", k + add));
        first = (0..n).map(|k| top(k, 0)).collect();
        second = (0..n).map(|k| top(k, 7)).collect();
    }
    // the journal of the temporaries family starts empty in every driver run
    let reset = if sh.body == 'G' { "        super::reset_journal();\n" } else { "" };

    // (a) the macro version: the closure is created once and called twice
    s += "\n    pub fn run_macro(a1: i64, a2: i64, a3: u32, a4: bool) -> String {\n";
    s += reset;
    decl(&mut s, false);
    s += "        let (r1, r2) = {\n";
    s += &lam;
    s += &format!("            let r1 = {};\n            let r2 = {};\n            (r1, r2)\n        }};\n", call_lam(&first), call_lam(&second));
    s += &show;
    s += "    }\n";

    // (b) the hand-written version
    s += "\n    pub fn run_hand(a1: i64, a2: i64, a3: u32, a4: bool) -> String {\n";
    s += reset;
    decl(&mut s, true);
    s += &format!("        let r1 = {};\n        let r2 = {};\n", call_hand(&first), call_hand(&second));
    s += &show;
    s += "    }\n}\n\n";
    s
}

const ALLOW: &str = "#![allow(warnings)]\n#![allow(unused, unused_mut, unused_variables, unused_assignments, dead_code, unreachable_code, clippy::all)]\n\n";

/// A generated package = several LIBRARY crates, each holding the modules of some shapes (so that the compiler
/// front-end works on them at the same time), and one binary that links them all and runs every shape, in the
/// order of the ids, on its main thread.
///
/// Source of one library (without the crate-level attributes): two counters, one module per shape, the table
/// of its shapes.  Also returns the 1-based line range (first, last) of every shape's module relative to the
/// first line of this text, used to attribute compiler diagnostics to shapes.
pub fn lib_source(shapes: &[(usize, Shape)], with_macro: bool) -> (String, Vec<(usize, usize, usize)>) {
    let mut lines = vec![];
    let mut s = String::new();
    s += "use std::sync::atomic::{AtomicU64, Ordering};\n";
    s += "static CALLS: AtomicU64 = AtomicU64::new(0);\n";
    s += "pub fn tick() {\n    CALLS.fetch_add(1, Ordering::Relaxed);\n}\n";
    s += "static EARLY: AtomicU64 = AtomicU64::new(0);\n";
    s += "pub fn early() {\n    EARLY.fetch_add(1, Ordering::Relaxed);\n}\n";
    s += "/// Lowest and highest address of a local of `probe` so far: how much stack the probed activations span.\n";
    s += "static LOW: AtomicU64 = AtomicU64::new(u64::MAX);\nstatic HIGH: AtomicU64 = AtomicU64::new(0);\n";
    s += "#[inline(never)]\npub fn probe() {\n    let here = 0u8;\n    let at = std::hint::black_box(&here) as *const u8 as u64;\n    LOW.fetch_min(at, Ordering::Relaxed);\n    HIGH.fetch_max(at, Ordering::Relaxed);\n}\n";
    s += "/// (body executions, activations left through an explicit `return`, bytes of stack between the probes) so far\n";
    s += "pub fn counters() -> (u64, u64, u64) {\n    (CALLS.load(Ordering::Relaxed), EARLY.load(Ordering::Relaxed), HIGH.load(Ordering::Relaxed).saturating_sub(LOW.load(Ordering::Relaxed)))\n}\n";
    s += &format!("/// Stack that the caller of a deep recursion arranges for itself.\npub const BIG_STACK: usize = {BIG_STACK};\n");
    s += "static LEVEL: AtomicU64 = AtomicU64::new(0);\n";
    s += "/// One per activation of a body of template E; gives the level back when it is dropped (return, unwinding).\n";
    s += "pub struct Level;\n";
    s += "impl Drop for Level {\n    fn drop(&mut self) {\n        LEVEL.fetch_sub(1, Ordering::Relaxed);\n    }\n}\n";
    s += "/// (guard, number of activations of the same kind below this one)\n";
    s += "pub fn enter() -> (Level, u64) {\n    (Level, LEVEL.fetch_add(1, Ordering::Relaxed))\n}\n";
    s += JOURNAL_ITEMS;
    s += "pub type Runner = fn(i64, i64, u32, bool) -> String;\n\n";
    let mut line = s.matches('\n').count();
    for (id, sh) in shapes {
        let m = shape_module(*id, sh, with_macro);
        let n = m.matches('\n').count();
        lines.push((*id, line + 1, line + n));
        line += n;
        s += &m;
    }
    s += "/// (id, grid, every call in a child process of its own, macro version, hand-written version)\n";
    s += "pub static SHAPES: &[(u64, usize, bool, Runner, Runner)] = &[\n";
    for (id, sh) in shapes {
        s += &format!("    ({id}, {}, {}, shape_{id}::run_macro, shape_{id}::run_hand),\n", sh.grid_arity(), sh.isolated());
    }
    s += "];\n";
    (s, lines)
}

/// A library crate's `src/lib.rs`; the line ranges are those of the file.
pub fn lib_file(shapes: &[(usize, Shape)], with_macro: bool) -> (String, Vec<(usize, usize, usize)>) {
    let head = format!("// GENERATED by eng_lambda (C20) - do not edit\n{ALLOW}");
    let off = head.matches('\n').count();
    let (body, lines) = lib_source(shapes, with_macro);
    (head + &body, lines.into_iter().map(|(id, a, b)| (id, a + off, b + off)).collect())
}

/// The driver: prints one JSON line per shape with id >= argv[1] (default 0), in the order of the ids.
/// `parts` = paths of the crates / modules that hold the shapes.
/// Shapes marked `isolated` (the execution-environment family) are not run in this process: for every driver
/// tuple the driver starts ITSELF again as a child process (`--one <id> <hand|macro> <tuple index>`), first for
/// the hand-written version, then for the macro version, and takes the child's output as the result; a child that
/// is killed (stack overflow: SIGABRT / SIGSEGV) gives the result `DIED(..)`.
pub fn main_source(parts: &[String], thorough: bool) -> String {
    let mut s = String::new();
    s += "type Tuple = (i64, i64, u32, bool);\ntype Runner = fn(i64, i64, u32, bool) -> String;\ntype Counters = fn() -> (u64, u64, u64);\n\n";
    for nargs in 0..=GRID_ENV {
        let g = grid(thorough, nargs);
        s += &format!("static GRID_{nargs}: &[Tuple] = &[\n");
        for t in &g {
            s += &format!("    ({}, {}, {}, {}),\n", t.0, t.1, t.2, t.3);
        }
        s += "];\n";
    }
    s += &format!("static GRIDS: [&[Tuple]; {}] = [{}];\n", GRID_ENV + 1, (0..=GRID_ENV).map(|n| format!("GRID_{n}")).collect::<Vec<_>>().join(", "));
    s += "\nfn shapes() -> Vec<(u64, usize, bool, Runner, Runner, Counters)> {\n    let mut v: Vec<(u64, usize, bool, Runner, Runner, Counters)> = vec![];\n";
    for p in parts {
        s += &format!("    v.extend({p}::SHAPES.iter().map(|&(id, n, iso, m, h)| (id, n, iso, m, h, {p}::counters as Counters)));\n");
    }
    s += "    v.sort_by_key(|e| e.0);\n    v\n}\n\n";
    s += "/// activations of the temporaries family that found, on entry, (a guard alive, the RefCell borrowed, a mutex held)\n";
    s += "fn journal_entries() -> (u64, u64, u64) {\n    let mut t = (0, 0, 0);\n";
    for p in parts {
        s += &format!("    let e = {p}::entries();\n    t = (t.0 + e.0, t.1 + e.1, t.2 + e.2);\n");
    }
    s += "    t\n}\n\n";
    s += r#"fn run_one(f: Runner, t: Tuple) -> String {
    let (a1, a2, a3, a4) = t;
    match std::panic::catch_unwind(move || f(a1, a2, a3, a4)) {
        Ok(s) => s,
        Err(_) => "PANIC".to_string(),
    }
}

/// (results, body executions, early returns, largest stack span of one run)
fn run_all(f: Runner, grid: &[Tuple], counters: Counters) -> (Vec<String>, u64, u64, u64) {
    let (calls, early, _) = counters();
    let out = grid.iter().map(|&t| run_one(f, t)).collect();
    let after = counters();
    (out, after.0 - calls, after.1 - early, after.2)
}

/// The same with a child process per tuple.
fn run_all_isolated(id: u64, which: &str, grid: &[Tuple]) -> (Vec<String>, u64, u64, u64) {
    let exe = std::env::current_exe().expect("current_exe");
    let (mut out, mut calls, mut early, mut span) = (vec![], 0, 0, 0);
    for k in 0..grid.len() {
        let child = std::process::Command::new(&exe)
            .args(["--one", &id.to_string(), which, &k.to_string()])
            .stdin(std::process::Stdio::null())
            .stderr(std::process::Stdio::null())
            .output()
            .expect("cannot start a child process");
        let text = String::from_utf8_lossy(&child.stdout).to_string();
        if !child.status.success() {
            use std::os::unix::process::ExitStatusExt;
            out.push(match child.status.signal() {
                Some(sig) => format!("DIED(signal {sig})"),
                None => format!("DIED(exit code {:?})", child.status.code()),
            });
            continue;
        }
        let (head, result) = text.split_once('\n').expect("child output");
        let c: Vec<u64> = head.split(' ').map(|x| x.parse().expect("child counters")).collect();
        calls += c[0];
        early += c[1];
        span = span.max(c[2]);
        out.push(result.to_string());
    }
    (out, calls, early, span)
}

fn quote(v: &[String]) -> String {
    // the strings are Debug renderings of integers, vectors of integers, unit and ASCII strings
    let q: Vec<String> = v.iter().map(|s| format!("\"{}\"", s.replace('\\', "\\\\").replace('"', "\\\""))).collect();
    format!("[{}]", q.join(","))
}

fn main() {
    std::panic::set_hook(Box::new(|_| {}));
    let argv: Vec<String> = std::env::args().collect();
    if argv.get(1).map(|a| a.as_str()) == Some("--one") {
        // child: one version of one shape on one tuple; "<calls> <early> <span>" and the result
        let id: u64 = argv[2].parse().expect("id");
        let k: usize = argv[4].parse().expect("tuple index");
        let (_, nargs, _, m, h, counters) = shapes().into_iter().find(|e| e.0 == id).expect("no such shape");
        let r = run_one(if argv[3] == "macro" { m } else { h }, GRIDS[nargs][k]);
        let (calls, early, span) = counters();
        print!("{calls} {early} {span}\n{r}");
        return;
    }
    let from: u64 = argv.get(1).and_then(|s| s.parse().ok()).unwrap_or(0);
    for (id, nargs, isolated, m, h, counters) in shapes() {
        if id < from {
            continue;
        }
        let grid = GRIDS[nargs];
        // announce before running, so that a crash (stack overflow) is attributable to a shape
        println!("{{\"begin\":{}}}", id);
        // the hand-written version first: whether IT gets through is known before the macro version is tried
        let ((rh, ch, eh, sh), (rm, cm, em, sm)) = if isolated {
            let hand = run_all_isolated(id, "hand", grid);
            (hand, run_all_isolated(id, "macro", grid))
        } else {
            let mac = run_all(m, grid, counters);
            (run_all(h, grid, counters), mac)
        };
        println!(
            "{{\"id\":{},\"macro\":{},\"hand\":{},\"calls_macro\":{},\"calls_hand\":{},\"early_macro\":{},\"early_hand\":{},\"span_macro\":{},\"span_hand\":{}}}",
            id,
            quote(&rm),
            quote(&rh),
            cm,
            ch,
            em,
            eh,
            sm,
            sh
        );
    }
    let e = journal_entries();
    println!("{{\"journal_entries\":[{},{},{}]}}", e.0, e.1, e.2);
    println!("{{\"done\":true}}");
}
"#;
    s
}

/// The binary's `src/main.rs`.
pub fn main_file(lib_names: &[String], thorough: bool) -> String {
    format!("// GENERATED by eng_lambda (C20) - do not edit\n{ALLOW}{}", main_source(lib_names, thorough))
}

/// A complete single-file program (shape modules and driver in one crate), used where a shape is compiled on
/// its own with rustc.  `with_macro = false` gives the control variant in which no `rec_lambda!` invocation
/// occurs (same hand-written functions and driver).
pub fn program(shapes: &[(usize, Shape)], thorough: bool, with_macro: bool) -> String {
    let (lib, _) = lib_source(shapes, with_macro);
    format!("// GENERATED by eng_lambda (C20) - do not edit\n{ALLOW}mod part {{\n{lib}}}\n\n{}", main_source(&["part".to_string()], thorough))
}

const PROFILES: &str = r#"[profile.release]
opt-level = 0
debug = false
incremental = false
codegen-units = 16
overflow-checks = false
debug-assertions = false
panic = "unwind"

# the same with what `cargo build` / `cargo test` switch on by default; `cfg(debug_assertions)` inside a
# macro_rules! macro is evaluated in the crate that invokes it, i.e. in these packages
[profile.dbg]
inherits = "release"
overflow-checks = true
debug-assertions = true
"#;

/// Manifest of the binary = root of the generated workspace (standalone: not a member of /verif/harness's).
pub fn root_cargo_toml(pkg_name: &str, lib_names: &[String]) -> String {
    let members: Vec<String> = lib_names.iter().map(|l| format!("\"{l}\"")).collect();
    let deps: Vec<String> = lib_names.iter().map(|l| format!("{l} = {{ path = \"{l}\" }}\n")).collect();
    format!(
        "# GENERATED by eng_lambda (C20)\n[package]\nname = \"{pkg_name}\"\nversion = \"0.0.0\"\nedition = \"2021\"\npublish = false\n\n[workspace]\nmembers = [{}]\n\n[dependencies]\n{}\n{PROFILES}",
        members.join(", "),
        deps.concat()
    )
}

/// Manifest of one library of shapes.
pub fn lib_cargo_toml(lib_name: &str, crate_path: &str) -> String {
    format!(
        "# GENERATED by eng_lambda (C20)\n[package]\nname = \"{lib_name}\"\nversion = \"0.0.0\"\nedition = \"2021\"\npublish = false\n\n[dependencies]\nrlib_lambda = {{ path = \"{crate_path}\" }}\n"
    )
}
