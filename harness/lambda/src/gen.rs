//! Program generator for C20: one `rec_lambda!` invocation and one hand-written recursive `fn` per shape,
//! both with the SAME body text (only the spelling of the recursive call differs: `f!(e1, e2)` /
//! `f!(e1, e2,)` in the macro version, `hand(e1, e2, <captures in written order>)` in the hand version).

use serde::{Deserialize, Serialize};

#[derive(Clone, Debug, PartialEq, Eq, Serialize, Deserialize)]
pub struct Shape {
    /// captures in the order written in the invocation; true = `&mut`, false = `&`
    pub caps: Vec<bool>,
    /// number of lambda arguments, 1..=4 (types i64, i64, u32, bool)
    pub nargs: usize,
    /// `-> i64` present
    pub ret: bool,
    /// recursive calls written `f!(a, b,)`
    pub trailing: bool,
    /// body template: 'A' two recursive calls, order chosen by a branch on the first argument;
    /// 'B' three recursive calls with early returns; 'C' nested call, calls in a loop and in a match arm;
    /// 'D' argument expressions with effects: a recursive call nested in an argument of a recursive call
    /// (also as a statement of a block argument when there is no return value), arguments that are blocks
    /// mutating every mutable capture before yielding their value, and an argument computed from a value
    /// popped off a mutable Vec capture
    pub body: char,
}

pub const ARG_TYPES: [&str; 4] = ["i64", "i64", "u32", "bool"];
pub type Tuple = (i64, i64, u32, bool);

impl Shape {
    pub fn descriptor(&self) -> String {
        let caps = if self.caps.is_empty() {
            "-".to_string()
        } else {
            self.caps.iter().map(|&m| if m { "&mut" } else { "&" }).collect::<Vec<_>>().join(",")
        };
        format!(
            "caps={}/args={}/ret={}/call={}/body={}",
            caps,
            self.nargs,
            if self.ret { "i64" } else { "none" },
            if self.trailing { "trailing_comma" } else { "plain" },
            self.body
        )
    }
    pub fn n_mut(&self) -> usize {
        self.caps.iter().filter(|&&m| m).count()
    }
    /// Nothing but termination can be observed: no return value and no mutable capture.
    pub fn trivially_observable(&self) -> bool {
        !self.ret && self.n_mut() == 0
    }
    fn cap_name(&self, p: usize) -> String {
        format!("{}{}", if self.caps[p] { "m" } else { "s" }, p)
    }
    /// Type of the capture at written position p (without the reference).  Shared captures alternate
    /// i64 / Vec<i64>, mutable ones Vec<i64> (a log) / i64 (a counter), counted within their own kind, so
    /// that both "same type, different value" and "different type" neighbours occur.
    fn cap_is_vec(&self, p: usize) -> bool {
        let k = self.caps[..p].iter().filter(|&&m| m == self.caps[p]).count();
        if self.caps[p] {
            k % 2 == 0
        } else {
            k % 2 == 1
        }
    }
    fn cap_type(&self, p: usize) -> &'static str {
        if self.cap_is_vec(p) {
            "Vec<i64>"
        } else {
            "i64"
        }
    }
    fn cap_init(&self, p: usize) -> String {
        let p = p as i64;
        match (self.caps[p as usize], self.cap_is_vec(p as usize)) {
            (false, false) => format!("{}", 100 + 7 * p),
            (false, true) => format!("vec![{}, {}, 5]", p + 1, 2 * p + 3),
            (true, true) => format!("vec![{}]", 1000 + p),
            (true, false) => format!("{}", 10 * p + 1),
        }
    }
}

/// `plan` = (body template, argument counts it is emitted with).  Simplest first: body template, then
/// number of captures, capture pattern (`&` before `&mut`, leftmost position most significant), number of
/// arguments, return type absent before present, plain call before trailing comma.
pub fn enumerate(plan: &[(char, Vec<usize>)]) -> Vec<Shape> {
    let mut v = vec![];
    for (body, arities) in plan {
        let body = *body;
        for ncaps in 0..=4usize {
            for pat in 0..(1u32 << ncaps) {
                let caps: Vec<bool> = (0..ncaps).map(|i| (pat >> (ncaps - 1 - i)) & 1 == 1).collect();
                for &nargs in arities {
                    for ret in [false, true] {
                        for trailing in [false, true] {
                            v.push(Shape { caps: caps.clone(), nargs, ret, trailing, body });
                        }
                    }
                }
            }
        }
    }
    v
}

pub fn grid(thorough: bool, nargs: usize) -> Vec<Tuple> {
    let a1: Vec<i64> = if thorough { (0..=7).collect() } else { vec![0, 1, 2, 3, 4, 6] };
    let a2: Vec<i64> = if thorough { vec![-3, 0, 2] } else { vec![-3, 2] };
    let a3: Vec<u32> = if thorough { vec![0, 9, u32::MAX] } else { vec![0, 9] };
    let a4 = vec![false, true];
    let mut out = vec![];
    for &x1 in &a1 {
        for &x2 in if nargs >= 2 { &a2[..] } else { &[0i64][..] } {
            for &x3 in if nargs >= 3 { &a3[..] } else { &[0u32][..] } {
                for &x4 in if nargs >= 4 { &a4[..] } else { &[false][..] } {
                    out.push((x1, x2, x3, x4));
                }
            }
        }
    }
    out
}

pub fn tuple_text(t: &Tuple, nargs: usize) -> String {
    let all = [t.0.to_string(), t.1.to_string(), t.2.to_string(), t.3.to_string()];
    format!("({})", all[..nargs].join(","))
}

/// Argument expressions of the recursive-call sites (truncated to the shape's argument count).  The first
/// argument strictly decreases at every site, so the recursion is bounded.
fn site(n: usize, nargs: usize) -> Vec<String> {
    let s: [&str; 4] = match n {
        0 => ["a1 - 1", "a2.wrapping_add(1)", "a3.wrapping_add(1)", "!a4"],
        1 => ["a1 - 2", "a2.wrapping_mul(2)", "a3 ^ 5", "a4"],
        2 => ["a1 - 2", "a2.wrapping_sub(3)", "a3.wrapping_mul(3)", "!a4"],
        3 => ["a1 - 1", "a2 ^ 1", "a3 / 2", "a4"],
        4 => ["a1 - 3", "a2.wrapping_add(a1)", "a3 | 1", "a4 ^ (a1 == 3)"],
        // inside `for i in 0..2i64`
        5 => ["a1 - 1 - i", "a2.wrapping_add(i)", "a3.wrapping_add(i as u32)", "a4 ^ (i == 1)"],
        _ => unreachable!(),
    };
    s[..nargs].iter().map(|x| x.to_string()).collect()
}

struct BodyGen<'a> {
    sh: &'a Shape,
    /// Some(name) = hand-written version calling `name(args…, captures…)`; None = macro version `f!(…)`
    hand: Option<&'a str>,
}

impl<'a> BodyGen<'a> {
    fn call_with(&self, args: Vec<String>) -> String {
        match self.hand {
            None => format!("f!({}{})", args.join(", "), if self.sh.trailing { "," } else { "" }),
            Some(name) => {
                let mut all = args;
                for p in 0..self.sh.caps.len() {
                    all.push(self.sh.cap_name(p));
                }
                format!("{}({})", name, all.join(", "))
            }
        }
    }
    fn call(&self, n: usize) -> String {
        self.call_with(site(n, self.sh.nargs))
    }
    /// Mutate every mutable capture with the value `e` (order-sensitive updates: push / x*5+e).
    fn mutate(&self, e: &str, ind: &str) -> String {
        let mut s = String::new();
        for p in 0..self.sh.caps.len() {
            if !self.sh.caps[p] {
                continue;
            }
            let n = self.sh.cap_name(p);
            if self.sh.cap_is_vec(p) {
                s += &format!("{ind}{n}.push(({e}).wrapping_add({p}));\n");
            } else {
                s += &format!("{ind}*{n} = {n}.wrapping_mul(5).wrapping_add({e}).wrapping_add({p});\n");
            }
        }
        s
    }
    /// The argument expression `{ <mutate every mutable capture with e>; value }`.
    fn effect_arg(&self, e: &str, value: &str, ind: &str) -> String {
        let inner = format!("{ind}    ");
        format!("{{\n{}{inner}{value}\n{ind}}}", self.mutate(e, &inner))
    }
    /// 0 or 1, popped off the first mutable Vec capture when there is one (the first mutable capture of a
    /// shape always is a Vec), else computed from the arguments.
    fn popped_bit(&self) -> String {
        match (0..self.sh.caps.len()).find(|&p| self.sh.caps[p] && self.sh.cap_is_vec(p)) {
            Some(p) => format!("{}.pop().unwrap_or(3).rem_euclid(2)", self.sh.cap_name(p)),
            None => "key.rem_euclid(2)".to_string(),
        }
    }
    /// key from all arguments, acc from key and every shared capture.
    fn prologue(&self, ind: &str) -> String {
        let mut s = format!("{ind}crate::tick();\n");
        let mut key = "a1.wrapping_mul(31)".to_string();
        if self.sh.nargs >= 2 {
            key += ".wrapping_add(a2.wrapping_mul(7))";
        }
        if self.sh.nargs >= 3 {
            key += ".wrapping_add((a3 as i64).wrapping_mul(3))";
        }
        if self.sh.nargs >= 4 {
            key += ".wrapping_add(a4 as i64)";
        }
        s += &format!("{ind}let key: i64 = {key};\n{ind}let mut acc: i64 = key;\n");
        for p in 0..self.sh.caps.len() {
            if self.sh.caps[p] {
                continue;
            }
            let n = self.sh.cap_name(p);
            if self.sh.cap_is_vec(p) {
                s += &format!("{ind}acc = acc.wrapping_mul(3).wrapping_add({n}[a1.rem_euclid({n}.len() as i64) as usize]);\n");
            } else {
                s += &format!("{ind}acc = acc.wrapping_mul(3).wrapping_add(*{n});\n");
            }
        }
        s
    }
    fn ret(&self, e: &str) -> String {
        if self.sh.ret {
            format!("return {e};")
        } else {
            "return;".to_string()
        }
    }

    fn body(&self, ind: &str) -> String {
        let i1 = format!("{ind}    ");
        let i2 = format!("{ind}        ");
        let r = self.sh.ret;
        let mut s = self.prologue(&i1);
        match self.sh.body {
            'A' => {
                s += &self.mutate("acc", &i1);
                s += &format!("{i1}if a1 <= 0 {{\n{i2}{}\n{i1}}}\n", self.ret("acc"));
                s += &format!("{i1}if a1 % 2 == 0 {{\n");
                if r {
                    s += &format!("{i2}let x = {};\n{i2}let y = {};\n", self.call(0), self.call(1));
                    s += &self.mutate("x.wrapping_sub(y)", &i2);
                    s += &format!("{i2}x.wrapping_mul(3).wrapping_add(y).wrapping_add(acc)\n");
                } else {
                    s += &format!("{i2}{};\n{i2}{};\n", self.call(0), self.call(1));
                    s += &self.mutate("key ^ 1", &i2);
                }
                s += &format!("{i1}}} else {{\n");
                if r {
                    s += &format!("{i2}let y = {};\n{i2}let x = {};\n", self.call(2), self.call(3));
                    s += &self.mutate("x ^ y", &i2);
                    s += &format!("{i2}x.wrapping_sub(y.wrapping_mul(2)).wrapping_add(acc)\n");
                } else {
                    s += &format!("{i2}{};\n{i2}{};\n", self.call(2), self.call(3));
                    s += &self.mutate("key ^ 2", &i2);
                }
                s += &format!("{i1}}}\n");
            }
            'B' => {
                s += &format!("{i1}if a1 <= 0 {{\n");
                s += &self.mutate("acc ^ 9", &i2);
                s += &format!("{i2}{}\n{i1}}}\n", self.ret("acc"));
                // early return before any mutation
                s += &format!("{i1}if a1 == 1 && key.rem_euclid(2) == 0 {{\n{i2}{}\n{i1}}}\n", self.ret("acc ^ 0x55"));
                s += &self.mutate("acc", &i1);
                if r {
                    s += &format!("{i1}let x = {};\n", self.call(0));
                    s += &format!("{i1}if x.rem_euclid(3) == 0 {{\n");
                    s += &self.mutate("77i64", &i2);
                    s += &format!("{i2}return x.wrapping_add(1);\n{i1}}}\n");
                    s += &format!("{i1}let y = {};\n{i1}let z = {};\n", self.call(1), self.call(4));
                    s += &self.mutate("x ^ y.wrapping_mul(3) ^ z.wrapping_mul(7)", &i1);
                    s += &format!("{i1}x.wrapping_add(y).wrapping_sub(z).wrapping_add(acc)\n");
                } else {
                    s += &format!("{i1}{};\n", self.call(0));
                    s += &format!("{i1}if key.rem_euclid(3) == 0 {{\n");
                    s += &self.mutate("77i64", &i2);
                    s += &format!("{i2}return;\n{i1}}}\n");
                    s += &format!("{i1}{};\n{i1}{};\n", self.call(1), self.call(4));
                    s += &self.mutate("key ^ 3", &i1);
                }
            }
            'C' => {
                s += &self.mutate("acc", &i1);
                s += &format!("{i1}if a1 <= 0 {{\n{i2}{}\n{i1}}}\n", self.ret("acc"));
                if r {
                    // a recursive call as (part of) an argument of a recursive call
                    let inner = self.call(1);
                    let mut outer = site(2, self.sh.nargs);
                    outer[0] = format!("{inner}.rem_euclid(2) + a1 - 3");
                    s += &format!("{i1}let x = {};\n{i1}let mut t = x;\n", self.call_with(outer));
                    s += &format!("{i1}for i in 0..2i64 {{\n{i2}t = t.wrapping_mul(3).wrapping_add({});\n", self.call(5));
                    s += &self.mutate("t", &i2);
                    s += &format!("{i1}}}\n");
                    s += &format!("{i1}let w = match a1 % 3 {{\n{i2}0 => {},\n{i2}1 => {{\n", self.call(4));
                    s += &self.mutate("5i64", &format!("{i2}    "));
                    s += &format!("{i2}    0\n{i2}}}\n{i2}_ => -1,\n{i1}}};\n");
                    s += &format!("{i1}t.wrapping_add(w)\n");
                } else {
                    s += &format!("{i1}{};\n", self.call(1));
                    s += &format!("{i1}for i in 0..2i64 {{\n{i2}{};\n", self.call(5));
                    s += &self.mutate("key ^ i", &i2);
                    s += &format!("{i1}}}\n");
                    s += &format!("{i1}match a1 % 3 {{\n{i2}0 => {},\n{i2}1 => {{\n", self.call(4));
                    s += &self.mutate("5i64", &format!("{i2}    "));
                    s += &format!("{i2}}}\n{i2}_ => {{}}\n{i1}}}\n");
                }
            }
            'D' => {
                let n = self.sh.nargs;
                s += &self.mutate("acc", &i1);
                s += &format!("{i1}if a1 <= 0 {{\n{i2}{}\n{i1}}}\n", self.ret("acc"));
                // inner call: its first argument is a block that mutates the mutable captures
                let mut inner = site(1, n);
                inner[0] = self.effect_arg("key ^ 1", "a1 - 2", &i2);
                let inner = self.call_with(inner);
                // outer call: the inner call is (part of) its first argument; its last argument is a block
                // that mutates the mutable captures (the same argument when there is only one)
                let mut outer = site(2, n);
                let first = if r {
                    format!("{inner}.rem_euclid(2) + a1 - 3")
                } else {
                    format!("{{\n{i2}    {inner};\n{}{i2}    a1 - 2\n{i2}}}", self.mutate("key ^ 4", &format!("{i2}    ")))
                };
                if n == 1 {
                    outer[0] = self.effect_arg("key ^ 2", &first, &i2);
                } else {
                    outer[0] = first;
                    outer[n - 1] = self.effect_arg("key ^ 2", &outer[n - 1].clone(), &i2);
                }
                // a call whose first argument depends on a value popped off a mutable capture
                let mut popping = site(3, n);
                popping[0] = format!("a1 - 1 - {}", self.popped_bit());
                if r {
                    s += &format!("{i1}let x = {};\n", self.call_with(outer));
                    s += &self.mutate("x", &i1);
                    s += &format!("{i1}let y = {};\n", self.call_with(popping));
                    s += &self.mutate("x ^ y", &i1);
                    s += &format!("{i1}x.wrapping_mul(3).wrapping_add(y).wrapping_add(acc)\n");
                } else {
                    s += &format!("{i1}{};\n", self.call_with(outer));
                    s += &self.mutate("key ^ 3", &i1);
                    s += &format!("{i1}{};\n", self.call_with(popping));
                    s += &self.mutate("key ^ 5", &i1);
                }
            }
            other => panic!("unknown body template {other}"),
        }
        s
    }
}

/// The `rec_lambda!(…)` invocation of a shape, as source text (an expression).
pub fn macro_invocation(sh: &Shape, ind: &str) -> String {
    let caps: Vec<String> =
        (0..sh.caps.len()).map(|p| format!("{}: {}{}", sh.cap_name(p), if sh.caps[p] { "&mut " } else { "&" }, sh.cap_type(p))).collect();
    let args: Vec<String> = (0..sh.nargs).map(|i| format!("a{}: {}", i + 1, ARG_TYPES[i])).collect();
    let i1 = format!("{ind}    ");
    let mut s = format!("rec_lambda!(f, |{}| {{\n", caps.join(", "));
    s += &format!("{i1}|{}|{} {{\n", args.join(", "), if sh.ret { " -> i64" } else { "" });
    s += &BodyGen { sh, hand: None }.body(&i1);
    s += &format!("{i1}}}\n{ind}}})");
    s
}

/// The argument lists (text between the parentheses) of every `f!(…)` in a macro invocation, nested ones
/// included.  Used for the non-vacuity facts "a recursive call occurs inside an argument of a recursive
/// call" and "an argument expression mutates a mutable capture".
pub fn call_argument_lists(invocation: &str) -> Vec<&str> {
    let b = invocation.as_bytes();
    let mut out = vec![];
    let mut from = 0;
    while let Some(k) = invocation[from..].find("f!(") {
        let open = from + k + 2;
        let mut depth = 0usize;
        let mut end = b.len();
        for (i, &c) in b.iter().enumerate().skip(open) {
            match c {
                b'(' | b'{' | b'[' => depth += 1,
                b')' | b'}' | b']' => {
                    depth -= 1;
                    if depth == 0 {
                        end = i;
                        break;
                    }
                }
                _ => {}
            }
        }
        out.push(&invocation[open + 1..end]);
        from = open + 1;
    }
    out
}
pub fn has_nested_call_argument(invocation: &str) -> bool {
    call_argument_lists(invocation).iter().any(|a| a.contains("f!("))
}
/// `mutate` writes `name.push(` / `*name = `; `popped_bit` writes `name.pop()`; mutable captures are named m<p>
pub fn has_mutating_argument(invocation: &str) -> bool {
    call_argument_lists(invocation).iter().any(|a| {
        (0..4).any(|p| a.contains(&format!("m{p}.push(")) || a.contains(&format!("m{p}.pop()")) || a.contains(&format!("*m{p} = ")))
    })
}

/// The equivalent hand-written recursive function: arguments, then the captures in written order.
pub fn hand_fn(sh: &Shape, name: &str, ind: &str) -> String {
    let mut params: Vec<String> = (0..sh.nargs).map(|i| format!("a{}: {}", i + 1, ARG_TYPES[i])).collect();
    for p in 0..sh.caps.len() {
        params.push(format!("{}: {}{}", sh.cap_name(p), if sh.caps[p] { "&mut " } else { "&" }, sh.cap_type(p)));
    }
    let mut s = format!("{ind}fn {name}({}){} {{\n", params.join(", "), if sh.ret { " -> i64" } else { "" });
    // the body text is generated one level shallower than in the closure; indentation is cosmetic
    s += &BodyGen { sh, hand: Some(name) }.body(ind);
    s += &format!("{ind}}}\n");
    s
}

fn shape_module(id: usize, sh: &Shape, with_macro: bool) -> String {
    let n = sh.nargs;
    let mut s = format!("// shape {id}: {}\nmod shape_{id} {{\n    use rlib_lambda::rec_lambda;\n\n", sh.descriptor());
    s += &hand_fn(sh, "hand", "    ");
    let decl = |s: &mut String| {
        for p in 0..sh.caps.len() {
            *s += &format!(
                "        let {}{}: {} = {};\n",
                if sh.caps[p] { "mut " } else { "" },
                sh.cap_name(p),
                sh.cap_type(p),
                sh.cap_init(p)
            );
        }
    };
    let show = {
        let mut parts = vec!["r1".to_string(), "r2".to_string()];
        for p in 0..sh.caps.len() {
            parts.push(format!("&{}", sh.cap_name(p)));
        }
        format!("        format!(\"{{:?}}\", ({}))\n", parts.join(", "))
    };
    let first: Vec<String> = (1..=n).map(|i| format!("a{i}")).collect();
    let mut second = first.clone();
    second[0] = "a1 - 1".to_string();

    // (a) the macro version: the closure is created once and called twice
    s += "\n    pub fn run_macro(a1: i64, a2: i64, a3: u32, a4: bool) -> String {\n";
    decl(&mut s);
    s += "        let (r1, r2) = {\n";
    if with_macro {
        s += &format!("            let mut lam = {};\n", macro_invocation(sh, "            "));
    } else {
        // control variant (used only to tell a generator defect from a macro defect): an ordinary closure
        // around the hand-written function, no macro involved
        let ps: Vec<String> = (0..n).map(|i| format!("a{}: {}", i + 1, ARG_TYPES[i])).collect();
        let mut all: Vec<String> = (1..=n).map(|i| format!("a{i}")).collect();
        for p in 0..sh.caps.len() {
            all.push(format!("{}{}", if sh.caps[p] { "&mut " } else { "&" }, sh.cap_name(p)));
        }
        s += &format!("            let mut lam = |{}| hand({});\n", ps.join(", "), all.join(", "));
    }
    s += &format!("            let r1 = lam({});\n            let r2 = lam({});\n            (r1, r2)\n        }};\n", first.join(", "), second.join(", "));
    s += &show;
    s += "    }\n";

    // (b) the hand-written version
    let caps_pass: Vec<String> = (0..sh.caps.len()).map(|p| format!("{}{}", if sh.caps[p] { "&mut " } else { "&" }, sh.cap_name(p))).collect();
    let with = |a: &Vec<String>| {
        let mut all = a.clone();
        all.extend(caps_pass.iter().cloned());
        all.join(", ")
    };
    s += "\n    pub fn run_hand(a1: i64, a2: i64, a3: u32, a4: bool) -> String {\n";
    decl(&mut s);
    s += &format!("        let r1 = hand({});\n        let r2 = hand({});\n", with(&first), with(&second));
    s += &show;
    s += "    }\n}\n\n";
    s
}

/// Complete `src/main.rs` of a generated package.  `shapes` = (id, shape); the binary prints one JSON line
/// per shape with id >= argv[1] (default 0), in the given order.  `with_macro = false` gives the control
/// variant in which no `rec_lambda!` invocation occurs (same hand-written functions and driver).
pub fn program(shapes: &[(usize, Shape)], thorough: bool, with_macro: bool) -> String {
    program_lines(shapes, thorough, with_macro).0
}

/// As `program`, plus the 1-based line range (first, last) of every shape's module, used to attribute
/// compiler diagnostics to shapes.
pub fn program_lines(shapes: &[(usize, Shape)], thorough: bool, with_macro: bool) -> (String, Vec<(usize, usize, usize)>) {
    let mut lines = vec![];
    let mut s = String::new();
    s += "// GENERATED by eng_lambda (C20) - do not edit\n";
    s += "#![allow(warnings)]\n#![allow(unused, unused_mut, unused_variables, unused_assignments, dead_code, unreachable_code, clippy::all)]\n\n";
    s += "use std::sync::atomic::{AtomicU64, Ordering};\n";
    s += "static CALLS: AtomicU64 = AtomicU64::new(0);\n";
    s += "pub fn tick() {\n    CALLS.fetch_add(1, Ordering::Relaxed);\n}\n\n";
    s += "type Tuple = (i64, i64, u32, bool);\ntype Runner = fn(i64, i64, u32, bool) -> String;\n\n";
    for nargs in 1..=4 {
        let g = grid(thorough, nargs);
        s += &format!("static GRID_{nargs}: &[Tuple] = &[\n");
        for t in &g {
            s += &format!("    ({}, {}, {}, {}),\n", t.0, t.1, t.2, t.3);
        }
        s += "];\n";
    }
    s += "\n";
    let mut line = s.matches('\n').count();
    for (id, sh) in shapes {
        let m = shape_module(*id, sh, with_macro);
        let n = m.matches('\n').count();
        lines.push((*id, line + 1, line + n));
        line += n;
        s += &m;
    }
    s += "static SHAPES: &[(u64, usize, Runner, Runner)] = &[\n";
    for (id, sh) in shapes {
        s += &format!("    ({id}, {}, shape_{id}::run_macro, shape_{id}::run_hand),\n", sh.nargs);
    }
    s += "];\n\n";
    s += r#"fn run_all(f: Runner, grid: &[Tuple]) -> (Vec<String>, u64) {
    let before = CALLS.load(Ordering::Relaxed);
    let mut out = vec![];
    for &(a1, a2, a3, a4) in grid {
        out.push(match std::panic::catch_unwind(move || f(a1, a2, a3, a4)) {
            Ok(s) => s,
            Err(_) => "PANIC".to_string(),
        });
    }
    (out, CALLS.load(Ordering::Relaxed) - before)
}

fn quote(v: &[String]) -> String {
    // the strings are Debug renderings of integers, vectors of integers and unit: nothing to escape
    let q: Vec<String> = v.iter().map(|s| format!("\"{}\"", s)).collect();
    format!("[{}]", q.join(","))
}

fn main() {
    std::panic::set_hook(Box::new(|_| {}));
    let from: u64 = std::env::args().nth(1).and_then(|s| s.parse().ok()).unwrap_or(0);
    for &(id, nargs, m, h) in SHAPES {
        if id < from {
            continue;
        }
        let grid = match nargs {
            1 => GRID_1,
            2 => GRID_2,
            3 => GRID_3,
            _ => GRID_4,
        };
        // announce before running, so that a crash (stack overflow) is attributable to a shape
        println!("{{\"begin\":{}}}", id);
        let (rm, cm) = run_all(m, grid);
        let (rh, ch) = run_all(h, grid);
        println!(
            "{{\"id\":{},\"macro\":{},\"hand\":{},\"calls_macro\":{},\"calls_hand\":{}}}",
            id,
            quote(&rm),
            quote(&rh),
            cm,
            ch
        );
    }
    println!("{{\"done\":true}}");
}
"#;
    (s, lines)
}

pub fn cargo_toml(pkg_name: &str, crate_path: &str) -> String {
    format!(
        r#"# GENERATED by eng_lambda (C20)
[package]
name = "{pkg_name}"
version = "0.0.0"
edition = "2021"
publish = false

# standalone: not a member of /verif/harness's workspace
[workspace]

[dependencies]
rlib_lambda = {{ path = "{crate_path}" }}

[profile.release]
opt-level = 0
debug = false
incremental = false
codegen-units = 16
overflow-checks = false
debug-assertions = false
panic = "unwind"
"#
    )
}
