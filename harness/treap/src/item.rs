//! The harness's lazy-propagation item: value in Z3, subtree size, aggregate = word of the subtree's values
//! (a Vec: the item owns heap memory), pending modification.  Shared with the Miri side crate `miri/`, which
//! includes this file.

use rlib_treap::{TreapItem, TreapItemSized};

/// A lazy modification: the element at position i (0-based) of the subtree it is attached to becomes
/// a*x + b + d*i (mod 3).  With d = 0 these are the affine maps (add, assign); with d != 0 the modification
/// depends on the POSITION ("add an arithmetic progression"), so pushing it treats the two children
/// differently: the left child continues at position 0, the right child at position left_size + 1.
pub type Tag = (u8, u8, u8);

/// `I` = type of the element ids: u8 in the exploration (at most 6 nodes), u32 in the directed shape sweep
#[derive(Clone, Debug, PartialEq)]
pub struct It<I = u8> {
    pub id: I,
    pub val: u8,
    pub size: u32,
    /// size of the left subtree = position of `val` inside this subtree
    pub lsize: u32,
    pub agg: Vec<u8>,
    /// pending for the children (already applied to `val` and `agg`), positions counted from the first
    /// element of THIS subtree; identity (1, 0, 0)
    pub tag: Tag,
}

pub const IDT: Tag = (1, 0, 0);
/// add 1, assign 0 (they do not commute), add the progression 1 + i (asymmetric push)
pub const MODS: [Tag; 3] = [(1, 1, 0), (0, 0, 0), (1, 1, 1)];
pub const MOD_NAMES: [&str; 3] = ["add 1", "assign 0", "add 1+i to the i-th element"];
pub const AFFINE: &[u8] = &[0, 1];
pub const PROGRESSION: &[u8] = &[2, 1];

/// x at position i under m
pub fn map_val(m: Tag, x: u8, i: usize) -> u8 {
    ((m.0 * x + m.1) as usize + m.2 as usize * (i % 3)) as u8 % 3
}

/// position by position x -> outer(inner(x)); both count positions from the same element
pub fn compose(outer: Tag, inner: Tag) -> Tag {
    ((outer.0 * inner.0) % 3, (outer.0 * inner.1 + outer.1) % 3, (outer.0 * inner.2 + outer.2) % 3)
}

/// m as seen from the element at position k: positions counted from there
pub fn shift(m: Tag, k: usize) -> Tag {
    (m.0, map_val((1, m.1, m.2), 0, k), m.2)
}

impl<I> It<I> {
    pub fn new(id: I, val: u8) -> It<I> {
        It { id, val, size: 1, lsize: 0, agg: vec![val], tag: IDT }
    }
    /// `m` counts positions from the first element of this subtree
    pub fn apply(&mut self, m: Tag) {
        self.val = map_val(m, self.val, self.lsize as usize);
        for (k, x) in self.agg.iter_mut().enumerate() {
            *x = map_val(m, *x, k);
        }
        // a node without children has nobody to forward the modification to
        if self.size >= 2 {
            self.tag = compose(m, self.tag);
        }
    }
}

impl<I> TreapItem for It<I> {
    fn update(&mut self, l: Option<&Self>, r: Option<&Self>) {
        self.lsize = l.map_or(0, |x| x.size);
        self.size = 1 + self.lsize + r.map_or(0, |x| x.size);
        let mut agg = l.map_or(vec![], |x| x.agg.clone());
        agg.push(self.val);
        if let Some(r) = r {
            agg.extend_from_slice(&r.agg);
        }
        agg.truncate(32);
        self.agg = agg;
    }
    fn push(&mut self, l: Option<&mut Self>, r: Option<&mut Self>) {
        if self.tag != IDT {
            let t = self.tag;
            // the right child's elements come after the left child's and this node's own
            let before_right = l.as_ref().map_or(0, |x| x.size as usize) + 1;
            if let Some(l) = l {
                l.apply(t);
            }
            if let Some(r) = r {
                r.apply(shift(t, before_right));
            }
            self.tag = IDT;
        }
    }
}

impl<I> TreapItemSized for It<I> {
    fn size(&self) -> usize {
        self.size as usize
    }
}
