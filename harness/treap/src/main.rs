//! C03 / C16 — the real treap explored with priorities CHOSEN by the explorer.
//!
//! State: up to 3 live treaps over at most N nodes, one vector model per treap.  `priority` is a public
//! field and the code only compares priorities, so creating a node at every rank relative to the live
//! ones (strictly between, or tied with, existing levels) realises every weak ordering of priorities,
//! i.e. every tree shape.  After each action priorities are re-spaced to their ranks (order preserved).
//!
//! C03 judges the sequence semantics (split/merge/insert/remove/first/last/collect/size, aggregates,
//! lazy modifications applied exactly once and in order).  The item's lazy modifications are "add 1" and
//! "assign 0" over Z3 (they do not commute) and, in parts of their own, "add 1 + i to the i-th element of the
//! subtree": a modification that depends on the position, so that `push` has to treat the left and the right
//! child differently and `update` / `push` are judged on WHICH child they are handed in which slot.
//! C16 judges heap order in every state of the same exploration, plus a directed (not exhaustive) menu of
//! long deterministic histories through the real priority generator for the height bound: single-treap
//! orders, block concatenation, strided ownership of the creations by several treaps, insert/remove rhythms,
//! queues, insertions interleaved
//! with operations that create no node, regrowth after removals, and — each in a process of its own, so
//! that "the k-th thread of the process to create a node" is a deterministic notion — histories that
//! spread the node creations over several threads (every thread ordinal of a process building a treap;
//! chunks built on 2 … 1024 threads — started one after the other was joined, all kept alive, or next to a
//! few long-lived threads — and concatenated; nodes created round-robin by several threads; the workers of
//! all three also carrying thread names: one name for all, a name each, a name for every second one).
//!
//! C03 also has a directed (not exhaustive) part: trees of up to ~1000 nodes written down as struct literals
//! in systematic shape families (paths, zigzags, caterpillars, combs, balanced trees and mixes) with lazy
//! modifications pending at chosen nodes; every operation of the property is applied to them once, on
//! threads with a generous stack, and judged by the invariants of the exploration in linear time.
//!
//! C03 judges ownership as well (a vector owns its elements): before anything else, parts of their own run
//! the exploration and a family of the shape sweep with plain-integer elements whose destructor counts into a
//! per-history table (`Dr`, `DropSys`): 0 destructor runs for everything alive, exactly one for everything
//! that has left, after every action.  And one short history of the Vec-owning item runs under Miri (side
//! crate `miri/`), so that undefined behaviour in an unsafe corner is a verdict and not a crash.

mod item;

use item::*;
use rlib_treap::{Treap, TreapItem, TreapItemSized, TreapNode};
use serde::{Deserialize, Serialize};
use std::sync::atomic::{AtomicU64, Ordering};
use vcore::*;

// ---------------------------------------------------------------------------------------------

type Node = TreapNode<It>;

fn copy_node<T: Clone>(n: &Option<Box<TreapNode<T>>>) -> Option<Box<TreapNode<T>>> {
    n.as_ref().map(|b| Box::new(TreapNode { item: b.item.clone(), priority: b.priority, left: copy_node(&b.left), right: copy_node(&b.right) }))
}

/// A treap with the given root, without naming any other field the struct may have (only the public `root`
/// field is relied upon, so the engine keeps compiling if the crate adds private fields).
fn treap_of<T: TreapItem>(root: Option<Box<TreapNode<T>>>) -> Treap<T> {
    let mut t = Treap::new();
    t.root = root;
    t
}

fn copy_treap<T: Clone + TreapItem>(t: &Treap<T>) -> Treap<T> {
    treap_of(copy_node(&t.root))
}

/// `val >= 4` encodes "value val % 4, carrying a pending modification" (4..8: add 1, 8..12: the
/// progression): a consistent one-element subtree whose tag has nobody to go to.  A correct treap pushes a
/// node before it adopts children, which discards such a tag; one that does not would apply it to
/// neighbours it was never attached to.
fn make_item<I>(id: I, val: u8) -> It<I> {
    let mut it = It::new(id, val % 4);
    it.tag = match val / 4 {
        0 => IDT,
        1 => MODS[0],
        _ => MODS[2],
    };
    it
}

fn single(id: u8, val: u8, prio: u32) -> Treap<It> {
    // struct literal: no priority is drawn from the crate's generator
    treap_of(Some(Box::new(Node { item: make_item(id, val), priority: prio, left: None, right: None })))
}

fn for_each_node<T>(n: &Option<Box<TreapNode<T>>>, f: &mut dyn FnMut(&TreapNode<T>)) {
    if let Some(b) = n {
        f(b);
        for_each_node(&b.left, f);
        for_each_node(&b.right, f);
    }
}

fn for_each_node_mut<T>(n: &mut Option<Box<TreapNode<T>>>, f: &mut dyn FnMut(&mut TreapNode<T>)) {
    if let Some(b) = n {
        f(b);
        for_each_node_mut(&mut b.left, f);
        for_each_node_mut(&mut b.right, f);
    }
}

fn count(n: &Option<Box<Node>>) -> u32 {
    n.as_ref().map_or(0, |b| 1 + count(&b.left) + count(&b.right))
}

#[derive(Clone, Debug, Serialize, Deserialize)]
enum Act {
    Start,
    /// create a single-node treap; pc = priority choice in 1..=2L+1 (odd: strictly between levels, even: tie)
    New(u8, u8),
    Merge(u8, u8),
    SplitAt(u8, u8),
    SplitBy(u8, u8),
    /// split_by with a predicate on the element VALUE ("value is in this subset of {0,1,2}"), offered only
    /// where that predicate is prefix-monotone on the current sequence
    SplitByVal(u8, u8),
    InsertAt(u8, u8, u8, u8),
    RemoveAt(u8, u8),
    Apply(u8, u8),
    First(u8),
    Last(u8),
    Collect(u8),
    Size(u8),
    Root(u8),
    MergeEmpty(u8, bool),
}

struct St {
    slots: Vec<Treap<It>>,
    models: Vec<Vec<(u8, u8)>>,
}

impl Clone for St {
    fn clone(&self) -> Self {
        St { slots: self.slots.iter().map(copy_treap).collect(), models: self.models.clone() }
    }
}

#[derive(Clone, Copy, PartialEq)]
enum Mode {
    C03,
    C16,
}

struct Sys {
    max_nodes: usize,
    max_slots: usize,
    mode: Mode,
    vals: u8,
    /// also create nodes whose item carries a stale pending tag (`make_item`'s code of such a node)
    stale: Option<u8>,
    /// the lazy modifications of the alphabet (indices into MODS)
    mods: &'static [u8],
}

static CONTROLLED_DRAWS: AtomicU64 = AtomicU64::new(0);
static TIES_PREDICTED: AtomicU64 = AtomicU64::new(0);
static TIES_NOT_PREDICTABLE: AtomicU64 = AtomicU64::new(0);
static REDRAWS: AtomicU64 = AtomicU64::new(0);
static UNCONTROLLED_DRAWS: AtomicU64 = AtomicU64::new(0);

// How insert_at's new node gets the rank the explorer chose, although the crate draws its priority itself:
//
// * strictly between two live levels (odd pc): the live priorities are re-spaced so that the levels below
//   the chosen rank sit at 0, 1, 2, … and the levels above it at …, u32::MAX-1, u32::MAX.  Whatever the
//   crate draws lands between them (a draw inside one of the two tiny end zones is detected afterwards, the
//   state is restored and the call repeated).  Nothing about the crate's generator is assumed.
// * tied with a live level (even pc): the value of the draw has to be known beforehand.  The harness keeps,
//   per thread, a copy of rlib_rand's own generator and synchronises it with the thread's real generator
//   at the thread's first node creation (the crate seeds thread number k of the process with a value
//   derived from k; all k < 65536 are tried against two real draws).  While the copy keeps predicting the
//   real draws, the tied level is moved onto the predicted value.  If the copy cannot be synchronised or
//   stops predicting (another generator, another seeding rule, extra draws), tied insertions fall back to
//   "just above the level" (counted as `insert_at_ties_not_predictable`) — for every thread alike, so the
//   state reached does not depend on which worker ran the step.
enum Pred {
    Unknown,
    Synced(rlib_rand::Rng),
    Lost,
}

thread_local! {
    static PRED: std::cell::RefCell<Pred> = std::cell::RefCell::new(Pred::Unknown);
}

fn real_draw() -> u32 {
    Node::new(It::new(0, 0)).priority
}

/// Draws real probe values and returns the priority this thread's NEXT node creation will get, if the
/// model generator can tell.
fn predict_next() -> Option<u32> {
    const G: u64 = 0x9E37_79B9_7F4A_7C15;
    PRED.with(|p| {
        let mut p = p.borrow_mut();
        match &mut *p {
            Pred::Lost => None,
            Pred::Unknown => {
                let (p1, p2) = (real_draw(), real_draw());
                for k in 0..(1u64 << 16) {
                    let mut m = rlib_rand::Rng::from_seed(42 ^ k.wrapping_mul(G));
                    if m.next_raw() as u32 == p1 && m.next_raw() as u32 == p2 {
                        let mut look = m;
                        let nxt = look.next_raw() as u32;
                        *p = Pred::Synced(m);
                        return Some(nxt);
                    }
                }
                *p = Pred::Lost;
                None
            }
            Pred::Synced(m) => {
                let probe = real_draw();
                // normally the model's very next value; further on if the code under test drew more
                // priorities than the harness asked for
                for _ in 0..64 {
                    if m.next_raw() as u32 == probe {
                        let mut look = *m;
                        return Some(look.next_raw() as u32);
                    }
                }
                *p = Pred::Lost;
                None
            }
        }
    })
}

/// the crate has just drawn `q` on this thread: keep the model in step
fn model_saw(q: u32) {
    PRED.with(|p| {
        let mut p = p.borrow_mut();
        if let Pred::Synced(m) = &mut *p {
            let mut look = *m;
            if look.next_raw() as u32 == q {
                *m = look;
            }
            // otherwise: leave the model where it is; the next predict_next() searches forward
        }
    })
}

/// the distinct priorities of the live nodes, ascending
fn levels_of<T>(slots: &[Treap<T>]) -> Vec<u32> {
    let mut ps = vec![];
    for t in slots {
        for_each_node(&t.root, &mut |n| ps.push(n.priority));
    }
    ps.sort();
    ps.dedup();
    ps
}

/// re-space priorities to 2*rank (2, 4, 6, …), order and ties preserved: the form a stored state keeps them in
fn normalise_slots<T>(slots: &mut [Treap<T>]) {
    let lv = levels_of(slots);
    for t in slots.iter_mut() {
        for_each_node_mut(&mut t.root, &mut |n| {
            n.priority = 2 * (lv.binary_search(&n.priority).unwrap() as u32 + 1);
        });
    }
}

/// The lowest live level becomes 0 and the highest u32::MAX (order and ties preserved): "every assignment of
/// priorities" includes the extreme values.
fn stretch_extremes<T>(slots: &mut [Treap<T>]) {
    let lv = levels_of(slots);
    if let (Some(&lo), Some(&hi)) = (lv.first(), lv.last()) {
        for t in slots.iter_mut() {
            for_each_node_mut(&mut t.root, &mut |n| {
                if n.priority == hi {
                    n.priority = u32::MAX;
                } else if n.priority == lo {
                    n.priority = 0;
                }
            });
        }
    }
}

/// Before an insert_at whose new node is to get rank `eff` among the stored levels 2, 4, …, 2*nlev: the
/// levels below `eff` move to 0, 1, 2, …, those above it to …, u32::MAX-1, u32::MAX, a level equal to `eff`
/// (a tie, even `eff`) onto `tied`.  Returns how many levels are strictly below and strictly above: a draw q
/// with below <= q <= u32::MAX - above has landed where it had to.
fn respace_around<T>(slots: &mut [Treap<T>], eff: u32, nlev: u32, tied: Option<u32>) -> (u32, u32) {
    for t in slots.iter_mut() {
        for_each_node_mut(&mut t.root, &mut |n| {
            n.priority = if n.priority < eff {
                n.priority / 2 - 1
            } else if n.priority > eff {
                u32::MAX - (nlev - n.priority / 2)
            } else {
                tied.unwrap()
            };
        });
    }
    ((eff - 1) / 2, nlev - eff / 2)
}

impl Sys {
    fn levels(s: &St) -> Vec<u32> {
        levels_of(&s.slots)
    }

    fn normalise(s: &mut St) {
        normalise_slots(&mut s.slots)
    }

    fn total(s: &St) -> usize {
        s.models.iter().map(|m| m.len()).sum()
    }

    fn fresh_id(s: &St) -> u8 {
        (0u8..).find(|i| !s.models.iter().any(|m| m.iter().any(|e| e.0 == *i))).unwrap()
    }

    fn drop_empty(s: &mut St) {
        let mut i = 0;
        while i < s.slots.len() {
            if s.models[i].is_empty() {
                s.slots.remove(i);
                s.models.remove(i);
            } else {
                i += 1;
            }
        }
    }

    fn seq_of(t: &Treap<It>) -> Vec<(u8, u8)> {
        let mut c = copy_treap(t);
        c.collect().iter().map(|x| (x.id, x.val)).collect()
    }

    fn check_slot(&self, t: &Treap<It>, model: &[(u8, u8)]) -> Result<(), String> {
        let got = Self::seq_of(t);
        if got != model {
            return Err(format!("collect() would return (id,value) {:?}, the vector model holds {:?}", got, model));
        }
        if t.size() != model.len() {
            return Err(format!("size() is {}, the vector model has {} elements", t.size(), model.len()));
        }
        if let Some(r) = t.root() {
            let vals: Vec<u8> = model.iter().map(|e| e.1).collect();
            if r.agg != vals {
                return Err(format!("root aggregate is {:?}, the fold of the sequence is {:?}", r.agg, vals));
            }
        } else if !model.is_empty() {
            return Err("treap is empty but the model is not".into());
        }
        // every subtree root: cached size = node count, aggregate = that subtree's own sequence
        let mut err = None;
        for_each_node(&t.root, &mut |n| {
            if err.is_some() {
                return;
            }
            let sub = Some(Box::new(Node { item: n.item.clone(), priority: n.priority, left: copy_node(&n.left), right: copy_node(&n.right) }));
            let cnt = count(&sub);
            if n.item.size != cnt || n.item.lsize != count(&n.left) {
                err = Some(format!("node id {} caches size {} (left subtree: {}) but its subtree has {} nodes (left subtree: {})", n.item.id, n.item.size, n.item.lsize, cnt, count(&n.left)));
                return;
            }
            let mut st = treap_of(sub);
            let seq: Vec<u8> = st.collect().iter().map(|x| x.val).collect();
            if seq != n.item.agg {
                err = Some(format!("node id {} keeps aggregate {:?} but its subtree holds {:?}", n.item.id, n.item.agg, seq));
            }
        });
        err.map_or(Ok(()), Err)
    }

    fn check_heap(t: &Treap<It>) -> Result<(), String> {
        let (mut up, mut down) = (0, 0);
        let mut bad = String::new();
        for_each_node(&t.root, &mut |n| {
            for c in [&n.left, &n.right].into_iter().flatten() {
                if n.priority < c.priority {
                    up += 1;
                } else if n.priority > c.priority {
                    down += 1;
                    bad = format!("parent id {} (priority rank {}) above child id {} (rank {})", n.item.id, n.priority, c.item.id, c.priority);
                }
            }
        });
        if up > 0 && down > 0 {
            return Err(format!("priorities are not heap-ordered in one direction: {} edges increase downwards, {} decrease ({})", up, down, bad));
        }
        Ok(())
    }
}

fn fp<T: std::fmt::Debug>(x: &T) -> u64 {
    fnv(format!("{:?}", x).as_bytes())
}

impl System for Sys {
    type State = St;
    type Action = Act;

    fn inits(&self) -> Vec<Act> {
        vec![Act::Start]
    }

    fn init(&self, _a: &Act) -> Result<St, String> {
        Ok(St { slots: vec![], models: vec![] })
    }

    fn actions(&self, s: &St) -> Vec<Act> {
        let mut v = vec![];
        let k = s.slots.len() as u8;
        let total = Self::total(s);
        let nlev = Self::levels(s).len() as u8;
        if total < self.max_nodes && s.slots.len() < self.max_slots {
            for pc in 1..=2 * nlev + 1 {
                for val in (0..self.vals).chain(self.stale) {
                    v.push(Act::New(pc, val));
                }
            }
        }
        for i in 0..k {
            for j in 0..k {
                if i != j {
                    v.push(Act::Merge(i, j));
                }
            }
        }
        for i in 0..k {
            let len = s.models[i as usize].len() as u8;
            for pos in 0..=len {
                let needs_slot = pos != 0 && pos != len;
                if !needs_slot || s.slots.len() < self.max_slots {
                    v.push(Act::SplitAt(i, pos));
                    v.push(Act::SplitBy(i, pos));
                }
            }
            for mask in 0..8u8 {
                let pat: Vec<bool> = s.models[i as usize].iter().map(|e| (mask >> e.1) & 1 == 1).collect();
                let k = pat.iter().take_while(|b| **b).count();
                let monotone = pat[k..].iter().all(|b| !*b);
                let needs_slot = k != 0 && k != pat.len();
                if monotone && (!needs_slot || s.slots.len() < self.max_slots) {
                    v.push(Act::SplitByVal(i, mask));
                }
            }
            if total < self.max_nodes {
                let pcs: Vec<u8> = (1..=2 * nlev + 1).collect();
                for pos in 0..=len {
                    for &pc in &pcs {
                        for val in (0..self.vals).chain(self.stale) {
                            v.push(Act::InsertAt(i, pos, pc, val));
                        }
                    }
                }
            }
            for pos in 0..len {
                v.push(Act::RemoveAt(i, pos));
            }
            for &m in self.mods {
                v.push(Act::Apply(i, m));
            }
            v.push(Act::First(i));
            v.push(Act::Last(i));
            v.push(Act::Collect(i));
            v.push(Act::Size(i));
            v.push(Act::Root(i));
            v.push(Act::MergeEmpty(i, false));
            v.push(Act::MergeEmpty(i, true));
        }
        v
    }

    fn step(&self, s: &mut St, a: &Act) -> Result<u64, String> {
        let judge = self.mode == Mode::C03;
        macro_rules! expect {
            ($cond:expr, $($msg:tt)*) => {
                if judge && !($cond) {
                    return Err(format!($($msg)*));
                }
            };
        }
        let out;
        // The stored state keeps priorities as ranks (2, 4, 6, …).  For every action that does not create a
        // node the live priorities are first stretched so that the lowest level is 0 and the highest is
        // u32::MAX (order and ties preserved): "every assignment of priorities" includes the extreme values.
        if !matches!(a, Act::New(..) | Act::InsertAt(..) | Act::Start) {
            stretch_extremes(&mut s.slots);
        }
        match *a {
            Act::Start => return Err("constructor inside a history".into()),
            Act::New(pc, val) => {
                let id = Self::fresh_id(s);
                // existing levels are 2,4,…: pc itself is the new node's priority
                s.slots.push(single(id, val, pc as u32));
                s.models.push(vec![(id, val % 4)]);
                out = 0;
            }
            Act::Merge(i, j) => {
                let (i, j) = (i as usize, j as usize);
                let l = std::mem::replace(&mut s.slots[i], Treap::new());
                let r = std::mem::replace(&mut s.slots[j], Treap::new());
                s.slots[i] = Treap::merge(l, r);
                let mj = std::mem::take(&mut s.models[j]);
                s.models[i].extend(mj);
                out = 0;
            }
            Act::SplitAt(i, _) | Act::SplitBy(i, _) | Act::SplitByVal(i, _) => {
                let i = i as usize;
                let pos = match *a {
                    Act::SplitAt(_, p) | Act::SplitBy(_, p) => p as usize,
                    Act::SplitByVal(_, mask) => s.models[i].iter().take_while(|e| (mask >> e.1) & 1 == 1).count(),
                    _ => unreachable!(),
                };
                let t = std::mem::replace(&mut s.slots[i], Treap::new());
                let (l, r) = if matches!(a, Act::SplitAt(..)) {
                    t.split_at(pos)
                } else if let Act::SplitByVal(_, mask) = *a {
                    t.split_by(|it| (mask >> it.val) & 1 == 1)
                } else {
                    // prefix-monotone predicate: "this element is one of the first `pos` of the sequence"
                    let first: Vec<u8> = s.models[i][..pos].iter().map(|e| e.0).collect();
                    t.split_by(|it| first.contains(&it.id))
                };
                let len = s.models[i].len();
                expect!(l.size() == pos && r.size() == len - pos, "{:?}: parts have sizes {} and {}, expected {} and {}", a, l.size(), r.size(), pos, len - pos);
                expect!(l.is_empty() == (pos == 0) && r.is_empty() == (pos == len), "{:?}: is_empty() of the parts is ({}, {})", a, l.is_empty(), r.is_empty());
                let mr = s.models[i].split_off(pos);
                s.slots[i] = l;
                s.slots.push(r);
                s.models.push(mr);
                out = 0;
            }
            Act::InsertAt(i, pos, pc, val) => {
                let (i, pos) = (i as usize, pos as usize);
                let id = Self::fresh_id(s);
                let nlev = Self::levels(s).len() as u32;
                // the model generator can only be synchronised at the thread's first node creation
                if PRED.with(|p| matches!(*p.borrow(), Pred::Unknown)) {
                    let _ = predict_next();
                }
                // tied with a live level: the draw must be known beforehand
                let mut target = None;
                if pc % 2 == 0 {
                    while let Some(e) = predict_next() {
                        if e > 64 && e < u32::MAX - 64 {
                            target = Some(e);
                            break;
                        }
                    }
                }
                let mut eff = if pc % 2 == 0 && target.is_none() { pc + 1 } else { pc } as u32;
                let backup: Vec<Treap<It>> = s.slots.iter().map(copy_treap).collect();
                let mut attempts = 0;
                loop {
                    attempts += 1;
                    // levels strictly below the chosen rank: values 0..below; strictly above: > u32::MAX - above
                    let (below, above) = respace_around(&mut s.slots, eff, nlev, target);
                    s.slots[i].insert_at(pos, make_item(id, val));
                    let mut drawn = None;
                    for_each_node(&s.slots[i].root, &mut |n| {
                        if n.item.id == id {
                            drawn = Some(n.priority);
                        }
                    });
                    if let Some(q) = drawn {
                        model_saw(q);
                    }
                    let ok = match (drawn, target) {
                        // the inserted element is missing: let the sequence check below report it
                        (None, _) => true,
                        (Some(q), Some(e)) if eff % 2 == 0 => q == e,
                        (Some(q), _) => q >= below && q <= u32::MAX - above,
                    };
                    if ok {
                        if eff % 2 == 0 {
                            TIES_PREDICTED.fetch_add(1, Ordering::Relaxed);
                        } else if pc % 2 == 0 {
                            TIES_NOT_PREDICTABLE.fetch_add(1, Ordering::Relaxed);
                        } else {
                            CONTROLLED_DRAWS.fetch_add(1, Ordering::Relaxed);
                        }
                        break;
                    }
                    // the draw did not land where it had to (a mispredicted tie, or a value in one of the
                    // end zones): back to the state before the call
                    if attempts >= 16 && eff % 2 == 1 {
                        // the code under test does not hand out fresh random priorities (it reuses old
                        // ones, say): the rank cannot be forced.  Whatever rank came out is still a legal
                        // state; keep it, counted as uncontrolled
                        UNCONTROLLED_DRAWS.fetch_add(1, Ordering::Relaxed);
                        break;
                    }
                    REDRAWS.fetch_add(1, Ordering::Relaxed);
                    s.slots = backup.iter().map(copy_treap).collect();
                    if eff % 2 == 0 {
                        PRED.with(|p| *p.borrow_mut() = Pred::Lost);
                        eff += 1;
                    }
                }
                s.models[i].insert(pos, (id, val % 4));
                out = 0;
            }
            Act::RemoveAt(i, pos) => {
                let (i, pos) = (i as usize, pos as usize);
                let it = s.slots[i].remove_at(pos);
                let e = s.models[i].remove(pos);
                expect!((it.id, it.val) == e, "remove_at({pos}) returned (id,value) ({},{}), the vector holds {:?}", it.id, it.val, e);
                expect!(it.size == 1 && it.agg == vec![it.val], "remove_at({pos}) returned an item with size {} and aggregate {:?}", it.size, it.agg);
                out = fp(&(it.id, it.val));
            }
            Act::Apply(i, m) => {
                let i = i as usize;
                let md = MODS[m as usize];
                if let Some(r) = s.slots[i].root_mut() {
                    r.apply(md);
                }
                for (k, e) in s.models[i].iter_mut().enumerate() {
                    e.1 = map_val(md, e.1, k);
                }
                out = 0;
            }
            Act::First(i) | Act::Last(i) => {
                let i = i as usize;
                let first = matches!(a, Act::First(_));
                let got = if first { s.slots[i].first() } else { s.slots[i].last() }.map(|x| (x.id, x.val));
                let exp = if first { s.models[i].first() } else { s.models[i].last() }.copied();
                expect!(got == exp, "{:?} returned {:?}, the vector gives {:?}", a, got, exp);
                out = fp(&got);
            }
            Act::Collect(i) => {
                let i = i as usize;
                let got: Vec<(u8, u8)> = s.slots[i].collect().iter().map(|x| (x.id, x.val)).collect();
                expect!(got == s.models[i], "collect() returned {:?}, the vector is {:?}", got, s.models[i]);
                out = fp(&got);
            }
            Act::Size(i) => {
                let got = s.slots[i as usize].size();
                expect!(got == s.models[i as usize].len(), "size() returned {}, the vector has {}", got, s.models[i as usize].len());
                out = got as u64;
            }
            Act::Root(i) => {
                let got = s.slots[i as usize].root().map(|r| r.agg.clone());
                let exp: Vec<u8> = s.models[i as usize].iter().map(|e| e.1).collect();
                expect!(got.as_ref() == Some(&exp), "root() aggregate {:?}, fold of the vector {:?}", got, exp);
                out = fp(&got);
            }
            Act::MergeEmpty(i, left) => {
                let i = i as usize;
                let t = std::mem::replace(&mut s.slots[i], Treap::new());
                s.slots[i] = if left { Treap::merge(Treap::new(), t) } else { Treap::merge(t, Treap::new()) };
                out = 0;
            }
        }
        Self::drop_empty(s);
        Self::normalise(s);
        Ok(out)
    }

    fn invariant(&self, s: &St) -> Result<(), String> {
        for (i, t) in s.slots.iter().enumerate() {
            match self.mode {
                Mode::C03 => self.check_slot(t, &s.models[i]).map_err(|m| format!("treap #{i}: {m}"))?,
                Mode::C16 => Self::check_heap(t).map_err(|m| format!("treap #{i}: {m}"))?,
            }
        }
        Ok(())
    }

    fn canon(&self, s: &St) -> Vec<u8> {
        fn enc(n: &Option<Box<Node>>, out: &mut Vec<u8>) {
            match n {
                None => out.push(0xfe),
                Some(b) => {
                    out.push(b.priority as u8);
                    out.push(b.item.val);
                    out.push(b.item.size as u8);
                    out.push(b.item.lsize as u8);
                    out.push(b.item.tag.0 * 9 + b.item.tag.1 * 3 + b.item.tag.2);
                    out.push(b.item.agg.len() as u8);
                    out.extend_from_slice(&b.item.agg);
                    enc(&b.left, out);
                    enc(&b.right, out);
                }
            }
        }
        let mut parts: Vec<Vec<u8>> = s
            .slots
            .iter()
            .zip(&s.models)
            .map(|(t, m)| {
                let mut o = vec![];
                enc(&t.root, &mut o);
                o.push(0xfd);
                // ids are positions: only their consistency matters (checked by the invariant); the values do
                o.extend(m.iter().map(|e| e.1));
                o
            })
            .collect();
        parts.sort();
        let mut k = vec![];
        for p in parts {
            k.extend(p);
            k.push(0xff);
        }
        k
    }

    fn kind(&self, a: &Act) -> &'static str {
        match a {
            Act::Start => "start",
            Act::New(..) => "new",
            Act::Merge(..) => "merge",
            Act::SplitAt(..) => "split_at",
            Act::SplitBy(..) => "split_by",
            Act::SplitByVal(..) => "split_by_value",
            Act::InsertAt(..) => "insert_at",
            Act::RemoveAt(..) => "remove_at",
            Act::Apply(..) => "apply",
            Act::First(..) => "first",
            Act::Last(..) => "last",
            Act::Collect(..) => "collect",
            Act::Size(..) => "size",
            Act::Root(..) => "root",
            Act::MergeEmpty(..) => "merge_with_empty",
        }
    }
}

// ---------------------------------------------------------------------------------------------
// C03 (c): DROP ACCOUNTING — every element leaves the sequence exactly once.
//
// The property compares the treap with a vector, and a vector owns its elements: `remove` hands one over
// alive, everything else is destroyed exactly once when the vector goes.  The parts above cannot see how
// often an element is destroyed (and their item owns a Vec: destroying it twice is undefined behaviour that
// takes the process down before a verdict).  This part runs the same kind of histories with an element made
// of plain integers whose destructor writes its id into a table that belongs to the history: running it
// twice is observable and harmless.  After every action every element that is in a live treap or in the
// caller's hands must have been destroyed 0 times, every element that has left (its treap was dropped, the
// item remove_at returned was dropped) exactly once; a returned item must read back as the element it is.

/// what `Dr::check` holds while the element is alive (a function of the id), and after its destructor ran
fn dr_check(id: u32) -> u32 {
    id.wrapping_mul(0x9E37_79B9) ^ 0x5EED_0D0F
}
const DR_DEAD: u32 = 0xDEAD_DEAD;

/// An element without heap-owning fields: destroying it twice is wrong, but not undefined behaviour.
struct Dr {
    id: u32,
    check: u32,
    size: u32,
}

impl Dr {
    fn new(id: u32) -> Dr {
        Dr { id, check: dr_check(id), size: 1 }
    }
    fn intact(&self) -> bool {
        self.check == dr_check(self.id)
    }
}

/// a copy made by the harness is a second live object with the same id; copies are only ever destroyed
/// while no table, or the table of a copied state, is installed
impl Clone for Dr {
    fn clone(&self) -> Dr {
        Dr { id: self.id, check: self.check, size: self.size }
    }
}

impl Drop for Dr {
    fn drop(&mut self) {
        let _ = DROPS.try_with(|t| {
            if let Some(t) = t.borrow_mut().as_mut() {
                t.record(self.id, self.check);
            }
        });
        // whatever still reads this object afterwards does not see a live element
        self.check = DR_DEAD;
    }
}

impl TreapItem for Dr {
    fn update(&mut self, l: Option<&Self>, r: Option<&Self>) {
        self.size = 1 + l.map_or(0, |x| x.size) + r.map_or(0, |x| x.size);
    }
}

impl TreapItemSized for Dr {
    fn size(&self) -> usize {
        self.size as usize
    }
}

/// How often the destructor of element #id has run, and the first destructor call on something that is not
/// a live element (an id the harness never handed out, or an object already destroyed).
#[derive(Clone, Default, Debug, PartialEq)]
struct DropTable {
    counts: Vec<u8>,
    stray: Option<(u32, u32)>,
}

impl DropTable {
    fn record(&mut self, id: u32, check: u32) {
        match self.counts.get_mut(id as usize) {
            Some(c) if check == dr_check(id) => *c = c.saturating_add(1),
            _ => self.stray = self.stray.or(Some((id, check))),
        }
    }

    /// `live(id)` = where element #id is, if the caller or a live treap still owns it
    fn check(&self, live: &dyn Fn(u32) -> Option<&'static str>) -> Result<(), String> {
        if let Some((id, check)) = self.stray {
            return Err(format!("a destructor ran on an object that is not a live element: id field {id}, check field {check:#x} (an element already destroyed reads {DR_DEAD:#x})"));
        }
        for (id, &c) in self.counts.iter().enumerate() {
            match (live(id as u32), c) {
                (Some(_), 0) | (None, 1) => {}
                (Some(place), c) => return Err(format!("element #{id} is {place}, but its destructor has already run {c} time(s)")),
                (None, 0) => return Err(format!("element #{id} has left (its treap or the item remove_at returned was dropped), but its destructor has not run: leaked")),
                (None, c) => return Err(format!("element #{id} has left (its treap or the item remove_at returned was dropped) and its destructor has run {c} times")),
            }
        }
        Ok(())
    }
}

thread_local! {
    /// the table of the history this thread is executing a step of; none: destructors are not recorded
    static DROPS: std::cell::RefCell<Option<DropTable>> = const { std::cell::RefCell::new(None) };
}

/// Runs `f` with `table` recording this thread's element destructors; `table` gets the result back, also
/// when `f` panics.
fn with_table<R>(table: &mut DropTable, f: impl FnOnce() -> R) -> R {
    struct Back<'a>(&'a mut DropTable);
    impl Drop for Back<'_> {
        fn drop(&mut self) {
            *self.0 = DROPS.with(|d| d.borrow_mut().take()).unwrap_or_default();
        }
    }
    DROPS.with(|d| *d.borrow_mut() = Some(std::mem::take(table)));
    let _back = Back(table);
    f()
}

/// Runs `f` with no table installed: what the harness destroys for its own purposes is not part of the history.
fn unrecorded<R>(f: impl FnOnce() -> R) -> R {
    let table = DROPS.with(|d| d.borrow_mut().take());
    let r = f();
    DROPS.with(|d| *d.borrow_mut() = table);
    r
}

/// the installed table as it stands
fn table_now() -> DropTable {
    DROPS.with(|d| d.borrow().clone()).unwrap_or_default()
}

#[derive(Clone, Debug, Serialize, Deserialize)]
enum DAct {
    Start,
    /// single-node treap at priority choice pc (as `Act::New`)
    New(u8),
    Merge(u8, u8),
    SplitAt(u8, u8),
    SplitBy(u8, u8),
    /// (treap, position, pc) with pc odd: strictly between live levels (tied ranks are reached by New + Merge)
    InsertAt(u8, u8, u8),
    /// the returned item stays in the caller's hands
    RemoveAt(u8, u8),
    /// `t.remove_at(pos);` — the returned item is dropped on the spot
    RemoveAtDiscard(u8, u8),
    /// the caller drops the k-th item it holds
    DropHeld(u8),
    /// the caller drops a whole treap
    DropTreap(u8),
    First(u8),
    Last(u8),
    Collect(u8),
    MergeEmpty(u8, bool),
}

struct DSt {
    slots: Vec<Treap<Dr>>,
    /// element ids, in sequence order
    models: Vec<Vec<u32>>,
    /// items remove_at returned and the caller has not dropped yet
    held: Vec<Dr>,
    /// one entry per element created in this history
    table: DropTable,
}

impl Clone for DSt {
    fn clone(&self) -> Self {
        DSt { slots: self.slots.iter().map(copy_treap).collect(), models: self.models.clone(), held: self.held.clone(), table: self.table.clone() }
    }
}

impl DSt {
    fn place(&self, id: u32) -> Option<&'static str> {
        if self.models.iter().any(|m| m.contains(&id)) {
            Some("still in a live treap")
        } else if self.held.iter().any(|h| h.id == id) {
            Some("in the caller's hands (remove_at returned it and the caller has not dropped it)")
        } else {
            None
        }
    }

    fn live(&self) -> usize {
        self.models.iter().map(|m| m.len()).sum::<usize>() + self.held.len()
    }
}

const MAX_HELD: usize = 2;

struct DropSys {
    max_nodes: usize,
    max_slots: usize,
}

static DROP_INSERT_DRAWS: AtomicU64 = AtomicU64::new(0);
static DROP_DESTRUCTORS_SEEN: AtomicU64 = AtomicU64::new(0);

impl DropSys {
    fn step_inner(&self, s: &mut DSt, a: &DAct) -> Result<u64, String> {
        let out;
        if !matches!(a, DAct::New(..) | DAct::InsertAt(..) | DAct::Start) {
            stretch_extremes(&mut s.slots);
        }
        // (the state's table is the installed one while a step runs)
        let fresh = DROPS.with(|d| d.borrow().as_ref().map_or(0, |t| t.counts.len())) as u32;
        match *a {
            DAct::Start => return Err("constructor inside a history".into()),
            DAct::New(pc) => {
                DROPS.with(|d| d.borrow_mut().as_mut().unwrap().counts.push(0));
                s.slots.push(treap_of(Some(Box::new(TreapNode { item: Dr::new(fresh), priority: pc as u32, left: None, right: None }))));
                s.models.push(vec![fresh]);
                out = 0;
            }
            DAct::Merge(i, j) => {
                let (i, j) = (i as usize, j as usize);
                let l = std::mem::replace(&mut s.slots[i], Treap::new());
                let r = std::mem::replace(&mut s.slots[j], Treap::new());
                s.slots[i] = Treap::merge(l, r);
                let mj = std::mem::take(&mut s.models[j]);
                s.models[i].extend(mj);
                out = 0;
            }
            DAct::SplitAt(i, pos) | DAct::SplitBy(i, pos) => {
                let (i, pos) = (i as usize, pos as usize);
                let t = std::mem::replace(&mut s.slots[i], Treap::new());
                let (l, r) = if matches!(a, DAct::SplitAt(..)) {
                    t.split_at(pos)
                } else {
                    let first: Vec<u32> = s.models[i][..pos].to_vec();
                    t.split_by(|it| first.contains(&it.id))
                };
                let len = s.models[i].len();
                if l.size() != pos || r.size() != len - pos {
                    return Err(format!("{a:?}: parts have sizes {} and {}, expected {pos} and {}", l.size(), r.size(), len - pos));
                }
                let mr = s.models[i].split_off(pos);
                s.slots[i] = l;
                s.slots.push(r);
                s.models.push(mr);
                out = 0;
            }
            DAct::InsertAt(i, pos, pc) => {
                let (i, pos) = (i as usize, pos as usize);
                DROPS.with(|d| d.borrow_mut().as_mut().unwrap().counts.push(0));
                let nlev = levels_of(&s.slots).len() as u32;
                let before = (s.slots.iter().map(copy_treap).collect::<Vec<_>>(), table_now());
                for attempt in 0.. {
                    let (below, above) = respace_around(&mut s.slots, pc as u32, nlev, None);
                    s.slots[i].insert_at(pos, Dr::new(fresh));
                    DROP_INSERT_DRAWS.fetch_add(1, Ordering::Relaxed);
                    let mut drawn = None;
                    for_each_node(&s.slots[i].root, &mut |n| {
                        if n.item.id == fresh {
                            drawn = Some(n.priority);
                        }
                    });
                    // (a missing element is for the sequence check to report)
                    if drawn.map_or(true, |q| q >= below && q <= u32::MAX - above) || attempt >= 16 {
                        break;
                    }
                    // the draw fell into one of the two tiny end zones: back to the state before the call
                    // (the treaps of the failed attempt go unrecorded)
                    unrecorded(|| s.slots = before.0.iter().map(copy_treap).collect());
                    DROPS.with(|d| *d.borrow_mut() = Some(before.1.clone()));
                }
                // the harness's own copies are not part of the history
                unrecorded(|| drop(before));
                s.models[i].insert(pos, fresh);
                out = 0;
            }
            DAct::RemoveAt(i, pos) | DAct::RemoveAtDiscard(i, pos) => {
                let (i, pos) = (i as usize, pos as usize);
                let it = s.slots[i].remove_at(pos);
                let e = s.models[i].remove(pos);
                // the returned item must be usable: its fields read back
                if it.id != e || !it.intact() || it.size != 1 {
                    return Err(format!("remove_at({pos}) returned an item that reads id {}, check {:#x}, size {}; the vector holds element #{e} (check {:#x}, size 1)", it.id, it.check, it.size, dr_check(e)));
                }
                out = it.id as u64;
                if matches!(a, DAct::RemoveAt(..)) {
                    s.held.push(it);
                }
            }
            DAct::DropHeld(k) => {
                drop(s.held.remove(k as usize));
                out = 0;
            }
            DAct::DropTreap(i) => {
                drop(std::mem::replace(&mut s.slots[i as usize], Treap::new()));
                s.models[i as usize].clear();
                out = 0;
            }
            DAct::First(i) | DAct::Last(i) => {
                let i = i as usize;
                let first = matches!(a, DAct::First(_));
                let got = if first { s.slots[i].first() } else { s.slots[i].last() }.map(|x| x.id);
                let exp = if first { s.models[i].first() } else { s.models[i].last() }.copied();
                if got != exp {
                    return Err(format!("{a:?} returned element {got:?}, the vector gives {exp:?}"));
                }
                out = fp(&got);
            }
            DAct::Collect(i) => {
                let i = i as usize;
                let got: Vec<u32> = s.slots[i].collect().iter().map(|x| x.id).collect();
                if got != s.models[i] {
                    return Err(format!("collect() returned elements {got:?}, the vector is {:?}", s.models[i]));
                }
                out = fp(&got);
            }
            DAct::MergeEmpty(i, left) => {
                let i = i as usize;
                let t = std::mem::replace(&mut s.slots[i], Treap::new());
                s.slots[i] = if left { Treap::merge(Treap::new(), t) } else { Treap::merge(t, Treap::new()) };
                out = 0;
            }
        }
        let mut i = 0;
        while i < s.slots.len() {
            if s.models[i].is_empty() {
                // (an empty treap owns nothing)
                s.slots.remove(i);
                s.models.remove(i);
            } else {
                i += 1;
            }
        }
        normalise_slots(&mut s.slots);
        Ok(out)
    }

    /// sequence, sizes and fields of everything alive
    fn check_alive(s: &DSt) -> Result<(), String> {
        for (i, (t, model)) in s.slots.iter().zip(&s.models).enumerate() {
            let mut c = copy_treap(t);
            let got: Vec<u32> = c.collect().iter().map(|x| x.id).collect();
            if &got != model || t.size() != model.len() {
                return Err(format!("treap #{i}: collect() would return elements {got:?} and size() is {}, the vector model holds {model:?}", t.size()));
            }
            let mut err = None;
            fn rec(n: &Option<Box<TreapNode<Dr>>>, err: &mut Option<String>) -> u32 {
                n.as_ref().map_or(0, |b| {
                    let cnt = 1 + rec(&b.left, err) + rec(&b.right, err);
                    if (b.item.size != cnt || !b.item.intact()) && err.is_none() {
                        *err = Some(format!("node of element #{} caches size {} and reads check {:#x}; its subtree has {cnt} nodes, a live element #{} reads {:#x}", b.item.id, b.item.size, b.item.check, b.item.id, dr_check(b.item.id)));
                    }
                    cnt
                })
            }
            rec(&t.root, &mut err);
            if let Some(m) = err {
                return Err(format!("treap #{i}: {m}"));
            }
        }
        match s.held.iter().find(|h| !h.intact() || h.size != 1) {
            Some(h) => Err(format!("an item remove_at returned earlier now reads id {}, check {:#x}, size {}", h.id, h.check, h.size)),
            None => Ok(()),
        }
    }
}

impl System for DropSys {
    type State = DSt;
    type Action = DAct;

    fn inits(&self) -> Vec<DAct> {
        vec![DAct::Start]
    }

    fn init(&self, _a: &DAct) -> Result<DSt, String> {
        Ok(DSt { slots: vec![], models: vec![], held: vec![], table: DropTable::default() })
    }

    fn actions(&self, s: &DSt) -> Vec<DAct> {
        let mut v = vec![];
        let k = s.slots.len() as u8;
        let room = s.live() < self.max_nodes;
        let nlev = levels_of(&s.slots).len() as u8;
        if room && s.slots.len() < self.max_slots {
            v.extend((1..=2 * nlev + 1).map(DAct::New));
        }
        for i in 0..k {
            v.extend((0..k).filter(|&j| j != i).map(|j| DAct::Merge(i, j)));
        }
        for i in 0..k {
            let len = s.models[i as usize].len() as u8;
            for pos in 0..=len {
                let needs_slot = pos != 0 && pos != len;
                if !needs_slot || s.slots.len() < self.max_slots {
                    v.push(DAct::SplitAt(i, pos));
                    v.push(DAct::SplitBy(i, pos));
                }
            }
            if room {
                for pos in 0..=len {
                    v.extend((0..=nlev).map(|r| DAct::InsertAt(i, pos, 2 * r + 1)));
                }
            }
            for pos in 0..len {
                if s.held.len() < MAX_HELD {
                    v.push(DAct::RemoveAt(i, pos));
                }
                v.push(DAct::RemoveAtDiscard(i, pos));
            }
            v.extend([DAct::DropTreap(i), DAct::First(i), DAct::Last(i), DAct::Collect(i), DAct::MergeEmpty(i, false), DAct::MergeEmpty(i, true)]);
        }
        v.extend((0..s.held.len() as u8).map(DAct::DropHeld));
        v
    }

    fn step(&self, s: &mut DSt, a: &DAct) -> Result<u64, String> {
        let mut table = std::mem::take(&mut s.table);
        let before: u64 = table.counts.iter().map(|&c| c as u64).sum();
        let r = with_table(&mut table, || self.step_inner(s, a));
        DROP_DESTRUCTORS_SEEN.fetch_add(table.counts.iter().map(|&c| c as u64).sum::<u64>() - before, Ordering::Relaxed);
        s.table = table;
        let out = r?;
        s.table.check(&|id| s.place(id)).map_err(|m| format!("after {a:?}: {m}"))?;
        Ok(out)
    }

    /// Everything alive is in order; and the history may end here: the caller drops every treap and every
    /// item it holds (on a copy of the state, with a copy of the table), after which every element the
    /// history created must have been destroyed exactly once.
    fn invariant(&self, s: &DSt) -> Result<(), String> {
        Self::check_alive(s)?;
        let DSt { slots, held, mut table, .. } = s.clone();
        with_table(&mut table, move || {
            drop(slots);
            drop(held);
        });
        table.check(&|_| None).map_err(|m| format!("at the end of the history, every treap and every returned item dropped: {m}"))
    }

    /// Pre-order (priority rank, cached size) per treap, treaps sorted, and the number of items held.  The
    /// element ids and the table are left out: in a state that passed the checks the ids are the model's (the
    /// sequence check), every field of an element is a function of its id, and the table is a function of who
    /// is alive (0) and who is gone (1) — so two states with the same key differ by a renaming of the elements
    /// and by how many elements are gone, neither of which any later action can observe.  Every state keeps
    /// the history it was first reached by, and a replay re-executes that history with a table of its own.
    fn canon(&self, s: &DSt) -> Vec<u8> {
        fn enc(n: &Option<Box<TreapNode<Dr>>>, out: &mut Vec<u8>) {
            match n {
                None => out.push(0xfe),
                Some(b) => {
                    out.extend([b.priority as u8, b.item.size as u8]);
                    enc(&b.left, out);
                    enc(&b.right, out);
                }
            }
        }
        let mut parts: Vec<Vec<u8>> = s
            .slots
            .iter()
            .map(|t| {
                let mut o = vec![];
                enc(&t.root, &mut o);
                o
            })
            .collect();
        parts.sort();
        let mut k = vec![s.held.len() as u8];
        for p in parts {
            k.extend(p);
            k.push(0xff);
        }
        k
    }

    fn kind(&self, a: &DAct) -> &'static str {
        match a {
            DAct::Start => "start",
            DAct::New(..) => "new",
            DAct::Merge(..) => "merge",
            DAct::SplitAt(..) => "split_at",
            DAct::SplitBy(..) => "split_by",
            DAct::InsertAt(..) => "insert_at",
            DAct::RemoveAt(..) => "remove_at_item_kept",
            DAct::RemoveAtDiscard(..) => "remove_at_item_discarded",
            DAct::DropHeld(..) => "drop_returned_item",
            DAct::DropTreap(..) => "drop_treap",
            DAct::First(..) => "first",
            DAct::Last(..) => "last",
            DAct::Collect(..) => "collect",
            DAct::MergeEmpty(..) => "merge_with_empty",
        }
    }
}

// ---------------------------------------------------------------------------------------------
// C03 (b): DIRECTED (not exhaustive) sweep over tall and large tree shapes.
//
// The exploration above reaches every shape, but only of up to 6 nodes.  Here trees of up to a thousand
// nodes are written down as struct literals (nothing is drawn) in systematic shape families — paths,
// zigzags, caterpillars, combs, perfectly balanced trees and mixes of them —, with lazy modifications
// pending at chosen nodes, and every operation of the property is applied to them once and judged against
// the vector model by the invariants of the exploration (collect = model, cached sizes, aggregates).

type Big = It<u32>;
type BNode = TreapNode<Big>;
type Seq = Vec<(u32, u8)>;

#[derive(Clone, Copy, Debug, PartialEq)]
enum Shape {
    LeftPath,
    RightPath,
    /// a path that turns at every node
    ZigZag,
    /// a right (left) path every node of which has a leaf as its other child
    CaterpillarRight,
    CaterpillarLeft,
    Balanced,
    /// a right (left) spine every node of which carries a left (right) path of this many nodes
    CombRight(usize),
    CombLeft(usize),
    /// a right path of this many nodes with a balanced tree at its end
    PathThenBalanced(usize),
    /// balanced down to subtrees of at most this many nodes, which are left paths
    BalancedThenPaths(usize),
}

impl Shape {
    /// Which of the positions lo..hi is the root of the subtree holding them (at `depth`), and the shapes
    /// of its two sides.
    fn root(self, lo: usize, hi: usize, depth: usize) -> (usize, Shape, Shape) {
        let len = hi - lo;
        let mid = lo + (len - 1) / 2;
        match self {
            Shape::LeftPath => (hi - 1, self, self),
            Shape::RightPath => (lo, self, self),
            Shape::ZigZag => (if depth % 2 == 0 { lo } else { hi - 1 }, self, self),
            Shape::CaterpillarRight => (if len >= 2 { lo + 1 } else { lo }, self, self),
            Shape::CaterpillarLeft => (if len >= 2 { hi - 2 } else { lo }, self, self),
            Shape::Balanced => (mid, self, self),
            Shape::CombRight(k) => (lo + k.min(len - 1), Shape::LeftPath, self),
            Shape::CombLeft(k) => (hi - 1 - k.min(len - 1), self, Shape::RightPath),
            Shape::PathThenBalanced(spine) if depth < spine => (lo, self, self),
            Shape::PathThenBalanced(_) => (mid, Shape::Balanced, Shape::Balanced),
            Shape::BalancedThenPaths(k) if len > k => (mid, self, self),
            Shape::BalancedThenPaths(_) => (hi - 1, Shape::LeftPath, Shape::LeftPath),
        }
    }

    fn label(self) -> String {
        match self {
            Shape::LeftPath => "left_path".into(),
            Shape::RightPath => "right_path".into(),
            Shape::ZigZag => "zigzag".into(),
            Shape::CaterpillarRight => "caterpillar_right".into(),
            Shape::CaterpillarLeft => "caterpillar_left".into(),
            Shape::Balanced => "balanced".into(),
            Shape::CombRight(k) => format!("comb_right/tooth={k}"),
            Shape::CombLeft(k) => format!("comb_left/tooth={k}"),
            Shape::PathThenBalanced(k) => format!("path_then_balanced/spine={k}"),
            Shape::BalancedThenPaths(k) => format!("balanced_then_paths/below={k}"),
        }
    }

    /// pre-order list of the root positions: two shapes with the same list are the same tree
    fn skeleton(self, n: usize) -> Vec<u32> {
        fn rec(s: Shape, lo: usize, hi: usize, depth: usize, out: &mut Vec<u32>) {
            if lo < hi {
                let (r, ls, rs) = s.root(lo, hi, depth);
                out.push(r as u32);
                rec(ls, lo, r, depth + 1, out);
                rec(rs, r + 1, hi, depth + 1, out);
            }
        }
        let mut out = vec![];
        rec(self, 0, n, 0, &mut out);
        out
    }

    fn height(self, n: usize) -> usize {
        fn rec(s: Shape, lo: usize, hi: usize, depth: usize) -> usize {
            if lo == hi {
                return depth;
            }
            let (r, ls, rs) = s.root(lo, hi, depth);
            rec(ls, lo, r, depth + 1).max(rec(rs, r + 1, hi, depth + 1))
        }
        rec(self, 0, n, 0)
    }
}

/// The shape families at size n (different trees only), simplest first.
fn shapes_for(n: usize) -> Vec<Shape> {
    let r = ((n as f64).sqrt() as usize).max(2);
    let all = [
        Shape::LeftPath,
        Shape::RightPath,
        Shape::ZigZag,
        Shape::CaterpillarRight,
        Shape::CaterpillarLeft,
        Shape::Balanced,
        Shape::CombRight(3),
        Shape::CombLeft(3),
        Shape::CombRight(r),
        Shape::CombLeft(r),
        Shape::PathThenBalanced(n / 2),
        Shape::BalancedThenPaths(r),
    ];
    let mut seen: Vec<Vec<u32>> = vec![];
    all.into_iter()
        .filter(|s| {
            let k = s.skeleton(n);
            let new = !seen.contains(&k);
            if new {
                seen.push(k);
            }
            new
        })
        .collect()
}

/// Where lazy modifications are pending when the operation starts.
#[derive(Clone, Copy, Debug, PartialEq)]
enum Tags {
    None,
    /// the progression 1 + i at the root
    Root,
    /// at about three of four inner nodes, all six affine maps, each with a progression of step 0, 1 or 2
    /// on top, all depths
    Scattered,
    /// the same, but only in the lower half of the levels: an operation meets them far from the root
    Deep,
}

const TAGS: [Tags; 4] = [Tags::None, Tags::Root, Tags::Scattered, Tags::Deep];
/// the affine maps over Z3 (compositions of add 1 and assign 0); `Tags::at` adds the progression step
const SCATTER: [(u8, u8); 8] = [(1, 0), (1, 1), (0, 0), (1, 2), (0, 1), (1, 1), (1, 0), (0, 2)];

impl Tags {
    fn at(self, pos: usize, depth: usize, height: usize) -> Tag {
        let (a, b) = SCATTER[((pos * 5) ^ (pos >> 3) ^ (depth * 3)) % 8];
        // one node in four stays without a pending modification
        let scattered = if (a, b) == (1, 0) { IDT } else { (a, b, ((pos / 2 + depth) % 3) as u8) };
        match self {
            Tags::None => IDT,
            Tags::Root if depth == 0 => MODS[2],
            Tags::Root => IDT,
            Tags::Scattered => scattered,
            Tags::Deep if 2 * depth >= height => scattered,
            Tags::Deep => IDT,
        }
    }

    fn label(self) -> &'static str {
        match self {
            Tags::None => "none",
            Tags::Root => "root",
            Tags::Scattered => "scattered",
            Tags::Deep => "deep",
        }
    }
}

/// Which priorities the levels of a literal tree get (the node at depth d of a tree with deepest level D).
/// They matter where the crate draws a priority itself (insert_at): `Low` makes the new node a leaf at the
/// end of a long merge seam, `High` makes it the root after a long split, `Spread` puts it somewhere in
/// the middle; `Spread` and `High` use u32::MAX, `Low` and `Spread` use 0.
#[derive(Clone, Copy, Debug, PartialEq)]
enum Prio {
    /// d
    Low,
    /// u32::MAX - (D - d)
    High,
    /// d * u32::MAX / D
    Spread,
}

const PRIOS: [Prio; 3] = [Prio::Low, Prio::High, Prio::Spread];

impl Prio {
    fn of(self, d: u32, deepest: u32) -> u32 {
        match self {
            Prio::Low => d,
            Prio::High => u32::MAX - (deepest - d),
            Prio::Spread => (d as u64 * u32::MAX as u64 / deepest.max(1) as u64) as u32,
        }
    }

    fn label(self) -> &'static str {
        match self {
            Prio::Low => "low",
            Prio::High => "high",
            Prio::Spread => "spread",
        }
    }
}

/// How the priorities of the two operands of a directed merge relate (d = depth of a node in its own tree).
#[derive(Clone, Copy, Debug, PartialEq)]
enum Rel {
    /// every priority of the left operand is below every priority of the right one
    LeftBelow,
    RightBelow,
    /// left 2d, right 2d+1: the seam alternates between the two spines
    Interleaved,
    /// left d, right d: a tie at every step of the seam
    Tied,
}

const RELS: [Rel; 4] = [Rel::LeftBelow, Rel::RightBelow, Rel::Interleaved, Rel::Tied];

impl Rel {
    fn label(self) -> &'static str {
        match self {
            Rel::LeftBelow => "left_below",
            Rel::RightBelow => "right_below",
            Rel::Interleaved => "interleaved",
            Rel::Tied => "tied",
        }
    }
}

/// sizes (subtree, left subtree) and aggregate a node must cache, given what its children cache: the values
/// of its subtree with every modification pending INSIDE the subtree applied (those pending above it are
/// not its business)
fn due_cache(n: &BNode) -> (u32, u32, Vec<u8>) {
    let t = n.item.tag;
    let lsize = n.left.as_ref().map_or(0, |l| l.item.size);
    let mut agg: Vec<u8> = n.left.as_ref().map_or(vec![], |l| l.item.agg.iter().enumerate().map(|(k, &x)| map_val(t, x, k)).collect());
    agg.push(n.item.val);
    if let Some(r) = &n.right {
        agg.extend(r.item.agg.iter().enumerate().map(|(k, &x)| map_val(t, x, lsize as usize + 1 + k)));
    }
    agg.truncate(32);
    (1 + lsize + n.right.as_ref().map_or(0, |r| r.item.size), lsize, agg)
}

struct Built {
    tree: Treap<Big>,
    model: Seq,
    height: usize,
    /// depth of the deepest node that carries a pending modification
    deepest_tag: Option<usize>,
}

/// The tree of `n` nodes of the given shape as a struct literal: element ids `id0`, `id0`+1, … in sequence
/// order, stored values a fixed non-periodic pattern, modifications pending where `tags` says (each counting
/// positions from the first element of the subtree it is pending at), priority of a node = its depth.  The
/// model holds the values with every pending modification applied (a node's own first, then its parent's, …
/// — the order in which they were attached in any history that leads to such a tree).
fn build_shape(shape: Shape, n: usize, tags: Tags, id0: u32) -> Built {
    struct Ctx {
        tags: Tags,
        height: usize,
        id0: u32,
        model: Seq,
        deepest_tag: Option<usize>,
    }
    /// `above`: everything pending above this subtree, positions counted from `lo`
    fn rec(c: &mut Ctx, s: Shape, lo: usize, hi: usize, depth: usize, above: Tag) -> Option<Box<BNode>> {
        if lo == hi {
            return None;
        }
        let (r, ls, rs) = s.root(lo, hi, depth);
        let tag = if hi - lo >= 2 { c.tags.at(r, depth, c.height) } else { IDT };
        if tag != IDT {
            c.deepest_tag = c.deepest_tag.max(Some(depth));
        }
        let val = ((r * r + r / 3) % 3) as u8;
        let left = rec(c, ls, lo, r, depth + 1, compose(above, tag));
        c.model.push((c.id0 + r as u32, map_val(above, val, r - lo)));
        let right = rec(c, rs, r + 1, hi, depth + 1, shift(compose(above, tag), r + 1 - lo));
        let mut node = Box::new(BNode { item: It { id: c.id0 + r as u32, val, size: 1, lsize: 0, agg: vec![], tag }, priority: depth as u32, left, right });
        (node.item.size, node.item.lsize, node.item.agg) = due_cache(&node);
        Some(node)
    }
    let mut c = Ctx { tags, height: shape.height(n), id0, model: vec![], deepest_tag: None };
    let root = rec(&mut c, shape, 0, n, 0, IDT);
    Built { tree: treap_of(root), model: c.model, height: c.height, deepest_tag: c.deepest_tag }
}

/// priority = f(depth) for every node
fn set_priorities(t: &mut Treap<Big>, f: &dyn Fn(u32) -> u32) {
    fn rec(n: &mut Option<Box<BNode>>, d: u32, f: &dyn Fn(u32) -> u32) {
        if let Some(b) = n {
            b.priority = f(d);
            rec(&mut b.left, d + 1, f);
            rec(&mut b.right, d + 1, f);
        }
    }
    rec(&mut t.root, 0, f)
}

/// first position where two sequences differ, for messages about long sequences
fn first_diff(got: &[(u32, u8)], exp: &[(u32, u8)]) -> String {
    let i = got.iter().zip(exp).position(|(a, b)| a != b).unwrap_or(got.len().min(exp.len()));
    format!("{} elements against {} of the vector; first difference at position {i}: (id,value) {:?} against {:?}", got.len(), exp.len(), got.get(i), exp.get(i))
}

/// The invariants of the exploration, in linear time: collect() on a copy gives the model sequence (every
/// pending modification applied exactly once, in attachment order), size() its length, the root aggregate
/// its fold, and every node caches the size and the aggregate of its own subtree.
fn check_big(t: &Treap<Big>, model: &[(u32, u8)]) -> Result<(), String> {
    let mut c = copy_treap(t);
    let got: Seq = c.collect().iter().map(|x| (x.id, x.val)).collect();
    if got != model {
        return Err(format!("collect() would return {}", first_diff(&got, model)));
    }
    if t.size() != model.len() || t.is_empty() != model.is_empty() {
        return Err(format!("size() is {} and is_empty() {}, the vector has {} elements", t.size(), t.is_empty(), model.len()));
    }
    if let Some(r) = t.root() {
        let fold: Vec<u8> = model.iter().take(32).map(|e| e.1).collect();
        if r.agg != fold {
            return Err(format!("root aggregate is {:?}, the fold of the sequence is {:?} (first 32 values)", r.agg, fold));
        }
    }
    let mut err = None;
    for_each_node(&t.root, &mut |n| {
        if err.is_some() {
            return;
        }
        let (size, lsize, agg) = due_cache(n);
        if (n.item.size, n.item.lsize, &n.item.agg) != (size, lsize, &agg) {
            err = Some(format!("node id {} caches size {} (left subtree: {}) and aggregate {:?}, its subtree has size {size} (left subtree: {lsize}) and (pending modifications applied) values {agg:?}", n.item.id, n.item.size, n.item.lsize, n.item.agg));
        }
    });
    err.map_or(Ok(()), Err)
}

/// One directed operation: a tree (shape, n, tags, prio) — for `merge` also a second one and the relation of
/// their priorities — and an operation `fam` with parameters `a`, `b` (their meaning: see `run`).
#[derive(Clone, Debug)]
struct ShapeCase {
    fam: &'static str,
    shape: Shape,
    n: usize,
    tags: Tags,
    prio: Prio,
    a: usize,
    b: usize,
    other: Option<(Shape, usize, Tags, Rel)>,
}

const SHAPE_FAMILIES: [&str; 9] = ["observe", "split_at", "split_by", "insert_at", "remove_at", "apply", "range_apply", "merge", "drops"];

/// what a sweep over shape cases saw, for the evidence
#[derive(Default)]
struct ShapeStats {
    cases: u64,
    judged_trees: u64,
    max_height: usize,
    deepest_tag: usize,
    per_family: [u64; 9],
}

impl ShapeStats {
    fn absorb(&mut self, o: ShapeStats) {
        self.cases += o.cases;
        self.judged_trees += o.judged_trees;
        self.max_height = self.max_height.max(o.max_height);
        self.deepest_tag = self.deepest_tag.max(o.deepest_tag);
        for (a, b) in self.per_family.iter_mut().zip(o.per_family) {
            *a += b;
        }
    }
}

impl ShapeCase {
    fn signature(&self) -> String {
        let other = self.other.map_or(String::new(), |(s, n, t, r)| format!(":with={}/n={n}/tags={}/{}", s.label(), t.label(), r.label()));
        format!("shapes:{}:{}/n={}/tags={}/prio={}:a={}:b={}{other}", self.fam, self.shape.label(), self.n, self.tags.label(), self.prio.label(), self.a, self.b)
    }

    fn describe(&self) -> String {
        let tree = |s: Shape, n: usize, t: Tags| format!("{} of {n} nodes, pending modifications: {}", s.label(), t.label());
        let (a, b) = (self.a, self.b);
        let op = match (self.fam, self.other) {
            ("merge", Some((s, n, t, r))) => format!("merged with ({}) on its right, priorities {}", tree(s, n, t), r.label()),
            ("observe", _) => "first, last, collect".to_string(),
            ("split_at" | "split_by", _) => format!("{}({a}), then the parts merged", self.fam),
            ("insert_at", _) => format!("insert_at({a}), then remove_at({a})"),
            ("apply", _) => format!("modification #{b} attached at the root, then split_at({a}) and merge"),
            ("range_apply", _) => format!("positions {a}..{b} split out, modified at their root, merged back"),
            ("drops", _) => format!("drop accounting (elements of plain integers whose destructor counts): remove_at({a}) with the item kept, insert_at({a}), split_at({b}), the left part dropped, the kept item dropped, first/last/collect, the right part dropped"),
            (f, _) => format!("{f}({a})"),
        };
        format!("({}, priorities by depth: {}) {op}", tree(self.shape, self.n, self.tags), self.prio.label())
    }

    fn to_json(&self) -> Value {
        let other = self.other.map(|(s, n, t, r)| json!({"shape": s.label(), "n": n, "tags": t.label(), "relation": r.label()}));
        json!({"kind": "shape", "family": self.fam, "shape": self.shape.label(), "n": self.n, "tags": self.tags.label(), "priorities": self.prio.label(), "a": self.a, "b": self.b, "other": other})
    }

    fn from_json(v: &Value) -> Result<ShapeCase, String> {
        let num = |x: &Value, k: &str| x[k].as_u64().map(|n| n as usize).ok_or_else(|| format!("{k} missing"));
        let shape = |x: &Value, n: usize| shapes_for(n).into_iter().find(|s| Some(s.label().as_str()) == x["shape"].as_str()).ok_or_else(|| format!("unknown shape {} at n={n}", x["shape"]));
        let tags = |x: &Value| TAGS.into_iter().find(|t| Some(t.label()) == x["tags"].as_str()).ok_or("unknown tags");
        let fam = SHAPE_FAMILIES.into_iter().find(|f| Some(*f) == v["family"].as_str()).ok_or("unknown family")?;
        let prio = PRIOS.into_iter().find(|p| Some(p.label()) == v["priorities"].as_str()).ok_or("unknown priorities")?;
        let n = num(v, "n")?;
        let other = match &v["other"] {
            Value::Null => None,
            o => {
                let n2 = num(o, "n")?;
                Some((shape(o, n2)?, n2, tags(o)?, RELS.into_iter().find(|r| Some(r.label()) == o["relation"].as_str()).ok_or("unknown relation")?))
            }
        };
        Ok(ShapeCase { fam, shape: shape(v, n)?, n, tags: tags(v)?, prio, a: num(v, "a")?, b: num(v, "b")?, other })
    }

    /// Builds the tree(s), applies the operation to the real code and judges every treap it leaves.
    /// Must run on a thread with a generous stack: the crate's operations recurse once per level.
    fn run(&self, stats: &mut ShapeStats) -> Result<(), String> {
        catch(|| self.run_inner(stats)).unwrap_or_else(|p| Err(format!("panicked: {p}")))
    }

    /// The tree of `n` plain-integer elements (ids = positions) of this case's shape, priorities by depth.
    fn build_dr(&self) -> Treap<Dr> {
        fn rec(s: Shape, lo: usize, hi: usize, depth: usize, prio: &dyn Fn(u32) -> u32) -> Option<Box<TreapNode<Dr>>> {
            if lo == hi {
                return None;
            }
            let (r, ls, rs) = s.root(lo, hi, depth);
            let item = Dr { size: (hi - lo) as u32, ..Dr::new(r as u32) };
            Some(Box::new(TreapNode { item, priority: prio(depth as u32), left: rec(ls, lo, r, depth + 1, prio), right: rec(rs, r + 1, hi, depth + 1, prio) }))
        }
        let deepest = self.shape.height(self.n).saturating_sub(1) as u32;
        treap_of(rec(self.shape, 0, self.n, 0, &|d| self.prio.of(d, deepest)))
    }

    /// Drop accounting on a literal tree: after every step every element still in a treap or in the
    /// caller's hands has been destroyed 0 times, every element that has left exactly once.
    fn run_drops(&self, stats: &mut ShapeStats) -> Result<(), String> {
        let ShapeCase { n, a, b, .. } = *self;
        let mut table = DropTable { counts: vec![0; n], stray: None };
        let mut t = self.build_dr();
        stats.max_height = stats.max_height.max(self.shape.height(n));
        with_table(&mut table, move || {
            let mut model: Vec<u32> = (0..n as u32).collect();
            let mut kept: Option<u32> = None;
            let mut judge = |what: &str, ts: &mut [&mut Treap<Dr>], model: &[u32], kept: Option<u32>| -> Result<(), String> {
                stats.judged_trees += 1;
                let got: Vec<u32> = ts.iter_mut().flat_map(|t| t.collect().into_iter().map(|x| x.id)).collect();
                if got != model {
                    return Err(format!("{what}: collect() returns {} elements, the vector has {}; first difference at position {:?}", got.len(), model.len(), got.iter().zip(model).position(|(x, y)| x != y)));
                }
                table_now().check(&|id| if model.contains(&id) { Some("still in a live treap") } else if kept == Some(id) { Some("in the caller's hands (remove_at returned it and the caller has not dropped it)") } else { None }).map_err(|m| format!("{what}: {m}"))
            };
            judge("the tree as written down", &mut [&mut t], &model, kept)?;
            let item = (a < n).then(|| t.remove_at(a));
            if let Some(it) = &item {
                let e = model.remove(a);
                if it.id != e || !it.intact() || it.size != 1 {
                    return Err(format!("remove_at({a}) returned an item that reads id {}, check {:#x}, size {}; the vector holds element #{e} (check {:#x}, size 1)", it.id, it.check, it.size, dr_check(e)));
                }
                kept = Some(e);
            }
            judge("after remove_at, the returned item kept", &mut [&mut t], &model, kept)?;
            let at = a.min(model.len());
            DROPS.with(|d| d.borrow_mut().as_mut().unwrap().counts.push(0));
            t.insert_at(at, Dr::new(n as u32));
            model.insert(at, n as u32);
            judge("after insert_at", &mut [&mut t], &model, kept)?;
            let cut = b.min(model.len());
            let (l, mut r) = t.split_at(cut);
            drop(l);
            model.drain(..cut);
            judge("after split_at and the drop of the left part", &mut [&mut r], &model, kept)?;
            if let Some(it) = item {
                if !it.intact() {
                    return Err(format!("the item remove_at({a}) returned reads check {:#x} by now", it.check));
                }
                drop(it);
                kept = None;
            }
            judge("after the drop of the returned item", &mut [&mut r], &model, kept)?;
            if r.first().map(|x| x.id) != model.first().copied() || r.last().map(|x| x.id) != model.last().copied() {
                return Err("first() / last() of the right part disagree with the vector".into());
            }
            judge("after first and last", &mut [&mut r], &model, kept)?;
            drop(r);
            judge("at the end, everything dropped", &mut [], &[], None)
        })
    }

    fn run_inner(&self, stats: &mut ShapeStats) -> Result<(), String> {
        let ShapeCase { fam, shape, n, tags, prio, a, b, other } = self.clone();
        if fam == "drops" {
            stats.cases += 1;
            stats.per_family[SHAPE_FAMILIES.iter().position(|f| *f == fam).unwrap()] += 1;
            return self.run_drops(stats);
        }
        let Built { tree: mut t, mut model, height, deepest_tag } = build_shape(shape, n, tags, 0);
        let deepest = height.saturating_sub(1) as u32;
        set_priorities(&mut t, &|d| prio.of(d, deepest));
        stats.cases += 1;
        stats.per_family[SHAPE_FAMILIES.iter().position(|f| *f == fam).unwrap()] += 1;
        stats.max_height = stats.max_height.max(height);
        stats.deepest_tag = stats.deepest_tag.max(deepest_tag.unwrap_or(0));
        let mut judge = |what: &str, t: &Treap<Big>, model: &[(u32, u8)]| -> Result<(), String> {
            stats.judged_trees += 1;
            check_big(t, model).map_err(|m| format!("{what}: {m}"))
        };
        match fam {
            // the literal itself, then the walks that read elements (they push on their way)
            "observe" => {
                judge("the tree as written down", &t, &model)?;
                // last() and collect() also on a copy of the literal: there they meet the modifications
                // that first() would have pushed out of their way
                let mut c = copy_treap(&t);
                let got = c.last().map(|x| (x.id, x.val));
                if got != model.last().copied() {
                    return Err(format!("last() on the tree as written down returned {:?}, the vector gives {:?}", got, model.last()));
                }
                judge("after last() on the tree as written down", &c, &model)?;
                let mut c = copy_treap(&t);
                let got: Seq = c.collect().iter().map(|x| (x.id, x.val)).collect();
                if got != model {
                    return Err(format!("collect() on the tree as written down returned {}", first_diff(&got, &model)));
                }
                judge("after collect() on the tree as written down", &c, &model)?;
                let got = t.first().map(|x| (x.id, x.val));
                if got != model.first().copied() {
                    return Err(format!("first() returned {:?}, the vector gives {:?}", got, model.first()));
                }
                judge("after first()", &t, &model)?;
                let got = t.last().map(|x| (x.id, x.val));
                if got != model.last().copied() {
                    return Err(format!("last() returned {:?}, the vector gives {:?}", got, model.last()));
                }
                judge("after last()", &t, &model)?;
                let got: Seq = t.collect().iter().map(|x| (x.id, x.val)).collect();
                if got != model {
                    return Err(format!("collect() returned {}", first_diff(&got, &model)));
                }
                judge("after collect()", &t, &model)?;
            }
            // a = position; the parts, then the parts merged again
            "split_at" | "split_by" => {
                let (l, r) = if fam == "split_at" { t.split_at(a) } else { t.split_by(|it| (it.id as usize) < a) };
                if l.size() != a || r.size() != n - a {
                    return Err(format!("parts have sizes {} and {}, expected {a} and {}", l.size(), r.size(), n - a));
                }
                judge("left part", &l, &model[..a])?;
                judge("right part", &r, &model[a..])?;
                judge("the parts merged again", &Treap::merge(l, r), &model)?;
            }
            // a = position; a new element (odd positions: one that carries a stale pending tag — add 1 or the
            // progression), then out again
            "insert_at" => {
                let new = (n as u32, [2, 4, 2, 9][a % 4]);
                t.insert_at(a, make_item(new.0, new.1));
                model.insert(a, (new.0, new.1 % 4));
                judge("after insert_at", &t, &model)?;
                let it = t.remove_at(a);
                if (it.id, it.val) != model.remove(a) {
                    return Err(format!("remove_at({a}) after insert_at({a}) returned (id,value) ({},{})", it.id, it.val));
                }
                judge("after removing the inserted element", &t, &model)?;
            }
            // a = position
            "remove_at" => {
                let it = t.remove_at(a);
                let e = model.remove(a);
                if (it.id, it.val) != e || it.size != 1 || it.agg != vec![it.val] {
                    return Err(format!("remove_at({a}) returned (id,value) ({},{}) with size {} and aggregate {:?}, the vector holds {:?}", it.id, it.val, it.size, it.agg, e));
                }
                judge("after remove_at", &t, &model)?;
            }
            // a = position, b = modification: attached at the root, then pushed through a split and a merge
            "apply" => {
                let md = MODS[b];
                if let Some(r) = t.root_mut() {
                    r.apply(md);
                }
                model.iter_mut().enumerate().for_each(|(k, e)| e.1 = map_val(md, e.1, k));
                judge("after a modification at the root", &t, &model)?;
                let (l, r) = t.split_at(a);
                judge("left part", &l, &model[..a])?;
                judge("right part", &r, &model[a..])?;
                judge("the parts merged again", &Treap::merge(l, r), &model)?;
            }
            // positions a..b split out, modified at their root, everything merged again
            "range_apply" => {
                let (l, rest) = t.split_at(a);
                let (mut mid, r) = rest.split_at(b - a);
                judge("the middle part", &mid, &model[a..b])?;
                let md = MODS[(a + b) % MODS.len()];
                if let Some(r) = mid.root_mut() {
                    r.apply(md);
                }
                model[a..b].iter_mut().enumerate().for_each(|(k, e)| e.1 = map_val(md, e.1, k));
                judge("the modified middle part", &mid, &model[a..b])?;
                judge("the three parts merged again", &Treap::merge(Treap::merge(l, mid), r), &model)?;
            }
            // merge(this tree, the other one)
            "merge" => {
                let (s2, n2, tags2, rel) = other.ok_or("merge without a second tree")?;
                let Built { tree: mut u, model: m2, height: h2, deepest_tag: d2 } = build_shape(s2, n2, tags2, n as u32);
                stats.max_height = stats.max_height.max(h2);
                stats.deepest_tag = stats.deepest_tag.max(d2.unwrap_or(0));
                let (hl, hr) = (height as u32, h2 as u32);
                match rel {
                    Rel::LeftBelow => set_priorities(&mut u, &|d| hl + d),
                    Rel::RightBelow => set_priorities(&mut t, &|d| hr + d),
                    Rel::Interleaved => {
                        set_priorities(&mut t, &|d| 2 * d);
                        set_priorities(&mut u, &|d| 2 * d + 1);
                    }
                    Rel::Tied => {}
                }
                model.extend(m2);
                judge("the merged tree", &Treap::merge(t, u), &model)?;
            }
            _ => return Err(format!("unknown family {fam}")),
        }
        Ok(())
    }
}

/// Positions of a sequence of n elements at which the positional operations are tried: all of them for
/// n <= `all_up_to`, otherwise the two ends, the middle, and the neighbours of the powers of two from 32 on
/// counted from either end (`thin`: of 64 only).
fn shape_positions(n: usize, all_up_to: usize, thin: bool) -> Vec<usize> {
    if n <= all_up_to {
        return (0..=n).collect();
    }
    let mut v = vec![0, 1, 2, n / 2 - 1, n / 2, n / 2 + 1, n - 2, n - 1, n];
    for p in [32usize, 64, 128, 256, 512, 1024, 2048] {
        if p + 1 <= n && (!thin || p == 64) {
            v.extend([p - 1, p, p + 1, n - p - 1, n - p, n - p + 1]);
        }
    }
    v.sort();
    v.dedup();
    v
}

/// The sizes, the positions and the second operands of the directed shape sweep of a tier.
struct ShapePlan {
    sizes: Vec<usize>,
    /// every position up to this size, a boundary set above it
    all_positions_up_to: usize,
    /// from this size on: the thin boundary set, and only `Tags::None` / `Tags::Scattered`
    thin_from: usize,
    merge_sizes: Vec<usize>,
}

impl ShapePlan {
    fn of(quick: bool, dbg_child: bool) -> ShapePlan {
        let near_powers = |top: u32| (5..=top).flat_map(|k| [(1usize << k) - 1, 1 << k, (1 << k) + 1]).collect::<Vec<_>>();
        let mut plan = Self::unsorted(quick, dbg_child, &near_powers);
        plan.sizes.sort();
        plan.sizes.dedup();
        plan
    }

    fn unsorted(quick: bool, dbg_child: bool, near_powers: &dyn Fn(u32) -> Vec<usize>) -> ShapePlan {
        if dbg_child {
            ShapePlan { sizes: (1..=8).chain([65, 129]).collect(), all_positions_up_to: 8, thin_from: 65, merge_sizes: vec![1, 3, 65] }
        } else if quick {
            ShapePlan { sizes: (1..=24).chain(near_powers(7)).chain([66, 257, 1025]).collect(), all_positions_up_to: 24, thin_from: 200, merge_sizes: vec![1, 2, 3, 8, 33, 65, 129] }
        } else {
            ShapePlan { sizes: (1..=64).chain(near_powers(11)).chain([66]).collect(), all_positions_up_to: 64, thin_from: usize::MAX, merge_sizes: vec![1, 2, 3, 8, 33, 65, 129, 257, 1025] }
        }
    }

    /// The work of the sweep in enumeration order (sizes ascending, shapes in family order), cut into groups
    /// that can run in parallel; inside a group: tags, priorities, operations, positions ascending.
    /// `drops`: the drop-accounting cases (they run before anything that uses heap-owning items), or all others.
    fn groups(&self, drops: bool) -> Vec<Vec<ShapeCase>> {
        let mut groups = self.all_groups();
        for g in groups.iter_mut() {
            g.retain(|c| (c.fam == "drops") == drops);
        }
        groups.retain(|g| !g.is_empty());
        groups
    }

    fn all_groups(&self) -> Vec<Vec<ShapeCase>> {
        let mut groups = vec![];
        for &n in &self.sizes {
            let thin = n >= self.thin_from;
            let pos = shape_positions(n, self.all_positions_up_to, thin);
            // ends of the split-out ranges: a coarse subset of the positions
            let mut ends = vec![0, 1, n / 3, n / 2, n - 1, n];
            ends.sort();
            ends.dedup();
            for shape in shapes_for(n) {
                let mut g = vec![];
                for tags in TAGS {
                    if thin && !matches!(tags, Tags::None | Tags::Scattered) {
                        continue;
                    }
                    let case = |fam, prio, a, b| ShapeCase { fam, shape, n, tags, prio, a, b, other: None };
                    // only insert_at draws a priority: it runs under all three assignments, the others
                    // under one each (all of them compare the same pairs of nodes under any of the three)
                    g.push(case("observe", Prio::Spread, 0, 0));
                    for &a in &pos {
                        g.push(case("split_at", Prio::Low, a, 0));
                        g.push(case("split_by", Prio::High, a, 0));
                        for prio in PRIOS {
                            g.push(case("insert_at", prio, a, 0));
                        }
                        if a < n {
                            g.push(case("remove_at", Prio::Spread, a, 0));
                        }
                    }
                    // drop accounting does not involve the tags: once per (shape, removed position a, cut b).
                    // Priorities `low`: whatever insert_at draws lies above them, so the case does not
                    // depend on the draw (the new node becomes a leaf at the end of the merge seam)
                    if tags == Tags::None {
                        for &a in &pos {
                            for &b in &ends {
                                g.push(case("drops", Prio::Low, a, b));
                            }
                        }
                    }
                    for &a in &ends {
                        for m in 0..MODS.len() {
                            g.push(case("apply", Prio::Low, a, m));
                        }
                        for &b in ends.iter().filter(|&&b| b > a) {
                            g.push(case("range_apply", Prio::High, a, b));
                        }
                    }
                }
                groups.push(g);
            }
        }
        // directed merges: every ordered pair of (size, shape), the tags equal on both sides or absent on one
        let ms = &self.merge_sizes;
        for &n in ms {
            for shape in shapes_for(n) {
                let mut g = vec![];
                for &n2 in ms {
                    for s2 in shapes_for(n2) {
                        for (tags, tags2) in [(Tags::None, Tags::None), (Tags::Scattered, Tags::Scattered), (Tags::Root, Tags::None), (Tags::None, Tags::Deep)] {
                            for rel in RELS {
                                g.push(ShapeCase { fam: "merge", shape, n, tags, prio: Prio::Low, a: 0, b: 0, other: Some((s2, n2, tags2, rel)) });
                            }
                        }
                    }
                }
                groups.push(g);
            }
        }
        groups
    }
}

/// Runs the groups on 16 threads with generous stacks; returns the statistics and, per family, the first
/// failing case in enumeration order.
fn shape_sweep(groups: &[Vec<ShapeCase>]) -> (ShapeStats, Vec<(ShapeCase, String)>) {
    use std::sync::atomic::AtomicUsize;
    use std::sync::Mutex;
    // the most expensive groups first
    let mut order: Vec<usize> = (0..groups.len()).collect();
    order.sort_by_key(|&i| std::cmp::Reverse(groups[i].len() * groups[i].first().map_or(0, |c| c.n + c.other.map_or(0, |o| o.1))));
    let next = AtomicUsize::new(0);
    type Out = (ShapeStats, Vec<(ShapeCase, String)>);
    let out: Mutex<Vec<Option<Out>>> = Mutex::new((0..groups.len()).map(|_| None).collect());
    std::thread::scope(|sc| {
        for _ in 0..16 {
            std::thread::Builder::new()
                .stack_size(SHAPE_STACK_MB << 20)
                .spawn_scoped(sc, || loop {
                    let j = next.fetch_add(1, Ordering::Relaxed);
                    let Some(&i) = order.get(j) else { break };
                    let mut stats = ShapeStats::default();
                    let mut fails: Vec<(ShapeCase, String)> = vec![];
                    for case in &groups[i] {
                        if fails.iter().any(|f| f.0.fam == case.fam) {
                            continue;
                        }
                        if let Err(m) = case.run(&mut stats) {
                            fails.push((case.clone(), m));
                        }
                    }
                    out.lock().unwrap()[i] = Some((stats, fails));
                })
                .expect("cannot start a thread");
        }
    });
    let mut total = ShapeStats::default();
    let mut first: Vec<(ShapeCase, String)> = vec![];
    for (stats, fails) in out.into_inner().unwrap().into_iter().map(|o| o.unwrap()) {
        total.absorb(stats);
        for f in fails {
            if !first.iter().any(|g| g.0.fam == f.0.fam) {
                first.push(f);
            }
        }
    }
    (total, first)
}

/// stack of the threads that operate on the literal trees: the crate recurses once per level (about a
/// thousand frames on the tallest trees here), the harness's own walks and the drop of a tree likewise
const SHAPE_STACK_MB: usize = 256;

// ---------------------------------------------------------------------------------------------
// C16 (b): long adversarial histories through the REAL priority generator

#[derive(Default, Clone)]
struct Sz {
    size: u32,
    /// which element of its history this is (0 in the histories that judge shape only)
    id: u32,
}
impl TreapItem for Sz {
    fn update(&mut self, l: Option<&Self>, r: Option<&Self>) {
        self.size = 1 + l.map_or(0, |x| x.size) + r.map_or(0, |x| x.size);
    }
}
impl TreapItemSized for Sz {
    fn size(&self) -> usize {
        self.size as usize
    }
}

fn height(t: &Treap<Sz>) -> usize {
    let mut best = 0;
    let mut stack: Vec<(&TreapNode<Sz>, usize)> = vec![];
    if let Some(r) = &t.root {
        stack.push((r, 1));
    }
    while let Some((n, d)) = stack.pop() {
        best = best.max(d);
        if let Some(l) = &n.left {
            stack.push((l, d + 1));
        }
        if let Some(r) = &n.right {
            stack.push((r, d + 1));
        }
    }
    best
}

fn heap_ok(t: &Treap<Sz>) -> bool {
    let (mut up, mut down) = (false, false);
    let mut stack: Vec<&TreapNode<Sz>> = vec![];
    if let Some(r) = &t.root {
        stack.push(r);
    }
    while let Some(n) = stack.pop() {
        for c in [&n.left, &n.right].into_iter().flatten() {
            if n.priority < c.priority {
                up = true;
            }
            if n.priority > c.priority {
                down = true;
            }
            stack.push(c);
        }
    }
    !(up && down)
}

fn bound(n: usize) -> f64 {
    5.0 * ((n + 1) as f64).log2() + 20.0
}

/// How a block of the block-concatenation family is built.
#[derive(Clone, Copy, Debug, PartialEq)]
enum Fill {
    /// `Treap::new()`, then appends
    NewAppend,
    /// `Treap::new()`, then front insertions
    NewFront,
    /// `Treap::from_item(..)`, then appends
    FromItem,
    /// `t = merge(t, Treap::from_item(..))` for every element (chunks family only)
    FromItemMerge,
}

/// In which order the chunks built on different threads are concatenated.
#[derive(Clone, Copy, Debug, PartialEq)]
enum Concat {
    /// `acc = merge(acc, chunk_i)` for i = 0, 1, …
    Forward,
    /// `acc = merge(chunk_i, acc)` for i = 0, 1, …: the chunk of the last thread comes first
    Mirrored,
    /// adjacent pairs, then adjacent pairs of the results, … (a balanced tree of merges)
    Pairwise,
}

/// How long the threads of the chunks family live.
#[derive(Clone, Copy, Debug, PartialEq)]
enum Life {
    /// every worker is started only after the previous one has exited and been joined: no two lifetimes overlap
    Joined,
    /// every worker stays alive (parked) after handing over its chunk until the history ends: all lifetimes
    /// overlap; the workers are still started one after another
    Parked,
    /// as `Joined`, but this many long-lived threads have each created one node before the first worker
    /// starts and stay alive until the history ends
    Residents(usize),
}

/// Which worker threads of a multi-thread history carry a name (`std::thread::Builder::name`).  A thread's
/// attributes are visible to the code under test, so its generators could be keyed on them; a thread pool
/// typically gives all of its workers one and the same name.
#[derive(Clone, Copy, Debug, PartialEq)]
enum Names {
    /// none (what `std::thread::spawn` gives)
    Unnamed,
    /// all of them, one name for all
    Same,
    /// all of them, every one its own name
    Distinct,
    /// every second one (the odd ones of the order in which they are started), one name for all of those
    Some,
}

const NAMED: [Names; 3] = [Names::Same, Names::Distinct, Names::Some];

impl Names {
    /// the name of the i-th worker thread of a history
    fn of(self, i: usize) -> Option<String> {
        match self {
            Names::Unnamed => None,
            Names::Same => Some("worker".to_string()),
            Names::Distinct => Some(format!("worker-{i}")),
            Names::Some => (i % 2 == 1).then(|| "worker".to_string()),
        }
    }

    /// suffix of a history's label
    fn label(self) -> &'static str {
        match self {
            Names::Unnamed => "",
            Names::Same => "/names=same",
            Names::Distinct => "/names=distinct",
            Names::Some => "/names=some",
        }
    }
}

/// One directed history.  Every family is parametrised by a size `n` whose meaning is given per variant.
#[derive(Clone, Copy, Debug, PartialEq)]
enum Hist {
    /// one treap whose nodes are consecutive draws of the thread; n = final number of elements
    Basic(&'static str),
    /// block concatenation: repeatedly build a block of `b` elements in a treap of its own and merge it
    /// behind (or, `blk_left`, in front of) everything built so far; n = total number of elements
    Blocks { b: usize, fill: Fill, blk_left: bool },
    /// strided ownership: `k` treaps filled round-robin (treap i owns creations i, i+k, i+2k, …) by appends
    /// or front insertions; n = elements per treap; every one of the k treaps is probed
    Strided { k: usize, front: bool },
    /// insert/remove rhythm: every round inserts `w` elements at one end and removes the w-1 older ones of
    /// that burst again, so the survivors are every w-th creation; n = rounds = final number of elements
    Window { w: usize, front: bool },
    /// fixed-length queue: after `len` insertions every step inserts at one end and removes at the other;
    /// n = number of such steps
    Queue { len: usize, front: bool },
    /// appends (front insertions) into one treap with operations that create no node in between;
    /// n = final number of elements
    Interleaved { op: &'static str, front: bool },
    /// grow, remove, grow again: REGROW_BASE elements, then `removed` ("one" / "half" / "all") of them taken
    /// out by remove_at at `at` ("front" / "middle" / "back"), then n monotone insertions with no removal in
    /// between; n = number of insertions of the last phase
    Regrow { at: &'static str, removed: &'static str, front: bool },
    /// every thread ordinal of a process: threads #0 … #n-1 run one after another, each is the next thread
    /// of the process to create a node and builds a treap of ORDINAL_ELEMS elements by appends (front
    /// insertions); n = number of threads
    Ordinals { front: bool, names: Names },
    /// chunks built on different threads: `threads` workers, one after another, each build a chunk of `c`
    /// elements on a thread that has never created a node and hand it over; the collecting thread
    /// concatenates the chunks with Treap::merge; every chunk is probed, and so is every intermediate result
    /// (from the 33rd merge on: those that have doubled in size, and the last one)
    Chunks { threads: usize, c: usize, fill: Fill, order: Concat, life: Life, names: Names },
    /// nodes created round-robin by `threads` live workers (worker w creates the single-node treaps
    /// w, w+threads, … of the sequence, one per request) and put into one treap by the collecting thread
    /// with merge at the back / at the front / in the middle (split_at + two merges); n = nodes per worker
    RoundRobin { threads: usize, mode: &'static str, names: Names },
    /// self-similar histories (only when the checked tree offers a copy operation, see `library_copy`): a
    /// treap of `seed` appended elements, then n rounds of `how`: "double" t = merge(copy(t), t), "double_front"
    /// t = merge(t, copy(t)), "triple" t = merge(merge(copy(t), t), copy(t)), "copy_split_merge" (a, b) =
    /// copy(t).split_at(size/2), t = merge(merge(a, t), b); n = number of rounds; probed after every round
    SelfSimilar { seed: usize, how: &'static str },
}

const BASIC: &[&str] = &["append", "push_front", "insert_middle", "rotate", "append_remove_alternate", "two_treaps_then_merge", "from_item_merge", "insert_one_third"];
const BLOCK_SIZES: &[usize] = &[1, 2, 8, 64];
/// strides / burst lengths: small ones, Fibonacci numbers (the worst case of additive generators),
/// round decimal and binary ones
const STRIDES: &[usize] = &[2, 3, 5, 7, 8, 10, 13, 21, 34, 55, 89, 100, 128, 144, 233, 377, 1000];
const QUEUE_LENS: &[usize] = &[64, 256, 1024, 4096, 16384];
const QUIET_OPS: &[&str] = &["new_empty", "merge_empty", "other_rotate", "other_queries", "self_split_merge", "all"];
const REGROW_BASE: usize = 1000;
/// elements per thread of the thread-ordinal sweep: a path of 256 is far over the bound (60.0)
const ORDINAL_ELEMS: usize = 256;
/// Worker counts of the chunks family: a few threads, and many short-lived ones (a program that starts a
/// worker per batch).  Whatever the code derives a thread's generator from — how many threads came before,
/// how many are alive, a number handed back at exit — must keep hundreds of such workers apart: if their
/// streams repeat each other, the i-th nodes of all chunks tie and the concatenation is a chain of T nodes.
const CHUNK_THREADS: &[usize] = &[2, 4, 8, 16, 32, 64, 128, 256, 512, 1024];
const CHUNK_SIZES: &[usize] = &[1, 8, 100, 1000, 10000];
const CHUNK_LIVES: &[Life] = &[Life::Joined, Life::Parked, Life::Residents(3)];
/// chunk sizes of the chunk histories whose workers carry names (built by appends; every worker count,
/// every order of concatenation, workers joined one by one or all kept alive)
const NAMED_CHUNK_SIZES: &[usize] = &[1, 100];
/// (largest worker count, most elements of one history, largest count of workers that all stay alive) of the
/// chunks family
fn chunk_limits(quick: bool) -> (usize, usize, usize) {
    if quick {
        (512, 1 << 19, 128)
    } else {
        (1024, 1 << 22, 1024)
    }
}
/// Worker counts of the round-robin family.  If the threads' generators repeat each other, T workers
/// produce runs of T equal priorities; merge lets the right root win a tie, so the height becomes about
/// T times the number of running minima of the stream (over the bound from T = 8 on).
const RR_THREADS: &[usize] = &[2, 4, 8, 16, 32];
const RR_MODES: &[&str] = &["back", "front", "middle"];
/// Self-similar histories: a copy that keeps the priorities of its original makes one treap hold the same
/// priority many times; merge lets the right root win a tie, so r copies of a node form a path of r nodes.
const SELF_SEEDS: &[usize] = &[1, 2, 3, 100, 500];
const SELF_HOWS: &[&str] = &["double", "double_front", "triple", "copy_split_merge"];
/// rounds: the treap grows by the factor 2 (3) per round, up to 500 * 2^10 = 512000 elements
fn self_rounds(how: &str) -> usize {
    if how == "triple" {
        6
    } else {
        10
    }
}

/// The whole menu (of the thorough tier; the quick tier leaves out the largest chunk histories, see
/// `in_tier`), simplest first inside every family.
fn menu() -> Vec<Hist> {
    let mut v: Vec<Hist> = BASIC.iter().map(|m| Hist::Basic(m)).collect();
    for &b in BLOCK_SIZES {
        for fill in [Fill::NewAppend, Fill::NewFront, Fill::FromItem] {
            for blk_left in [false, true] {
                v.push(Hist::Blocks { b, fill, blk_left });
            }
        }
    }
    for front in [false, true] {
        v.extend(STRIDES.iter().map(|&k| Hist::Strided { k, front }));
    }
    for front in [false, true] {
        v.extend(STRIDES.iter().map(|&w| Hist::Window { w, front }));
    }
    for front in [false, true] {
        v.extend(QUEUE_LENS.iter().map(|&len| Hist::Queue { len, front }));
    }
    for front in [false, true] {
        v.extend(QUIET_OPS.iter().map(|&op| Hist::Interleaved { op, front }));
    }
    for removed in ["one", "half", "all"] {
        for at in ["front", "middle", "back"] {
            for front in [false, true] {
                v.push(Hist::Regrow { at, removed, front });
            }
        }
    }
    for names in [Names::Unnamed].into_iter().chain(NAMED) {
        for front in [false, true] {
            v.push(Hist::Ordinals { front, names });
        }
    }
    for &threads in CHUNK_THREADS {
        for &c in CHUNK_SIZES {
            for fill in [Fill::NewAppend, Fill::NewFront, Fill::FromItemMerge] {
                for order in [Concat::Forward, Concat::Mirrored, Concat::Pairwise] {
                    for &life in CHUNK_LIVES {
                        v.push(Hist::Chunks { threads, c, fill, order, life, names: Names::Unnamed });
                    }
                }
            }
        }
    }
    for names in NAMED {
        for &threads in CHUNK_THREADS {
            for &c in NAMED_CHUNK_SIZES {
                for order in [Concat::Forward, Concat::Mirrored, Concat::Pairwise] {
                    for life in [Life::Joined, Life::Parked] {
                        v.push(Hist::Chunks { threads, c, fill: Fill::NewAppend, order, life, names });
                    }
                }
            }
        }
    }
    for names in [Names::Unnamed].into_iter().chain(NAMED) {
        for &threads in RR_THREADS {
            for &mode in RR_MODES {
                v.push(Hist::RoundRobin { threads, mode, names });
            }
        }
    }
    for &how in SELF_HOWS {
        v.extend(SELF_SEEDS.iter().map(|&seed| Hist::SelfSimilar { seed, how }));
    }
    v
}

fn fill_name(fill: Fill) -> &'static str {
    match fill {
        Fill::NewAppend => "new+append",
        Fill::NewFront => "new+push_front",
        Fill::FromItem => "from_item+append",
        Fill::FromItemMerge => "from_item+merge",
    }
}

impl Hist {
    /// name used in signatures and replay files (no ':' inside)
    fn label(&self) -> String {
        let end = |front: bool| if front { "front" } else { "back" };
        match *self {
            Hist::Basic(m) => m.to_string(),
            Hist::Blocks { b, fill, blk_left } => format!("blocks/b={b}/{}/{}", fill_name(fill), if blk_left { "merge(blk,t)" } else { "merge(t,blk)" }),
            Hist::Strided { k, front } => format!("strided/k={k}/{}", end(front)),
            Hist::Window { w, front } => format!("window/w={w}/{}", end(front)),
            Hist::Queue { len, front } => format!("queue/len={len}/{}", end(front)),
            Hist::Interleaved { op, front } => format!("interleaved/{op}/{}", end(front)),
            Hist::Regrow { at, removed, front } => format!("regrow/remove_{removed}_at_{at}/{}", end(front)),
            Hist::Ordinals { front, names } => format!("thread_ordinals/{}{}", end(front), names.label()),
            Hist::Chunks { threads, c, fill, order, life, names } => {
                let o = match order {
                    Concat::Forward => "merge(acc,chunk)",
                    Concat::Mirrored => "merge(chunk,acc)",
                    Concat::Pairwise => "pairwise",
                };
                let l = match life {
                    Life::Joined => String::new(),
                    Life::Parked => "/workers_stay_alive".to_string(),
                    Life::Residents(k) => format!("/{k}_resident_threads"),
                };
                format!("chunks/T={threads}/c={c}/{}/{o}{l}{}", fill_name(fill), names.label())
            }
            Hist::RoundRobin { threads, mode, names } => format!("roundrobin/T={threads}/{mode}{}", names.label()),
            Hist::SelfSimilar { seed, how } => format!("self_similar/{how}/seed={seed}"),
        }
    }

    /// violations are reported once per family (first failing case in menu order)
    fn family(&self) -> &'static str {
        match *self {
            Hist::Basic(m) => m,
            Hist::Blocks { .. } => "blocks",
            Hist::Strided { .. } => "strided",
            Hist::Window { .. } => "window",
            Hist::Queue { .. } => "queue",
            Hist::Interleaved { .. } => "interleaved",
            Hist::Regrow { .. } => "regrow",
            Hist::Ordinals { .. } => "thread_ordinals",
            Hist::Chunks { .. } => "chunks",
            Hist::RoundRobin { .. } => "roundrobin",
            Hist::SelfSimilar { .. } => "self_similar",
        }
    }

    /// whether the tier runs this history at all
    fn in_tier(&self, quick: bool) -> bool {
        match *self {
            Hist::Chunks { threads, c, life, .. } => {
                let (max_threads, max_elements, max_parked) = chunk_limits(quick);
                threads <= max_threads && threads * c <= max_elements && (life != Life::Parked || threads <= max_parked)
            }
            // an optional operation: the family exists only in a tree that offers a copy
            Hist::SelfSimilar { .. } => copy_api().is_some(),
            _ => true,
        }
    }

    /// the size parameter `n` of the tier; `total` = node creations a parametrised history may spend
    fn size(&self, quick: bool) -> usize {
        let n = if quick { 100_000 } else { 1_000_000 };
        let total = if quick { 1 << 17 } else { 1 << 20 };
        match *self {
            Hist::Basic(_) | Hist::Blocks { .. } | Hist::Interleaved { .. } | Hist::Regrow { .. } => n,
            // a thread start is the expensive part: the named variants sweep a quarter of the ordinals
            Hist::Ordinals { names, .. } => (if quick { 4096 } else { 65536 }) / if names == Names::Unnamed { 1 } else { 4 },
            // the parameters are part of the history: n = total number of elements
            Hist::Chunks { threads, c, .. } => threads * c,
            // every node costs two thread switches
            Hist::RoundRobin { threads, .. } => total / 8 / threads,
            // the number of rounds is part of the history, the same in both tiers
            Hist::SelfSimilar { how, .. } => self_rounds(how),
            // at least 256 elements per treap: a chain is far over the bound (60.0) there
            Hist::Strided { k, .. } => (total / k).max(256),
            Hist::Window { w, .. } => (total / 2 / w).max(256),
            Hist::Queue { .. } => total,
        }
    }

    /// Stream offsets (node creations of the thread before the history starts).  A strided history covers
    /// all k phases by construction (every treap is probed), so it only runs at the start of the stream,
    /// shortly after it and far from it.
    fn offsets(&self) -> &'static [usize] {
        match self {
            Hist::Strided { .. } => &[0, 17, 1000],
            // every thread of these histories is a fresh one
            Hist::Ordinals { .. } | Hist::Chunks { .. } | Hist::RoundRobin { .. } => &[0],
            // copies create no node (or the same number whatever the offset): the start of the stream and far from it
            Hist::SelfSimilar { .. } => &[0, 1000],
            _ => &[0, 1, 2, 3, 17, 1000],
        }
    }

    /// Thread ordinals (threads of the process that created a node before the history's thread does) at
    /// which the history runs with stream offset 0, besides ordinal 0: the code may give every thread a
    /// generator state of its own, and the two strictly monotone orders are the ones a weak state shows on.
    fn later_threads(&self) -> &'static [usize] {
        match self {
            Hist::Basic("append") | Hist::Basic("push_front") => &[1, 2, 3, 17, 1000],
            _ => &[],
        }
    }

    /// rough number of operations, for scheduling only
    fn cost(&self, n: usize) -> usize {
        match *self {
            Hist::Basic(_) | Hist::Blocks { .. } => n,
            Hist::Strided { k, .. } => n * k,
            Hist::Window { w, .. } => 2 * n * w,
            Hist::Queue { len, .. } => 2 * (n + len),
            Hist::Interleaved { .. } => 3 * n,
            Hist::Regrow { .. } => n,
            // a thread start costs about as much as a few hundred insertions
            Hist::Ordinals { .. } => n * 4 * ORDINAL_ELEMS,
            Hist::Chunks { threads, .. } => 2 * n + threads * 1000,
            Hist::RoundRobin { threads, .. } => 100 * n * threads,
            Hist::SelfSimilar { seed, how } => 4 * seed * (if how == "triple" { 3usize } else { 2 }).pow(n as u32),
        }
    }
}

/// Height / heap-order probes of one history.
struct Prober {
    label: String,
    offset: usize,
    /// which treap of the history the next probes look at ("" or a prefix ending in ": ")
    ctx: String,
    /// size from which the next "doubling" probe is due
    next: usize,
    maxh: usize,
    probes: u64,
}

impl Prober {
    /// true when `sz` has reached the next power of two (from 64 on)
    fn due(&mut self, sz: usize) -> bool {
        if sz < self.next {
            return false;
        }
        while self.next <= sz {
            self.next *= 2;
        }
        true
    }

    /// unconditional probe; `which` = (index, count) when the history keeps several treaps
    fn now(&mut self, t: &Treap<Sz>, steps: usize, which: Option<(usize, usize)>) -> Result<(), String> {
        let sz = t.size();
        let h = height(t);
        self.probes += 1;
        self.maxh = self.maxh.max(h);
        let (name, offset) = (&self.label, self.offset);
        let wh = || which.map_or(self.ctx.clone(), |(i, k)| format!("{}treap #{i} of {k}: ", self.ctx));
        if (h as f64) > bound(sz) {
            return Err(format!("history {name} (offset {offset}): {}height {h} at {sz} elements after {steps} operations exceeds 5*log2(n+1)+20 = {:.1}", wh(), bound(sz)));
        }
        if !heap_ok(t) {
            return Err(format!("history {name} (offset {offset}): {}priorities not heap-ordered in one direction at {sz} elements", wh()));
        }
        Ok(())
    }

    /// probe if the treap has doubled since the last probe
    fn grown(&mut self, t: &Treap<Sz>, steps: usize) -> Result<(), String> {
        if self.due(t.size()) {
            self.now(t, steps, None)
        } else {
            Ok(())
        }
    }
}

struct MenuOk {
    maxh: usize,
    steps: usize,
    probes: u64,
}

struct MenuFail {
    msg: String,
    /// a smaller size parameter that replays the same failure (thread_ordinals: the sweep up to the
    /// failing thread)
    n: Option<usize>,
    /// not a verdict: the history could not be executed (its process could not be started, …)
    machinery: bool,
}

impl From<String> for MenuFail {
    fn from(msg: String) -> MenuFail {
        MenuFail { msg, n: None, machinery: false }
    }
}

/// Runs `f` on a new thread (which therefore has never created a node) with a stack of `stack_mb` MiB and
/// waits for it.
fn on_new_thread<R: Send + 'static>(what: &str, stack_mb: usize, f: impl FnOnce() -> R + Send + 'static) -> Result<R, String> {
    on_named_thread(None, what, stack_mb, f)
}

/// a thread with a stack of `stack_mb` MiB and, if given, a name
fn thread_builder(name: Option<String>, stack_mb: usize) -> std::thread::Builder {
    let b = std::thread::Builder::new().stack_size(stack_mb << 20);
    match name {
        Some(name) => b.name(name),
        None => b,
    }
}

/// `on_new_thread` on a thread that carries `name`
fn on_named_thread<R: Send + 'static>(name: Option<String>, what: &str, stack_mb: usize, f: impl FnOnce() -> R + Send + 'static) -> Result<R, String> {
    thread_builder(name, stack_mb)
        .spawn(f)
        .map_err(|e| format!("cannot start a thread: {e}"))?
        .join()
        .map_err(|_| format!("{what} panicked"))
}

/// A thread that has computed something and stays alive (blocked) until it is released.
struct Staying {
    quit: std::sync::Arc<(std::sync::Mutex<bool>, std::sync::Condvar)>,
    handle: std::thread::JoinHandle<()>,
}

impl Staying {
    /// Starts a thread with a stack of `stack_mb` MiB (and a name, if given), waits until it has computed
    /// `f()` (None: it panicked) and leaves it alive.
    fn spawn<R: Send + 'static>(name: Option<String>, stack_mb: usize, f: impl FnOnce() -> R + Send + 'static) -> Result<(Option<R>, Staying), MenuFail> {
        use std::sync::{Arc, Condvar, Mutex};
        let quit = Arc::new((Mutex::new(false), Condvar::new()));
        let done: Arc<(Mutex<Option<Option<R>>>, Condvar)> = Arc::new((Mutex::new(None), Condvar::new()));
        let (quit2, done2) = (quit.clone(), done.clone());
        let handle = thread_builder(name, stack_mb)
            .spawn(move || {
                let r = catch(f).ok();
                *done2.0.lock().unwrap() = Some(r);
                done2.1.notify_one();
                let mut q = quit2.0.lock().unwrap();
                while !*q {
                    q = quit2.1.wait(q).unwrap();
                }
            })
            .map_err(|e| MenuFail { msg: format!("cannot start a thread: {e}"), n: None, machinery: true })?;
        let mut d = done.0.lock().unwrap();
        while d.is_none() {
            d = done.1.wait(d).unwrap();
        }
        Ok((d.take().unwrap(), Staying { quit, handle }))
    }

    /// lets all of them exit, then waits for all of them
    fn release(threads: Vec<Staying>) {
        for t in &threads {
            *t.quit.0.lock().unwrap() = true;
            t.quit.1.notify_all();
        }
        for t in threads {
            let _ = t.handle.join();
        }
    }
}

/// One chunk of `c` elements, after `offset` node creations of the calling thread.
fn build_chunk(fill: Fill, c: usize, offset: usize) -> Treap<Sz> {
    for _ in 0..offset {
        let _ = TreapNode::new(item());
    }
    let mut t: Treap<Sz> = Treap::new();
    for i in 0..c {
        match fill {
            Fill::NewAppend => t.insert_at(i, item()),
            Fill::NewFront => t.insert_at(0, item()),
            Fill::FromItem if i == 0 => t = Treap::from_item(item()),
            Fill::FromItem => t.insert_at(i, item()),
            Fill::FromItemMerge => t = Treap::merge(t, Treap::from_item(item())),
        }
    }
    t
}

fn item() -> Sz {
    Sz { size: 1, id: 0 }
}

/// OPTIONAL operation "duplicate a treap through whatever copying API the checked tree offers".  The crate
/// under test may or may not implement `Clone` for `Treap<T>` / for its boxed nodes, so the engine cannot
/// name `.clone()` unconditionally; which of the two `dup` methods below applies is decided by method
/// resolution at compile time (the by-value candidate `Dup<X>: ViaClone` exists only when `X: Clone`,
/// otherwise the auto-referenced candidate `&Dup<X>: NoCopy` is taken).  The harness never copies nodes by
/// hand here: a copy made by the harness would not be a treap the library produced.
// (unused in a tree without a copy operation)
#[allow(dead_code)]
struct Dup<'a, X>(&'a X);
#[allow(dead_code)]
trait ViaClone<X> {
    fn dup(&self) -> Option<X>;
}
impl<'a, X: Clone> ViaClone<X> for Dup<'a, X> {
    fn dup(&self) -> Option<X> {
        Some(self.0.clone())
    }
}
#[allow(dead_code)]
trait NoCopy<X> {
    fn dup(&self) -> Option<X>;
}
impl<'a, 'b, X> NoCopy<X> for &'b Dup<'a, X> {
    fn dup(&self) -> Option<X> {
        None
    }
}

/// A copy of `t` made by the library: `Clone` of the treap, else `Clone` of its boxed root node; None when
/// the checked tree offers neither.
fn library_copy(t: &Treap<Sz>) -> Option<Treap<Sz>> {
    if let Some(c) = (&Dup(t)).dup() {
        return Some(c);
    }
    (&Dup(&t.root)).dup().map(treap_of)
}

/// which copying API `library_copy` uses in this tree
fn copy_api() -> Option<&'static str> {
    let t: Treap<Sz> = Treap::new();
    if (&Dup(&t)).dup().is_some() {
        Some("Treap: Clone")
    } else if (&Dup(&t.root)).dup().is_some() {
        Some("Option<Box<TreapNode>>: Clone")
    } else {
        None
    }
}

/// the ids of the elements in sequence order (own walk over the public fields)
fn ids_in_order(t: &Treap<Sz>) -> Vec<u32> {
    let mut out = vec![];
    let mut stack: Vec<&TreapNode<Sz>> = vec![];
    let mut cur = t.root.as_deref();
    while cur.is_some() || !stack.is_empty() {
        while let Some(n) = cur {
            stack.push(n);
            cur = n.left.as_deref();
        }
        let n = stack.pop().unwrap();
        out.push(n.item.id);
        cur = n.right.as_deref();
    }
    out
}

/// Runs one history with size parameter `n` after `offset` prior node creations (stream offset), probing
/// height and heap order at every doubling.  Returns Err(description) on the first violation.
fn menu_history(hist: Hist, n: usize, offset: usize) -> Result<MenuOk, MenuFail> {
    for _ in 0..offset {
        let _ = TreapNode::new(item());
    }
    let mut t: Treap<Sz> = Treap::new();
    let mut other: Treap<Sz> = Treap::new();
    let mut p = Prober { label: hist.label(), offset, ctx: String::new(), next: 64, maxh: 0, probes: 0 };
    let mut steps = 0usize;
    let mut expect_size = n;
    match hist {
        Hist::Basic("append") => {
            for _ in 0..n {
                let s = t.size();
                t.insert_at(s, item());
                steps += 1;
                p.grown(&t, steps)?;
            }
        }
        Hist::Basic("push_front") => {
            for _ in 0..n {
                t.insert_at(0, item());
                steps += 1;
                p.grown(&t, steps)?;
            }
        }
        Hist::Basic("insert_middle") => {
            for _ in 0..n {
                let s = t.size();
                t.insert_at(s / 2, item());
                steps += 1;
                p.grown(&t, steps)?;
            }
        }
        Hist::Basic("insert_one_third") => {
            for _ in 0..n {
                let s = t.size();
                t.insert_at(s / 3, item());
                steps += 1;
                p.grown(&t, steps)?;
            }
        }
        Hist::Basic("rotate") => {
            // append, and every 7th step split at a third and swap the parts
            for i in 0..n {
                let s = t.size();
                t.insert_at(s, item());
                if i % 7 == 6 {
                    let s = t.size();
                    let (a, b) = std::mem::take(&mut t).split_at(s / 3);
                    t = Treap::merge(b, a);
                }
                steps += 1;
                p.grown(&t, steps)?;
            }
        }
        Hist::Basic("append_remove_alternate") => {
            // append two, remove the one before last: the tree grows by one per round
            for _ in 0..n {
                let s = t.size();
                t.insert_at(s, item());
                let s = t.size();
                t.insert_at(s, item());
                let s = t.size();
                let _ = t.remove_at(s - 2);
                steps += 3;
                p.grown(&t, steps)?;
            }
        }
        Hist::Basic("two_treaps_then_merge") => {
            for i in 0..n {
                if i % 2 == 0 {
                    let s = t.size();
                    t.insert_at(s, item());
                } else {
                    other.insert_at(0, item());
                }
                steps += 1;
                p.grown(&t, steps)?;
            }
            p.now(&other, steps, None)?;
            t = Treap::merge(t, std::mem::take(&mut other));
        }
        Hist::Basic("from_item_merge") => {
            for _ in 0..n {
                t = Treap::merge(t, Treap::from_item(item()));
                steps += 1;
                p.grown(&t, steps)?;
            }
        }
        Hist::Basic(_) => unreachable!(),
        Hist::Blocks { b, fill, blk_left } => {
            let blocks = n.div_ceil(b);
            expect_size = blocks * b;
            for _ in 0..blocks {
                let blk = build_chunk(fill, b, 0);
                steps += b + 1;
                // a block is a treap of the program like any other (it can only fail from 46 elements on)
                if (b as f64) > bound(b) {
                    p.now(&blk, steps, None)?;
                }
                t = if blk_left { Treap::merge(blk, t) } else { Treap::merge(t, blk) };
                p.grown(&t, steps)?;
            }
        }
        Hist::Strided { k, front } => {
            let mut ts: Vec<Treap<Sz>> = (0..k).map(|_| Treap::new()).collect();
            for round in 0..n {
                for x in ts.iter_mut() {
                    x.insert_at(if front { 0 } else { round }, item());
                }
                steps += k;
                if p.due(round + 1) || round + 1 == n {
                    for (i, x) in ts.iter().enumerate() {
                        p.now(x, steps, Some((i, k)))?;
                    }
                }
            }
            // finally all of them concatenated
            for x in ts {
                t = Treap::merge(t, x);
            }
            steps += k;
            expect_size = n * k;
        }
        Hist::Window { w, front } => {
            for round in 0..n {
                for i in 0..w {
                    t.insert_at(if front { 0 } else { round + i }, item());
                }
                let due = p.due(round + 1) || round + 1 == n;
                if due {
                    p.now(&t, steps + w, None)?;
                }
                // back: the burst sits at positions round..round+w, its newest element last;
                // front: the burst sits at positions 0..w, its newest element first
                for _ in 0..w - 1 {
                    let _ = t.remove_at(if front { 1 } else { round });
                }
                steps += 2 * w - 1;
                if due {
                    p.now(&t, steps, None)?;
                }
            }
        }
        Hist::Queue { len, front } => {
            for i in 0..len + n {
                let s = t.size();
                t.insert_at(if front { 0 } else { s }, item());
                steps += 1;
                if i >= len {
                    let _ = t.remove_at(if front { len } else { 0 });
                    steps += 1;
                }
                // once per complete turnover of the queue
                if (i + 1) % len == 0 {
                    p.now(&t, steps, None)?;
                }
            }
            expect_size = len;
        }
        Hist::Interleaved { op, front } => {
            // a second treap the quiet operations work on; its 1000 nodes are created first
            for i in 0..1000 {
                other.insert_at(i, item());
            }
            let does = |o: &str| op == o || op == "all";
            for i in 0..n {
                let s = t.size();
                t.insert_at(if front { 0 } else { s }, item());
                steps += 1;
                if does("new_empty") {
                    let e: Treap<Sz> = Treap::new();
                    if !e.is_empty() || e.size() != 0 {
                        return Err(format!("history {} (offset {offset}): Treap::new() is not empty", p.label).into());
                    }
                    steps += 1;
                }
                if does("merge_empty") {
                    let x = std::mem::take(&mut t);
                    t = if i % 2 == 0 { Treap::merge(x, Treap::new()) } else { Treap::merge(Treap::new(), x) };
                    steps += 1;
                }
                if does("other_rotate") {
                    let (a, b) = std::mem::take(&mut other).split_at(1000 / 3);
                    other = Treap::merge(b, a);
                    steps += 2;
                }
                if does("other_queries") {
                    let ok = other.first().is_some() && other.last().is_some() && other.root().is_some() && other.size() == 1000;
                    if !ok {
                        return Err(format!("history {} (offset {offset}): the second treap lost elements", p.label).into());
                    }
                    steps += 4;
                }
                if does("self_split_merge") {
                    let s = t.size();
                    let (a, b) = std::mem::take(&mut t).split_at(s / 2);
                    t = Treap::merge(a, b);
                    steps += 2;
                }
                p.grown(&t, steps)?;
            }
            p.now(&other, steps, None)?;
        }
        Hist::Regrow { at, removed, front } => {
            for i in 0..REGROW_BASE {
                t.insert_at(if front { 0 } else { i }, item());
            }
            let r = match removed {
                "one" => 1,
                "half" => REGROW_BASE / 2,
                _ => REGROW_BASE,
            };
            for _ in 0..r {
                let s = t.size();
                let _ = t.remove_at(match at {
                    "front" => 0,
                    "middle" => s / 2,
                    _ => s - 1,
                });
            }
            steps += REGROW_BASE + r;
            p.now(&t, steps, None)?;
            for _ in 0..n {
                let s = t.size();
                t.insert_at(if front { 0 } else { s }, item());
                steps += 1;
                p.grown(&t, steps)?;
            }
            expect_size = REGROW_BASE - r + n;
        }
        Hist::Ordinals { front, names } => {
            for k in 0..n {
                let label = p.label.clone();
                let r = on_named_thread(names.of(k), "the thread", 2, move || -> Result<(usize, u64), String> {
                    for _ in 0..offset {
                        let _ = TreapNode::new(item());
                    }
                    let mut q = Prober { label, offset, ctx: format!("thread #{k} of the process to create a node: "), next: 64, maxh: 0, probes: 0 };
                    let mut t: Treap<Sz> = Treap::new();
                    for i in 0..ORDINAL_ELEMS {
                        t.insert_at(if front { 0 } else { i }, item());
                        q.grown(&t, i + 1)?;
                    }
                    if t.size() != ORDINAL_ELEMS {
                        return Err(format!("history {}: {}size() is {} after {ORDINAL_ELEMS} insertions", q.label, q.ctx, t.size()));
                    }
                    Ok((q.maxh, q.probes))
                });
                match r.and_then(|x| x) {
                    Ok((h, pr)) => {
                        p.maxh = p.maxh.max(h);
                        p.probes += pr;
                        steps += ORDINAL_ELEMS;
                    }
                    // the threads before #k are history: the sweep up to #k replays the failure
                    Err(msg) => return Err(MenuFail { msg, n: Some(k + 1), machinery: false }),
                }
            }
            expect_size = 0;
        }
        Hist::Chunks { threads, c, fill, order, life, names } => {
            let fail = |what: &str| MenuFail::from(format!("history {} (offset {offset}): {what}", hist.label()));
            // the threads that stay alive until the history ends
            let mut alive: Vec<Staying> = vec![];
            if let Life::Residents(k) = life {
                for j in 0..k {
                    // named like further workers of the same pool
                    let (r, th) = Staying::spawn(names.of(threads + j), 1, || drop(TreapNode::new(item())))?;
                    alive.push(th);
                    r.ok_or_else(|| fail("a long-lived thread panicked while creating one node"))?;
                }
            }
            // a worker's stack: 1 KiB for every level of the deepest recursion a chunk can cause (a chain of c
            // nodes), at least 1 MiB; small stacks are recycled by the thread library, which keeps histories
            // with hundreds of workers cheap
            let stack_mb = 1 + c / 1000;
            let mut parts: Vec<Treap<Sz>> = vec![];
            for i in 0..threads {
                let chunk = if life == Life::Parked {
                    let (r, th) = Staying::spawn(names.of(i), stack_mb, move || build_chunk(fill, c, offset))?;
                    alive.push(th);
                    r.ok_or_else(|| fail("the thread building a chunk panicked"))?
                } else {
                    on_named_thread(names.of(i), "the thread building a chunk", stack_mb, move || build_chunk(fill, c, offset)).map_err(|m| fail(&m))?
                };
                steps += c;
                p.ctx = format!("chunk built by thread #{i}: ");
                p.now(&chunk, steps, None)?;
                parts.push(chunk);
            }
            p.ctx.clear();
            // probing is linear in the size: every one of the first 32 results, later ones when the size has
            // doubled; the final result (which holds every chain an earlier one held) is probed below
            let mut merges = 0;
            let mut probe = |p: &mut Prober, t: &Treap<Sz>, steps: usize| -> Result<(), String> {
                merges += 1;
                if p.due(t.size()) || merges <= 32 {
                    p.now(t, steps, None)
                } else {
                    Ok(())
                }
            };
            match order {
                Concat::Forward | Concat::Mirrored => {
                    for x in parts {
                        t = if order == Concat::Forward { Treap::merge(t, x) } else { Treap::merge(x, t) };
                        steps += 1;
                        probe(&mut p, &t, steps)?;
                    }
                }
                Concat::Pairwise => {
                    while parts.len() > 1 {
                        let mut next = vec![];
                        let mut it = parts.into_iter();
                        while let Some(a) = it.next() {
                            match it.next() {
                                Some(b) => {
                                    let m = Treap::merge(a, b);
                                    steps += 1;
                                    probe(&mut p, &m, steps)?;
                                    next.push(m);
                                }
                                None => next.push(a),
                            }
                        }
                        parts = next;
                    }
                    t = parts.pop().unwrap_or_default();
                }
            }
            Staying::release(alive);
            expect_size = threads * c;
        }
        Hist::RoundRobin { threads, mode, names } => {
            use std::sync::mpsc::channel;
            // worker w answers every request with one freshly created single-node treap (None: it panicked)
            let (tx_node, rx_node) = channel::<Option<Treap<Sz>>>();
            let mut requests = vec![];
            for w in 0..threads {
                let (tx_req, rx_req) = channel::<()>();
                let tx_node = tx_node.clone();
                thread_builder(names.of(w), 2)
                    .spawn(move || {
                        for _ in 0..offset {
                            let _ = TreapNode::new(item());
                        }
                        while rx_req.recv().is_ok() {
                            if tx_node.send(catch(|| Treap::from_item(item())).ok()).is_err() {
                                break;
                            }
                        }
                    })
                    .map_err(|e| MenuFail { msg: format!("cannot start a thread: {e}"), n: None, machinery: true })?;
                requests.push(tx_req);
            }
            for _ in 0..n {
                for (w, req) in requests.iter().enumerate() {
                    let x = match req.send(()).ok().and_then(|_| rx_node.recv().ok()).flatten() {
                        Some(x) => x,
                        None => return Err(format!("history {} (offset {offset}): worker #{w} panicked while creating a node", p.label).into()),
                    };
                    t = match mode {
                        "back" => Treap::merge(t, x),
                        "front" => Treap::merge(x, t),
                        _ => {
                            let s = t.size();
                            let (a, b) = t.split_at(s / 2);
                            Treap::merge(Treap::merge(a, x), b)
                        }
                    };
                    steps += 1;
                    p.grown(&t, steps)?;
                }
            }
            expect_size = n * threads;
        }
        Hist::SelfSimilar { seed, how } => {
            let label = p.label.clone();
            let unavailable = || MenuFail { msg: format!("history {label}: no copy operation in this tree"), n: None, machinery: true };
            let mut model: Vec<u32> = (0..seed as u32).collect();
            for (i, &id) in model.iter().enumerate() {
                t.insert_at(i, Sz { size: 1, id });
            }
            p.now(&t, steps, None)?;
            for round in 1..=n {
                // a failure at this round replays with `round` rounds
                let at = |msg: String| MenuFail { msg, n: Some(round), machinery: false };
                let c = library_copy(&t).ok_or_else(unavailable)?;
                if ids_in_order(&c) != model || c.size() != model.len() {
                    return Err(at(format!("history {} (offset {offset}): round {round}: the copy of a treap of {} elements does not hold the sequence of its original", p.label, model.len())));
                }
                let orig = model.clone();
                match how {
                    "double" => {
                        t = Treap::merge(c, t);
                        model.extend_from_slice(&orig);
                    }
                    "double_front" => {
                        t = Treap::merge(t, c);
                        model.extend_from_slice(&orig);
                    }
                    "triple" => {
                        let c2 = library_copy(&t).ok_or_else(unavailable)?;
                        t = Treap::merge(Treap::merge(c, t), c2);
                        model.extend_from_slice(&orig);
                        model.extend_from_slice(&orig);
                    }
                    _ => {
                        let half = orig.len() / 2;
                        let (a, b) = c.split_at(half);
                        t = Treap::merge(Treap::merge(a, t), b);
                        model = [&orig[..half], &orig[..], &orig[half..]].concat();
                    }
                }
                steps += 1;
                p.now(&t, steps, None).map_err(at)?;
                if t.size() != model.len() || ids_in_order(&t) != model {
                    return Err(at(format!("history {} (offset {offset}): round {round}: the sequence of {} elements is not the one the copies and merges describe (size() = {})", p.label, model.len(), t.size())));
                }
            }
            expect_size = model.len();
        }
    }
    p.now(&t, steps, None)?;
    if t.size() != expect_size {
        return Err(format!("history {}: size() is {} after building {} elements", p.label, t.size(), expect_size).into());
    }
    Ok(MenuOk { maxh: p.maxh, steps, probes: p.probes })
}

/// One case of the menu: the history, its size parameter, the stream offset (node creations of the
/// history's thread before it starts) and the thread ordinal (how many threads of the process have
/// created a node before the history's thread does).
#[derive(Clone, Copy)]
struct Case {
    hist: Hist,
    n: usize,
    offset: usize,
    thread: usize,
}

impl Case {
    fn signature(&self) -> String {
        let later = if self.thread > 0 { format!(":thread={}", self.thread) } else { String::new() };
        format!("menu:{}:offset={}:n={}{later}", self.hist.label(), self.offset, self.n)
    }

    fn to_json(&self) -> Value {
        json!({"kind": "menu", "name": self.hist.label(), "n": self.n, "offset": self.offset, "thread": self.thread})
    }

    fn from_json(v: &Value) -> Result<Case, String> {
        let name = v["name"].as_str().unwrap_or("");
        let hist = menu().into_iter().find(|h| h.label() == name).ok_or_else(|| format!("unknown history {name:?}"))?;
        match (v["n"].as_u64(), v["offset"].as_u64()) {
            (Some(n), Some(offset)) => Ok(Case { hist, n: n as usize, offset: offset as usize, thread: v["thread"].as_u64().unwrap_or(0) as usize }),
            _ => Err("n / offset missing".into()),
        }
    }

    /// Executes the case in THIS process, which must not have created a node yet: `thread` threads, one
    /// after another, create one node each; then the history runs on a thread of its own (generous stack:
    /// a degenerate tree is caught by the probes long before recursion depth matters).  Whatever the code
    /// under test keeps per thread or per process, the outcome is a function of the case alone.
    fn run_here(&self) -> Result<MenuOk, MenuFail> {
        let Case { hist, n, offset, thread } = *self;
        let fail = |what: &str| MenuFail::from(format!("history {} (offset {offset}): {what}", hist.label()));
        for _ in 0..thread {
            on_new_thread("a thread creating one node", 1, || drop(TreapNode::new(item()))).map_err(|m| fail(&m))?;
        }
        std::thread::Builder::new()
            .stack_size(256 << 20)
            .spawn(move || menu_history(hist, n, offset))
            .map_err(|e| MenuFail { msg: format!("cannot start a thread: {e}"), n: None, machinery: true })?
            .join()
            .unwrap_or_else(|_| Err(fail("panicked")))
    }

    /// `run_here` in a new process of this binary.  Anything but a well-formed answer is a machinery
    /// problem, never a verdict.
    fn run_in_child(&self) -> Result<MenuOk, MenuFail> {
        let machinery = |msg: String| MenuFail { msg: format!("{} in a process of its own: {msg}", self.signature()), n: None, machinery: true };
        let exe = std::env::current_exe().map_err(|e| machinery(format!("current_exe: {e}")))?;
        let out = std::process::Command::new(&exe).args(["C16", "quick"]).env(CASE_ENV, self.to_json().to_string()).output().map_err(|e| machinery(format!("cannot run {}: {e}", exe.display())))?;
        let text = String::from_utf8_lossy(&out.stdout);
        let v: Value = match text.lines().find_map(|l| l.strip_prefix("CASE-RESULT ")).map(serde_json::from_str) {
            Some(Ok(v)) => v,
            _ => return Err(machinery(format!("no result ({:?})", out.status))),
        };
        match (v["ok"].as_bool(), v["msg"].as_str()) {
            (Some(true), _) => Ok(MenuOk { maxh: v["maxh"].as_u64().unwrap_or(0) as usize, steps: v["steps"].as_u64().unwrap_or(0) as usize, probes: v["probes"].as_u64().unwrap_or(0) }),
            (Some(false), Some(msg)) => Err(MenuFail { msg: msg.to_string(), n: v["n"].as_u64().map(|x| x as usize), machinery: v["machinery"].as_bool().unwrap_or(false) }),
            _ => Err(machinery("malformed result".into())),
        }
    }
}

/// Environment variable that turns this binary into the executor of ONE case of the menu.
const CASE_ENV: &str = "ENG_TREAP_MENU_CASE";

/// The other end of `Case::run_in_child`.
fn child_main(case: &str) -> ! {
    let case = match serde_json::from_str::<Value>(case).map_err(|e| e.to_string()).and_then(|v| Case::from_json(&v)) {
        Ok(c) => c,
        Err(e) => {
            eprintln!("malformed {CASE_ENV}: {e}");
            std::process::exit(2)
        }
    };
    let r = match case.run_here() {
        Ok(ok) => json!({"ok": true, "maxh": ok.maxh, "steps": ok.steps, "probes": ok.probes}),
        Err(f) => json!({"ok": false, "msg": f.msg, "n": f.n, "machinery": f.machinery}),
    };
    println!("CASE-RESULT {r}");
    std::process::exit(0)
}

// ---------------------------------------------------------------------------------------------

fn sys_for(mode: Mode, n: usize) -> Sys {
    Sys { max_nodes: n, max_slots: 3, mode, vals: 2, stale: Some(4), mods: AFFINE }
}

fn drop_sys_for(n: usize) -> DropSys {
    DropSys { max_nodes: n, max_slots: 3 }
}

/// Plain re-execution of a history on a FRESH thread, after `predraws` node creations on that thread.  The
/// states reached do not depend on the values drawn (see the comment on `Pred`) unless the code under test
/// draws priorities of its own or compares them in an unusual way; for those cases a replay names the
/// thread ordinal and the stream offset, and runs in a process of its own (`HistCase`).
fn replay_fresh(mode: Mode, n: usize, drops: bool, hist: Vec<Value>, predraws: usize) -> Result<(), String> {
    std::thread::spawn(move || {
        if predraws > 0 {
            // synchronising the model generator takes the thread's first two draws
            let _ = predict_next();
            for _ in 0..predraws.saturating_sub(2) {
                model_saw(real_draw());
            }
        }
        if drops {
            replay_history(&drop_sys_for(n), &hist)
        } else {
            replay_history(&sys_for(mode, n), &hist)
        }
    })
    .join()
    .unwrap_or_else(|_| Err("replay thread panicked".to_string()))
}

/// A history of the exploration together with where its thread's generator stands: `thread` threads of the
/// process create a node before the history's thread does, and that thread creates `predraws` nodes first.
#[derive(Clone)]
struct HistCase {
    mode: Mode,
    n: usize,
    /// a history of the drop-accounting part (`DropSys`, actions `DAct`)
    drops: bool,
    hist: Vec<Value>,
    thread: usize,
    predraws: usize,
}

const HIST_ENV: &str = "ENG_TREAP_HISTORY_CASE";

impl HistCase {
    fn to_json(&self) -> Value {
        json!({"kind": "history", "mode": if self.mode == Mode::C03 { "C03" } else { "C16" }, "n": self.n, "part": if self.drops { "drop_accounting" } else { "sequence" }, "history": self.hist, "thread": self.thread, "predraws": self.predraws})
    }

    fn from_json(v: &Value, mode: Mode) -> Result<HistCase, String> {
        let mode = match v["mode"].as_str() {
            Some("C03") => Mode::C03,
            Some("C16") => Mode::C16,
            _ => mode,
        };
        match (v["n"].as_u64(), v["history"].as_array()) {
            (Some(n), Some(h)) => Ok(HistCase { mode, n: n as usize, drops: v["part"].as_str() == Some("drop_accounting"), hist: h.clone(), thread: v["thread"].as_u64().unwrap_or(0) as usize, predraws: v["predraws"].as_u64().unwrap_or(0) as usize }),
            _ => Err("n / history missing".into()),
        }
    }

    /// in THIS process, which must not have created a node yet
    fn run_here(&self) -> Result<(), String> {
        for _ in 0..self.thread {
            let _ = std::thread::spawn(|| { let _ = real_draw(); }).join();
        }
        replay_fresh(self.mode, self.n, self.drops, self.hist.clone(), self.predraws)
    }

    /// Ok(result of the replay) or Err(machinery problem)
    fn run_in_child(&self) -> Result<Result<(), String>, String> {
        let exe = std::env::current_exe().map_err(|e| format!("current_exe: {e}"))?;
        let out = std::process::Command::new(&exe)
            .args([if self.mode == Mode::C03 { "C03" } else { "C16" }, "quick"])
            .env(HIST_ENV, self.to_json().to_string())
            .env_remove(CASE_ENV)
            .output()
            .map_err(|e| format!("cannot run {}: {e}", exe.display()))?;
        let text = String::from_utf8_lossy(&out.stdout);
        let v: Value = match text.lines().find_map(|l| l.strip_prefix("CASE-RESULT ")).map(serde_json::from_str) {
            Some(Ok(v)) => v,
            _ => return Err(format!("history replay in a process of its own gave no result ({:?})", out.status)),
        };
        match (v["ok"].as_bool(), v["msg"].as_str()) {
            (Some(true), _) => Ok(Ok(())),
            (Some(false), Some(m)) => Ok(Err(m.to_string())),
            _ => Err("malformed result of a history replay".into()),
        }
    }
}

/// A violation the exploration found becomes a report once a fresh thread of a fresh process reproduces it.
/// A defect that draws priorities of its own makes the outcome depend on where the thread's generator
/// stands: the first (thread ordinal, stream offset) at which the history fails again is recorded with it.
fn report_history(run: &mut Run, mode: Mode, n: usize, drops: bool, f: &Found) {
    let sig = format!("{}:N={}:{}", if drops { "drops" } else { "explore" }, n, serde_json::to_string(&f.history).unwrap());
    for thread in 0..4usize {
        for predraws in [0usize, 2, 3, 4, 5, 6, 7, 8] {
            let case = HistCase { mode, n, drops, hist: f.history.clone(), thread, predraws };
            match case.run_in_child() {
                Ok(Err(m)) => {
                    let part = if drops { "drop accounting, " } else { "" };
                    return run.violation(Violation::new(sig, format!("[{part}N={n}] {m}"), case.to_json()));
                }
                Ok(Ok(())) => {}
                Err(m) => run.machinery_failure(&m),
            }
        }
    }
    run.machinery_failure(&format!("the exploration reported [N={n}] {} for {sig}, but 32 replays on fresh threads of fresh processes (thread ordinals 0..4, stream offsets 0..8) all pass", f.message))
}

fn hist_child_main(case: &str, mode: Mode) -> ! {
    let case = match serde_json::from_str::<Value>(case).map_err(|e| e.to_string()).and_then(|v| HistCase::from_json(&v, mode)) {
        Ok(c) => c,
        Err(e) => {
            eprintln!("malformed {HIST_ENV}: {e}");
            std::process::exit(2)
        }
    };
    let r = match case.run_here() {
        Ok(()) => json!({"ok": true}),
        Err(m) => json!({"ok": false, "msg": m}),
    };
    println!("CASE-RESULT {r}");
    std::process::exit(0)
}

// ---------------------------------------------------------------------------------------------
// C03 (d): one short history of the Vec-owning item under Miri (side crate `miri/` of this engine)

enum Miri {
    /// the "Undefined Behavior" line and the step of the history it was reported in
    Ub(String, String),
    /// ran to the end: the lines the history printed
    Clean(Vec<String>),
    /// no verdict of either kind (Miri not installed, the crate does something Miri does not interpret, …)
    NotCompleted(String),
}

fn miri_pass() -> Miri {
    let dir = concat!(env!("CARGO_MANIFEST_DIR"), "/miri");
    // next to the engine's own target directory, with a lock of its own
    let target = std::env::current_exe().ok().and_then(|e| Some(e.parent()?.parent()?.join("treap-miri")));
    let mut cmd = std::process::Command::new("cargo");
    cmd.current_dir(dir).env("MIRIFLAGS", "-Zmiri-ignore-leaks").args(["+nightly", "miri", "run", "--offline", "-q"]);
    if let Some(t) = target {
        cmd.env("CARGO_TARGET_DIR", t);
    }
    let o = match cmd.output() {
        Ok(o) => o,
        Err(e) => return Miri::NotCompleted(format!("cannot start cargo: {e}")),
    };
    let (out, err) = (String::from_utf8_lossy(&o.stdout), String::from_utf8_lossy(&o.stderr));
    let lines: Vec<String> = out.lines().map(str::to_string).collect();
    if let Some(l) = err.lines().find(|l| l.contains("Undefined Behavior")) {
        let step = lines.iter().rev().find_map(|l| l.strip_prefix("STEP ")).unwrap_or("(before the first step)");
        return Miri::Ub(l.trim().trim_start_matches("error: ").to_string(), step.to_string());
    }
    if o.status.success() && lines.last().map(String::as_str) == Some("HISTORY-DONE") {
        return Miri::Clean(lines);
    }
    let tail: Vec<&str> = err.lines().filter(|l| !l.trim().is_empty()).collect();
    Miri::NotCompleted(format!("cargo miri run ended with {:?} and neither an Undefined Behavior line nor the end of the history: {}", o.status.code(), tail[tail.len().saturating_sub(6)..].join(" | ")))
}

/// allocation ids, addresses and offsets out of a Miri message (the signature must be stable); the widths
/// of integer types stay
fn without_numbers(line: &str) -> String {
    let mut out = String::new();
    let mut chars = line.chars().peekable();
    while let Some(c) = chars.next() {
        if !c.is_ascii_digit() {
            out.push(c);
            continue;
        }
        let mut run = String::from(c);
        while let Some(d) = chars.next_if(|d| d.is_ascii_alphanumeric()) {
            run.push(d);
        }
        let mut before = out.chars().rev();
        let type_width = matches!(before.next(), Some('u' | 'i' | 'f')) && !before.next().map_or(false, |b| b.is_ascii_alphanumeric());
        out.push_str(if type_width { &run } else { "#" });
    }
    out
}

/// direct checks on the public constructors that the exploration does not call
fn check_constructors() -> Result<(), String> {
    let mut e: Treap<It> = Treap::new();
    if !e.is_empty() || e.size() != 0 || e.first().is_some() || e.last().is_some() || !e.collect().is_empty() || e.root().is_some() {
        return Err("Treap::new() is not an empty sequence".into());
    }
    let (a, b) = Treap::<It>::new().split_at(0);
    if !a.is_empty() || !b.is_empty() {
        return Err("split_at(0) of an empty treap returned a non-empty part".into());
    }
    let mut d: Treap<Sz> = Treap::default();
    if !d.is_empty() || !d.collect().is_empty() {
        return Err("Treap::default() is not empty".into());
    }
    let mut t = Treap::from_item(It::new(7, 2));
    let got: Vec<(u8, u8)> = t.collect().iter().map(|x| (x.id, x.val)).collect();
    if got != vec![(7, 2)] || t.size() != 1 || t.is_empty() {
        return Err(format!("Treap::from_item gives {:?} size {}", got, t.size()));
    }
    let mut t: Treap<It> = Treap::new();
    t.insert_at(0, It::new(1, 1));
    t.insert_at(0, It::new(0, 0));
    t.insert_at(2, It::new(2, 2));
    let got: Vec<u8> = t.collect().iter().map(|x| x.id).collect();
    if got != vec![0, 1, 2] {
        return Err(format!("insert_at on an empty treap: {:?}", got));
    }
    Ok(())
}

fn main() {
    let args = Args::parse();
    quiet_panics();
    if let Ok(case) = std::env::var(CASE_ENV) {
        child_main(&case);
    }
    let mode = match args.prop.as_str() {
        "C03" => Mode::C03,
        "C16" => Mode::C16,
        _ => {
            eprintln!("eng_treap serves C03 and C16");
            std::process::exit(2)
        }
    };
    if let Ok(case) = std::env::var(HIST_ENV) {
        hist_child_main(&case, mode);
    }
    // a `--replay` process has created no node yet: it is itself the "process of its own" of a case
    let fresh_process = args.replay.is_some();
    let confirm = move |v: &Value| -> Result<(), String> {
        match v["kind"].as_str().unwrap_or("") {
            "menu" => {
                let case = Case::from_json(v).map_err(|e| format!("replay file: {e}"))?;
                let r = if fresh_process { case.run_here() } else { case.run_in_child() };
                r.map(|_| ()).map_err(|f| f.msg)
            }
            "constructors" => check_constructors(),
            "miri" => match miri_pass() {
                Miri::Ub(l, step) => Err(format!("{l}; reported in the step: {step}")),
                Miri::Clean(_) => Ok(()),
                Miri::NotCompleted(m) => {
                    // never a verdict
                    println!("MACHINERY-FAILURE property=C03 engine=treap Miri pass: {m}");
                    std::process::exit(2)
                }
            },
            "shape" => {
                let case = ShapeCase::from_json(v).map_err(|e| format!("replay file: {e}"))?;
                on_new_thread("the thread of a directed shape case", SHAPE_STACK_MB, move || case.run(&mut ShapeStats::default())).and_then(|r| r)
            }
            _ => {
                let case = HistCase::from_json(v, mode).map_err(|e| format!("replay file: {e}"))?;
                if fresh_process {
                    case.run_here()
                } else {
                    match case.run_in_child() {
                        Ok(r) => r,
                        Err(m) => {
                            // never a verdict
                            println!("MACHINERY-FAILURE property={} engine=treap {m}", if mode == Mode::C03 { "C03" } else { "C16" });
                            std::process::exit(2)
                        }
                    }
                }
            }
        }
    };
    if args.replay.is_some() {
        Run::replay_main(&args, &confirm);
    }
    let mut run = Run::new(&args, "treap", "model_checking");
    let quick = args.tier == Tier::Quick;

    // (nodes, depth bound, also create nodes that carry a stale pending tag, the lazy modifications)
    let child = std::env::var("VCORE_CHILD").is_ok();
    let (aff, prog) = (AFFINE, PROGRESSION);
    let plan: Vec<(usize, Option<usize>, bool, &'static [u8])> = match (mode, quick) {
        // the second-profile child repeats a reduced plan
        (Mode::C03, true) if child => vec![(2, None, true, aff), (3, None, true, aff), (4, Some(7), false, aff), (2, None, true, prog), (3, None, true, prog)],
        (Mode::C03, true) => vec![(2, None, true, aff), (3, None, true, aff), (4, Some(5), true, aff), (4, None, false, aff), (5, Some(6), false, aff), (2, None, true, prog), (3, None, true, prog), (4, Some(6), false, prog)],
        (Mode::C03, false) => vec![(2, None, true, aff), (3, None, true, aff), (4, None, true, aff), (5, None, false, aff), (6, Some(6), false, aff), (2, None, true, prog), (3, None, true, prog), (4, None, true, prog), (5, Some(6), false, prog)],
        // heap order does not depend on the items
        (Mode::C16, true) => vec![(2, None, true, aff), (3, None, true, aff), (4, None, false, aff), (5, Some(5), false, aff)],
        (Mode::C16, false) => vec![(2, None, true, aff), (3, None, true, aff), (4, None, true, aff), (5, Some(8), false, aff), (6, Some(6), false, aff)],
    };
    let mut states = 0u64;
    let mut transitions = 0u64;
    let mut outcomes = 0u64;
    let mut table = vec![];
    let mut exhaustive = true;
    let mut drop_shape_stats = ShapeStats::default();
    if mode == Mode::C03 && !child {
        // Before anything in this process touches the crate with items that own heap memory: the same item on
        // one short history under Miri.  A use after free or a double free is a verdict there, not a crash.
        match miri_pass() {
            Miri::Ub(l, step) => {
                run.violation(Violation::new(format!("miri:{}:step={step}", without_numbers(&l)), format!("[Miri, one short history of the Vec-owning item] {l}; reported in the step: {step}"), json!({"kind": "miri"})));
                run.cov("miri_pass", json!({"undefined_behaviour": l, "step": step}));
            }
            Miri::Clean(lines) => run.cov("miri_pass", json!({"undefined_behaviour": null, "history": lines})),
            // an auxiliary pass: without it the run says so and goes on (a crash of this process is then
            // reported by the driver as a machinery failure, never as a verdict)
            Miri::NotCompleted(m) => run.cov("miri_pass", json!({"not_completed": m})),
        }
    }
    if mode == Mode::C03 {
        // Drop accounting comes first: its elements are plain integers, so a double drop is a verdict.  With
        // the Vec-owning items of everything below it would be undefined behaviour in this very process.
        let plan: &[(usize, Option<usize>)] = if child {
            &[(4, None)]
        } else if quick {
            &[(2, None), (3, None), (4, None), (5, None), (6, None)]
        } else {
            &[(2, None), (3, None), (4, None), (5, None), (6, None), (7, None)]
        };
        for &(n, depth) in plan {
            let cfg = ExploreCfg { max_depth: depth, max_states: 25_000_000, wall_cap_s: if quick { 40.0 } else { 1200.0 } };
            let t0 = std::time::Instant::now();
            let r = explore(&drop_sys_for(n), &cfg);
            states += r.states;
            transitions += r.transitions;
            outcomes += r.distinct_outcomes;
            exhaustive &= r.closed || depth.is_some();
            let mut result = r.to_json();
            result["violation_found"] = json!(r.violation.is_some());
            table.push(json!({"part": "drop accounting", "max_nodes": n, "max_items_held": MAX_HELD, "depth_bound": depth, "wall_s": (t0.elapsed().as_secs_f64() * 100.0).round() / 100.0, "result": result}));
            if let Some(f) = &r.violation {
                report_history(&mut run, mode, n, true, f);
                break;
            }
            if n == plan.last().unwrap().0 {
                for h in r.sample_histories.iter().take(1) {
                    run.sample(json!({"part": "drop accounting", "max_nodes": n, "history": h}));
                }
            }
        }
        // the same accounting on the tall and large literal trees of the directed shape sweep
        if !table.iter().any(|p| p["result"]["violation_found"] == json!(true)) {
            let (stats, fails) = shape_sweep(&ShapePlan::of(quick, child).groups(true));
            for (case, m) in fails {
                run.violation(Violation::new(case.signature(), format!("[directed shapes] {}: {m}", case.describe()), case.to_json()));
            }
            drop_shape_stats = stats;
        }
        let seen = DROP_DESTRUCTORS_SEEN.load(Ordering::Relaxed);
        run.cov("drop_accounting_destructor_runs_recorded", seen);
        run.cov("drop_accounting_insert_at_draws", DROP_INSERT_DRAWS.load(Ordering::Relaxed));
        if !run.has_violations() && seen < 1000 {
            run.machinery_failure(&format!("drop accounting implausible: only {seen} destructor runs were recorded"));
        }
    }
    if run.has_violations() {
        // undefined behaviour under Miri, an element destroyed twice or used after its destruction: the parts
        // below, whose items own heap memory, might not survive it (and a crash is not a verdict)
        run.cov("states", states);
        run.cov("transitions", transitions);
        run.cov("traces_validated_against_impl", transitions);
        run.cov("distinct_outcomes", outcomes);
        run.cov("parts", Value::Array(table));
        run.cov("exhaustive", false);
        run.cov("stopped_early", "the Miri pass or drop accounting found a violation: the parts that use heap-owning items in this process (the sequence exploration, the directed shape sweep, the second-profile pass) were not run");
        run.finish(&confirm)
    }
    for (n, depth, dirty, mods) in plan {
        let mut sys = sys_for(mode, n);
        sys.mods = mods;
        // a stale tag of the part's own kind: add 1, or the progression
        sys.stale = dirty.then_some(if mods == PROGRESSION { 8 } else { 4 });
        let cfg = ExploreCfg { max_depth: depth, max_states: 25_000_000, wall_cap_s: if quick { 40.0 } else { 1200.0 } };
        let t0 = std::time::Instant::now();
        let r = explore(&sys, &cfg);
        states += r.states;
        transitions += r.transitions;
        outcomes += r.distinct_outcomes;
        if depth.is_none() && !r.closed {
            exhaustive = false;
        }
        table.push(json!({"max_nodes": n, "depth_bound": depth, "nodes_with_stale_tags": dirty, "modifications": mods.iter().map(|&m| MOD_NAMES[m as usize]).collect::<Vec<_>>(), "wall_s": (t0.elapsed().as_secs_f64() * 100.0).round() / 100.0, "result": r.to_json()}));
        if let Some(f) = &r.violation {
            report_history(&mut run, mode, n, false, f);
            break;
        }
        for h in r.sample_histories.iter().take(1) {
            run.sample(json!({"max_nodes": n, "history": h}));
        }
    }
    if mode == Mode::C03 {
        if let Err(m) = check_constructors() {
            run.violation(Violation::new("constructors", m, json!({"kind": "constructors"})));
        }
        // directed: tall and large shapes
        let plan = ShapePlan::of(quick, child);
        let groups = plan.groups(false);
        let t0 = std::time::Instant::now();
        let (mut stats, fails) = shape_sweep(&groups);
        for (case, m) in fails {
            run.violation(Violation::new(case.signature(), format!("[directed shapes] {}: {m}", case.describe()), case.to_json()));
        }
        stats.absorb(drop_shape_stats);
        let tallest = plan.sizes.iter().copied().max().unwrap_or(0);
        if !run.has_violations() && (stats.max_height < tallest || stats.deepest_tag * 2 < tallest || stats.per_family.iter().any(|&c| c == 0)) {
            run.machinery_failure(&format!("directed shape sweep implausible: tallest tree {} levels, deepest pending modification at depth {}, cases per family {:?}", stats.max_height, stats.deepest_tag, stats.per_family));
        }
        run.cov("directed_shape_cases", stats.cases);
        run.cov("directed_shape_trees_judged", stats.judged_trees);
        run.cov("directed_shape_cases_per_operation", Value::Object(SHAPE_FAMILIES.iter().zip(stats.per_family).map(|(f, c)| (f.to_string(), json!(c))).collect()));
        run.cov("directed_shape_tallest_tree_levels", stats.max_height as u64);
        run.cov("directed_shape_deepest_pending_modification", stats.deepest_tag as u64);
        run.cov("directed_shape_wall_s", (t0.elapsed().as_secs_f64() * 100.0).round() / 100.0);
        run.cov(
            "directed_shapes_note",
            format!(
                "DIRECTED, NOT exhaustive (the `exhaustive` flag speaks about the exploration only): trees written down as struct literals (no priority drawn) of n in {:?} nodes in the shape families {:?} (parameters of the largest size; the same tree is taken once), element ids = positions, values a fixed pattern over Z3, lazy modifications pending nowhere / at the root (the progression: add 1 + i to the i-th element) / scattered over about 3 of 4 inner nodes (all six affine maps, each with a progression of step 0, 1 or 2 on top: x_i -> a*x_i + b + d*i, i counted inside the node's own subtree, so every push on the way treats its two children differently) / scattered over the lower half of the levels only, the model holding every pending modification applied (a node's own first, then its ancestors' from the parent up). \
                 Operations, each applied once to a fresh copy of the literal and every treap it leaves judged by the invariants of the exploration in linear time (collect() on a copy = the vector, size, root aggregate, every node's cached size and aggregate against its children's): first/last/collect (last and collect also on a copy of the literal, where first has not pushed the root yet); split_at and split_by at position a, both parts, then the parts merged again; insert_at a (a plain element, at odd a one that carries a stale tag: add 1 or the progression) and remove_at a of it again; remove_at a; a modification (add 1 / assign 0 / the progression) attached at the root, then split_at a and merge; positions a..b split out, the middle part's aggregate judged, modified at its root, the three parts merged. Positions: every a in 0..=n for n <= {}, above that the ends, the middle and the neighbours of 32, 64, …, 2048 counted from either end{}; range ends in {{0, 1, n/3, n/2, n-1, n}}. \
                 Priorities of the literal: by depth d, as d (`low`), as u32::MAX - (deepest - d) (`high`) or as d * u32::MAX / deepest (`spread`); insert_at — the only operation that draws a priority — runs under all three (the new node becomes a leaf at the end of a long merge seam / the root after a long split / lands in the middle), every other operation under one. \
                 merge: every ordered pair of (n, shape) with n in {:?}, tags (none, none), (scattered, scattered), (root, none), (none, deep), priorities of the two operands related as left entirely below right, right entirely below left, interleaved (2d against 2d+1: the seam alternates) and tied level by level. \
                 All of it on threads with {SHAPE_STACK_MB} MiB of stack: the crate's operations recurse once per level.",
                plan.sizes,
                shapes_for(tallest).iter().map(|s| s.label()).collect::<Vec<_>>(),
                plan.all_positions_up_to,
                if plan.thin_from == usize::MAX { String::new() } else { format!(" (from n = {} on: of 64 only, and tags nowhere / scattered only)", plan.thin_from) },
                plan.merge_sizes
            ),
        );
    }
    run.cov("states", states);
    run.cov("transitions", transitions);
    run.cov("traces_validated_against_impl", transitions);
    run.cov("distinct_outcomes", outcomes);
    run.cov("parts", Value::Array(table));
    run.cov("insert_at_draws_controlled", CONTROLLED_DRAWS.load(Ordering::Relaxed));
    run.cov("insert_at_ties_with_predicted_draw", TIES_PREDICTED.load(Ordering::Relaxed));
    run.cov("insert_at_ties_not_predictable", TIES_NOT_PREDICTABLE.load(Ordering::Relaxed));
    run.cov("insert_at_calls_repeated", REDRAWS.load(Ordering::Relaxed));
    run.cov("insert_at_draws_uncontrolled", UNCONTROLLED_DRAWS.load(Ordering::Relaxed));
    run.cov("rule", "BFS over states of up to 3 live treaps with at most N nodes (values in {0,1}; lazy tags over Z3: add 1 / assign 0, and in the parts that say so the POSITION-DEPENDENT modification 'add 1 + i to the i-th element of the subtree it is attached to' next to assign 0 — its push hands the left child the progression as it is and the right child the progression advanced by left_size + 1, so a child handed over in the wrong slot, in push or in update, changes values), every action in every reached state: New at every priority rank (strictly between or tied with live levels), Merge of every ordered pair, split_at / split_by at every position, insert_at at every position and priority rank (strictly between levels: live priorities are re-spaced to the two ends of the u32 range so that any draw lands at the chosen rank; tied with a level: that level is moved onto the draw predicted by a per-thread copy of the crate's generator), remove_at, Apply of each modification at the root, first/last/collect/size/root, merge with an empty treap; parts without depth_bound run to closure; state identity = pre-order (priority rank, value, size, left size, tag, aggregate) per treap, treaps sorted");
    if mode == Mode::C03 {
        run.cov(
            "drop_accounting_rule",
            format!(
                "OWNERSHIP of the elements (a vector owns its elements: remove hands one over alive, everything else is destroyed exactly once): parts 'drop accounting' run the same BFS (New at every priority rank, Merge, split_at / split_by at every position, insert_at at every position and every rank strictly between live levels, first/last/collect, merge with an empty treap; up to 3 treaps, at most N elements alive) with an element made of plain integers (id, a check word that is a function of the id, subtree size) whose destructor adds 1 to its id's entry of a table that belongs to the history, and with the actions that move ownership: remove_at with the returned item kept by the caller (at most {MAX_HELD} kept), remove_at with the returned item dropped on the spot, the caller drops a kept item, the caller drops a whole treap. After EVERY action: every element in a live treap or in the caller's hands has been destroyed 0 times, every element that has left exactly once, no destructor ran on anything that is not a live element; the item remove_at returns reads back (id, check word, size 1) when returned and in every later state; and in every state the history may end — on a copy of the state every treap and every kept item is dropped, after which every element the history created has been destroyed exactly once (no leak, no double drop). State identity = pre-order (priority rank, cached size) per treap, treaps sorted, number of kept items; ids and table are left out because in a state that passed the checks they are determined up to a renaming of the elements (table: alive 0, gone 1); a replay re-executes the state's own history with a table of its own. Destructors the harness causes itself (copies for branching, the copies judged by collect) are not recorded.                  The directed shape sweep runs the same accounting as its family 'drops' on the literal trees (every shape and size of the sweep, no tags): remove_at(a) with the item kept, insert_at(a), split_at(b), the left part dropped, the kept item dropped, first/last, the right part dropped — table and sequence judged after each of them, a over the sweep's positions, b in {{0, 1, n/3, n/2, n-1, n}}. Both run BEFORE anything that uses heap-owning items, and a violation there ends the run (with such items a double drop is undefined behaviour in the engine's own process).                  MIRI: before all of it, ONE execution (not an enumeration) of a 12-step history of the Vec-owning item of the sequence exploration — insert_at, modifications, split_at, merge, remove_at with the item kept and read, remove_at with the item discarded, first/last/size/collect, split_by with a part dropped, from_item, insert_at of a clone, drops — under `cargo +nightly miri run` (side crate miri/ of the engine): an 'Undefined Behavior' line is a violation; if Miri cannot run the history, `miri_pass.not_completed` says why and nothing is concluded from it."
            ),
        );
        run.assume("drop accounting: the element type has no heap-owning field, so that destroying it twice is observable (its table entry reads 2) without being undefined behaviour that ends the process; what is judged is the number of destructor runs per element and the fields of returned items, which is what ownership of the elements means for any item type with drop glue");
    }
    run.assume("the harness item (value, size, left size, word aggregate, pending tag x_i -> a*x_i + b + d*i with i counted from the first element of the node's own subtree) is a lawful TreapItem: the crate changes a node's children only after push() (which empties the tag) and calls update() afterwards, so a pending tag always refers to the subtree it was attached to; a node without children does not record a pending tag (nothing can read it)");

    if mode == Mode::C16 {
        // directed long histories, real generator: one process per case
        let hists = menu();
        // the two strictly monotone insertion orders are the ones a weak priority source degenerates on
        // first: they run to 10^6 elements in the quick tier as well
        let size_of = |h: &Hist, o: usize| -> usize {
            if quick && matches!(h, Hist::Basic("append") | Hist::Basic("push_front")) && (o == 0 || o == 17) {
                1_000_000
            } else {
                h.size(quick)
            }
        };
        // menu order (simplest parameters first); per history the stream offsets, then the later threads
        let cases: Vec<Case> = hists
            .iter()
            .filter(|h| h.in_tier(quick))
            .flat_map(|h| {
                let first = h.offsets().iter().map(|&o| Case { hist: *h, n: size_of(h, o), offset: o, thread: 0 });
                let later = h.later_threads().iter().map(|&k| Case { hist: *h, n: h.size(quick), offset: 0, thread: k });
                first.chain(later).collect::<Vec<_>>()
            })
            .collect();
        let results: Vec<Result<MenuOk, MenuFail>> = {
            use std::sync::atomic::AtomicUsize;
            use std::sync::Mutex;
            // longest first, 16 workers taking the next case from a shared counter
            let mut order: Vec<usize> = (0..cases.len()).collect();
            order.sort_by_key(|&i| std::cmp::Reverse(cases[i].hist.cost(cases[i].n)));
            let next = AtomicUsize::new(0);
            let out: Mutex<Vec<Option<Result<MenuOk, MenuFail>>>> = Mutex::new((0..cases.len()).map(|_| None).collect());
            std::thread::scope(|sc| {
                for _ in 0..16 {
                    sc.spawn(|| loop {
                        let j = next.fetch_add(1, Ordering::Relaxed);
                        let Some(&i) = order.get(j) else { break };
                        let r = cases[i].run_in_child();
                        out.lock().unwrap()[i] = Some(r);
                    });
                }
            });
            out.into_inner().unwrap().into_iter().map(|r| r.unwrap()).collect()
        };
        let mut maxh = 0;
        let mut ops = 0u64;
        let mut probes = 0u64;
        let mut failed_families: Vec<&'static str> = vec![];
        let mut per_family: Vec<(&'static str, u64, u64)> = vec![]; // (family, cases, max height)
        for (case, r) in cases.iter().zip(results) {
            let fam = case.hist.family();
            if per_family.last().map(|f| f.0) != Some(fam) {
                per_family.push((fam, 0, 0));
            }
            let pf = per_family.last_mut().unwrap();
            pf.1 += 1;
            match r {
                Ok(ok) => {
                    if ok.probes == 0 {
                        run.machinery_failure(&format!("history {} was never probed", case.hist.label()));
                    }
                    maxh = maxh.max(ok.maxh);
                    pf.2 = pf.2.max(ok.maxh as u64);
                    ops += ok.steps as u64;
                    probes += ok.probes;
                }
                Err(f) if f.machinery => run.machinery_failure(&f.msg),
                Err(f) => {
                    // one report per family: its first failing case
                    if !failed_families.contains(&fam) {
                        failed_families.push(fam);
                        let case = Case { n: f.n.unwrap_or(case.n), ..*case };
                        run.violation(Violation::new(case.signature(), f.msg, case.to_json()));
                    }
                }
            }
        }
        let n = Hist::Basic("append").size(quick);
        run.cov("directed_histories", cases.len() as u64);
        run.cov("directed_history_families", Value::Array(per_family.iter().map(|f| json!({"family": f.0, "cases": f.1, "max_height": f.2})).collect()));
        run.cov("directed_history_elements", n as u64);
        run.cov("directed_history_operations", ops);
        run.cov("directed_height_probes", probes);
        run.cov("directed_max_height", maxh as u64);
        run.cov("directed_height_bound", bound(n));
        run.cov(
            "self_similar_histories",
            match copy_api() {
                Some(api) => format!("run: copies made through {api}"),
                None => "skipped: no copy operation in this tree".to_string(),
            },
        );
        run.cov(
            "self_similar_histories_note",
            format!(
                "OPTIONAL family (k), part of the menu only when the checked tree lets a caller duplicate a treap (Clone on Treap, else Clone on its boxed root node; detected at compile time, the harness never copies nodes by hand): a treap of s in {SELF_SEEDS:?} appended elements with ids 0..s, then rounds of one of {SELF_HOWS:?} — t = merge(copy(t), t); t = merge(t, copy(t)); t = merge(merge(copy(t), t), copy(t)); (a, b) = copy(t).split_at(size/2), t = merge(merge(a, t), b) — 10 rounds (tripling: 6), at stream offsets {:?}. After EVERY round: height against 5*log2(n+1)+20, heap order, size() and the in-order id sequence against the sequence the copies and merges describe; every copy is compared with its original's sequence before it is used. A copy that keeps its original's priorities puts equal priorities into one treap, which no history of insertions alone does.",
                Hist::SelfSimilar { seed: 1, how: "double" }.offsets()
            ),
        );
        let total = Hist::Queue { len: 64, front: false }.size(quick);
        run.cov(
            "directed_histories_note",
            format!(
                "DIRECTED, NOT exhaustive: a fixed menu of {} deterministic histories through the real priority generator. Every case runs in a PROCESS of its own (this binary re-executed), on a thread of its own, at the stream offsets {:?} (node creations of the thread before the history; strided histories at {:?}); append / push_front also with offset 0 on thread ordinals {:?} (that many threads of the process, one after another, create one node each before the history's thread does). Nothing else creates nodes in that process, so a case is reproducible whatever the code keeps per thread or per process. Height against 5*log2(n+1)+20 and heap order probed at every doubling of the size. \
                 Families: (a) one treap of {n} consecutive creations (10^6 for append / push_front): sorted appends, front insertion, insertion at 1/2 and 1/3, split-and-swap rotations, append/remove alternation, two treaps merged, from_item+merge; \
                 (b) blocks: blocks of b in {:?} elements, each built in its own Treap::new() by appends or by front insertions, or started by from_item, and concatenated with merge(t, blk) or merge(blk, t) up to {n} elements; \
                 (c) strided: k in {:?} treaps filled round-robin by appends or by front insertions (each owns every k-th creation), max({total}/k, 256) elements each, EVERY one of the k treaps probed at every doubling, finally all merged; \
                 (d) window: max({}/w, 256) rounds of w insertions at one end followed by removal of the w-1 older ones of the burst (survivors = every w-th creation), same set of w, probed at the peak and after the removals; \
                 (e) queue: fixed length in {:?}, insert at one end + remove at the other for {total} steps, probed once per turnover; \
                 (f) interleaved: appends / front insertions with operations that create no node between any two of them ({:?}: Treap::new(), merge with an empty treap, split_at+merge on a second treap, first/last/root/size on it, split_at+merge of the treap itself); \
                 (g) regrow: {REGROW_BASE} elements, then one / half / all of them removed by remove_at at the front / in the middle / at the back, then {n} appends or front insertions with no removal in between; \
                 (h) thread_ordinals: threads #0 … #{} of a process, one after another, each the next thread of the process to create a node, each builds a treap of {ORDINAL_ELEMS} elements by appends (front insertions), probed at every doubling; \
                 NAMED WORKERS: a thread's attributes are visible to the code under test, so the worker threads of (h), (i), (j) also run carrying names given through std::thread::Builder::name — all of them one and the same name (a pool), all of them a name of their own, every second one the common name and the others none; (h) then sweeps the first {} ordinals, (i) runs chunks of c in {:?} elements built by appends for every T and every order of concatenation with the workers joined one by one or all kept alive, (j) runs in full; \
                 (i) chunks built on different threads, from a few workers to many short-lived ones: T in {:?} threads (T*c <= {}), one after another, each build a chunk of c in {:?} elements (Treap::new()+appends, Treap::new()+front insertions, or merge(t, from_item(x)) per element) as their first node creations and hand it to the collecting thread, which concatenates them with acc = merge(acc, chunk), with acc = merge(chunk, acc), or pairwise in a balanced tree of merges; three thread lifetimes: every worker started only after the previous one has exited and been joined (no two lifetimes overlap), every worker kept alive after handing over its chunk until the history ends (all lifetimes overlap; T <= {}), and the first again with 3 long-lived threads that each create one node before the first worker starts and stay alive throughout — so the shape must not depend on whether the code tells threads apart by how many came before, by how many are alive, or by a number handed back at exit; every chunk is probed, every one of the first 32 intermediate results, later ones whenever the size has doubled, and the final one; \
                 (j) roundrobin: T in {:?} live worker threads answer one request at a time with a freshly created single-node treap (worker w creates nodes w, w+T, … of the sequence), the collecting thread puts them into one treap by merge at the back, merge at the front, or split_at in the middle + two merges, {}/T nodes per worker",
                hists.iter().filter(|h| h.in_tier(quick)).count(),
                Hist::Basic("append").offsets(),
                Hist::Strided { k: 2, front: false }.offsets(),
                Hist::Basic("append").later_threads(),
                BLOCK_SIZES,
                STRIDES,
                total / 2,
                QUEUE_LENS,
                QUIET_OPS,
                Hist::Ordinals { front: false, names: Names::Unnamed }.size(quick) - 1,
                Hist::Ordinals { front: false, names: Names::Same }.size(quick),
                NAMED_CHUNK_SIZES,
                CHUNK_THREADS.iter().filter(|&&t| t <= chunk_limits(quick).0).collect::<Vec<_>>(),
                chunk_limits(quick).1,
                CHUNK_SIZES,
                chunk_limits(quick).2,
                RR_THREADS,
                total / 8
            ),
        );
        run.sample(json!({"directed_history": "append", "elements": n, "max_height_over_menu": maxh}));
        exhaustive = false;
    }
    run.cov("exhaustive", exhaustive && !run.has_violations());
    if !run.has_violations() && (states < 5000 || outcomes < 20) {
        run.machinery_failure("exploration implausibly small");
    }
    if mode == Mode::C03 && std::env::var("VCORE_CHILD").is_err() {
        // the same exploration in a build with debug assertions and overflow checks
        run.run_dbg_child();
    }
    run.finish(&confirm)
}
