//! One execution of a short history that touches every public operation of the treap with the engine's
//! heap-owning item (`It` owns a Vec), for Miri: a use after free or a double free in an unsafe corner of the
//! crate becomes an "Undefined Behavior" line instead of a crash of the engine.  Nothing is judged here
//! beyond that (the exploration judges the results); the STEP lines say how far the history got.
#[allow(dead_code)]
#[path = "../../src/item.rs"]
mod item;

use item::{It, MODS};
use rlib_treap::Treap;

fn seq(t: &mut Treap<It>) -> Vec<(u8, u8)> {
    t.collect().iter().map(|x| (x.id, x.val)).collect()
}

fn step(what: &str) {
    println!("STEP {what}");
}

fn main() {
    step("five insert_at into Treap::new()");
    let mut t: Treap<It> = Treap::new();
    for (pos, id) in [(0usize, 0u8), (1, 1), (0, 2), (2, 3), (4, 4)] {
        t.insert_at(pos, It::new(id, id % 3));
    }
    step("a modification at the root, split_at(2), the parts merged the other way round, another modification");
    t.root_mut().unwrap().apply(MODS[0]);
    let (l, r) = t.split_at(2);
    let mut t = Treap::merge(r, l);
    t.root_mut().unwrap().apply(MODS[2]);
    step("remove_at(1), the returned item kept");
    let kept = t.remove_at(1);
    step("the fields of the returned item read (its Vec too)");
    println!("REMOVED id={} val={} agg={:?} size={}", kept.id, kept.val, kept.agg, kept.size);
    step("remove_at(0), the returned item dropped on the spot");
    let _ = t.remove_at(0);
    step("first, last, size, collect");
    println!("FIRST {:?} LAST {:?} SIZE {}", t.first().map(|x| x.id), t.last().map(|x| x.id), t.size());
    println!("SEQUENCE {:?}", seq(&mut t));
    step("split_by, the left part dropped");
    let (a, b) = t.split_by(|x| x.id >= 3);
    drop(a);
    step("merge(from_item, the right part), insert_at(1) of a clone of the kept item");
    let mut t = Treap::merge(Treap::from_item(It::new(9, 1)), b);
    t.insert_at(1, kept.clone());
    println!("SEQUENCE {:?} ROOT {:?}", seq(&mut t), t.root().map(|x| x.agg.clone()));
    step("the kept item read again, then dropped");
    println!("KEPT id={} agg={:?}", kept.id, kept.agg);
    drop(kept);
    step("the treap dropped");
    drop(t);
    println!("HISTORY-DONE");
}
