//! C11 — gcd, lcm, egcd (linear Diophantine solver), crt of rlib_gcd.
//! Form I: exhaustive enumeration of stated finite input spaces on the REAL functions, compared with
//! references that are written from the definitions (largest common divisor by downward search, smallest
//! common multiple by upward search, a table of x -> (x mod m1, x mod m2) over [0, lcm) for the CRT) and,
//! above the table range, with a binary (Stein) gcd plus direct verification of the defining equations.
//!
//! Out of the property's domain (skipped and counted): the minimum value of signed types, lcm whose
//! mathematical value does not fit the type, lcm(0,0) (the code divides by gcd = 0 there), egcd(0,0,c).
//! Every such case is skipped BEFORE the call.
//!
//! The whole enumeration runs twice: in the release profile, and (as a child process, `run_dbg_child`) in the
//! `dbg` profile with debug assertions and integer overflow checks, where an overflow or debug-assertion
//! panic on an in-domain input is a violation (signature prefix `dbg:`).  The engine's own arithmetic is
//! therefore written to be overflow-free on every enumerated operand (wrapping / saturating where needed).
//!
//! A call that does not return is a violation like a panic or a wrong value (`vcore::hang`): every call
//! into rlib_gcd is announced by its thread (function, type, operands — a few atomic stores), the main
//! thread observes the enumeration from outside, and a thread found inside the same call for the limit
//! (20 s; a call takes nanoseconds) ends the enumeration where it stands: that call is reported, with the
//! usual replay.  Every plain re-execution (`confirm`, `--replay`) runs on a helper thread under the same
//! limit.  The dbg-profile child does the same for itself, and gets a wall cap from the parent.

use rayon::prelude::*;
use rlib_num_traits::Integer;
use std::collections::{BTreeMap, BTreeSet};
use std::ops::Neg;
use std::sync::{Arc, Mutex};
use std::time::{Duration, Instant};
use vcore::*;

// ---------------------------------------------------------------------------------------------
// integer types under test

/// (negative?, magnitude) — the engine's own representation of an operand or a result.
type Z = (bool, u128);

fn zs(z: Z) -> String {
    if z.0 && z.1 > 0 {
        format!("-{}", z.1)
    } else {
        format!("{}", z.1)
    }
}

fn zparse(s: &str) -> Option<Z> {
    let (neg, body) = match s.strip_prefix('-') {
        Some(r) => (true, r),
        None => (false, s),
    };
    let mag = body.parse::<u128>().ok()?;
    Some((neg && mag > 0, mag))
}

trait Ty: Integer + Copy + Send + Sync + 'static {
    const NAME: &'static str;
    const SIGNED: bool;
    const IDX: u64;
    /// The value with this sign and magnitude, None if it is not representable or is the excluded MIN.
    fn make(neg: bool, mag: u128) -> Option<Self>;
    fn split(self) -> Z;
}

macro_rules! ty_signed {
    ($t:ty, $i:expr) => {
        impl Ty for $t {
            const NAME: &'static str = stringify!($t);
            const SIGNED: bool = true;
            const IDX: u64 = $i;
            fn make(neg: bool, mag: u128) -> Option<Self> {
                if mag > <$t>::MAX as u128 {
                    return None;
                }
                let v = mag as $t;
                Some(if neg { -v } else { v })
            }
            fn split(self) -> Z {
                (self < 0, self.unsigned_abs() as u128)
            }
        }
    };
}
macro_rules! ty_unsigned {
    ($t:ty, $i:expr) => {
        impl Ty for $t {
            const NAME: &'static str = stringify!($t);
            const SIGNED: bool = false;
            const IDX: u64 = $i;
            fn make(neg: bool, mag: u128) -> Option<Self> {
                if mag > <$t>::MAX as u128 || (neg && mag > 0) {
                    return None;
                }
                Some(mag as $t)
            }
            fn split(self) -> Z {
                (false, self as u128)
            }
        }
    };
}
ty_signed!(i64, 0);
ty_signed!(i32, 1);
ty_signed!(i128, 2);
ty_signed!(i16, 3);
ty_signed!(i8, 4);
ty_signed!(isize, 5);
ty_unsigned!(u64, 6);
ty_unsigned!(u32, 7);
ty_unsigned!(u128, 8);
ty_unsigned!(u16, 9);
ty_unsigned!(u8, 10);
ty_unsigned!(usize, 11);

/// `Ty::IDX` -> `Ty::NAME` (checked at start-up).
const TY_NAMES: [&str; 12] = ["i64", "i32", "i128", "i16", "i8", "isize", "u64", "u32", "u128", "u16", "u8", "usize"];
const FAM_NAMES: [&str; 4] = ["gcd", "lcm", "egcd", "crt"];
const FAM_GCD: usize = 0;
const FAM_LCM: usize = 1;
const FAM_EGCD: usize = 2;
const FAM_CRT: usize = 3;

fn ty_names_consistent() -> bool {
    fn ok<T: Ty>() -> bool {
        TY_NAMES.get(T::IDX as usize) == Some(&T::NAME)
    }
    ok::<i8>() && ok::<i16>() && ok::<i32>() && ok::<i64>() && ok::<i128>() && ok::<isize>() && ok::<u8>() && ok::<u16>() && ok::<u32>() && ok::<u64>() && ok::<u128>() && ok::<usize>()
}

/// ONE call into rlib_gcd.  The calling thread first publishes which call it is (function, type, operands
/// as fixed-width words — see `Case::decode`), so that an observer can name the call if it never returns;
/// a panic of the call comes back as `Err`.
#[inline]
fn call<T: Ty, R>(fam: usize, args: &[Z], f: impl FnOnce() -> R) -> Result<R, String> {
    let mut w = [0u64; 9];
    let mut signs = 0u64;
    for (i, z) in args.iter().enumerate() {
        signs |= (z.0 as u64) << i;
        w[1 + 2 * i] = z.1 as u64;
        w[2 + 2 * i] = (z.1 >> 64) as u64;
    }
    w[0] = fam as u64 | T::IDX << 8 | (args.len() as u64) << 16 | signs << 24;
    let _inside = hang::enter(&w[..1 + 2 * args.len()]);
    catch(f)
}

macro_rules! dispatch_any {
    ($ty:expr, $f:ident, $($a:expr),*) => {
        match $ty {
            "i8" => $f::<i8>($($a),*), "i16" => $f::<i16>($($a),*), "i32" => $f::<i32>($($a),*),
            "i64" => $f::<i64>($($a),*), "i128" => $f::<i128>($($a),*), "isize" => $f::<isize>($($a),*),
            "u8" => $f::<u8>($($a),*), "u16" => $f::<u16>($($a),*), "u32" => $f::<u32>($($a),*),
            "u64" => $f::<u64>($($a),*), "u128" => $f::<u128>($($a),*), "usize" => $f::<usize>($($a),*),
            other => bad_replay(&format!("unknown integer type {other}")),
        }
    };
}
macro_rules! dispatch_signed {
    ($ty:expr, $f:ident, $($a:expr),*) => {
        match $ty {
            "i8" => $f::<i8>($($a),*), "i16" => $f::<i16>($($a),*), "i32" => $f::<i32>($($a),*),
            "i64" => $f::<i64>($($a),*), "i128" => $f::<i128>($($a),*), "isize" => $f::<isize>($($a),*),
            other => bad_replay(&format!("{other} is not a signed integer type")),
        }
    };
}

fn bad_replay(msg: &str) -> ! {
    println!("MACHINERY-FAILURE engine=gcd malformed replay case: {msg}");
    eprintln!("MACHINERY-FAILURE engine=gcd malformed replay case: {msg}");
    std::process::exit(2)
}

/// Every value of T with magnitude <= limit (MIN excluded), simplest first: 0, 1, -1, 2, -2, …
fn box_vals<T: Ty>(limit: u128) -> Vec<T> {
    let mut v = vec![];
    for m in 0..=limit {
        match T::make(false, m) {
            Some(x) => v.push(x),
            None => break,
        }
        if m > 0 && T::SIGNED {
            if let Some(x) = T::make(true, m) {
                v.push(x);
            }
        }
    }
    v
}

/// The given magnitudes (ascending, distinct) with both signs where the type has them.
fn signed_vals<T: Ty>(mags: &[u128]) -> Vec<T> {
    let mut v = vec![];
    for &m in mags {
        if let Some(x) = T::make(false, m) {
            v.push(x);
            if m > 0 && T::SIGNED {
                v.push(T::make(true, m).unwrap());
            }
        }
    }
    v
}

// ---------------------------------------------------------------------------------------------
// references

/// gcd by definition: the largest d dividing both (0 for (0,0)).
fn def_gcd(x: u64, y: u64) -> u64 {
    if x == 0 && y == 0 {
        return 0;
    }
    let mut d = x.max(y);
    loop {
        if x % d == 0 && y % d == 0 {
            return d;
        }
        d -= 1;
    }
}

/// lcm by definition: the smallest positive multiple of x that y divides (0 if an operand is 0).
fn def_lcm(x: u64, y: u64) -> u64 {
    if x == 0 || y == 0 {
        return 0;
    }
    let mut m = x;
    loop {
        if m % y == 0 {
            return m;
        }
        m += x;
    }
}

/// Binary gcd (shifts and subtractions only) — used above the range of the definition tables.
fn stein(mut x: u128, mut y: u128) -> u128 {
    if x == 0 {
        return y;
    }
    if y == 0 {
        return x;
    }
    let s = (x | y).trailing_zeros();
    x >>= x.trailing_zeros();
    loop {
        y >>= y.trailing_zeros();
        if x > y {
            std::mem::swap(&mut x, &mut y);
        }
        y -= x;
        if y == 0 {
            return x << s;
        }
    }
}

fn ref_gcd(x: u128, y: u128) -> u128 {
    if x.max(y) <= 1 << 16 {
        def_gcd(x as u64, y as u64) as u128
    } else {
        stein(x, y)
    }
}

/// Mathematical lcm of two magnitudes; None if it exceeds u128.
fn ref_lcm(x: u128, y: u128) -> Option<u128> {
    if x == 0 || y == 0 {
        return Some(0);
    }
    (x / ref_gcd(x, y)).checked_mul(y)
}

struct Tables {
    n: usize,
    g: Vec<u32>,
    l: Vec<u32>,
}

impl Tables {
    fn build(n: usize) -> Tables {
        let rows: Vec<(Vec<u32>, Vec<u32>)> = (0..=n)
            .into_par_iter()
            .map(|x| {
                let g = (0..=n).map(|y| def_gcd(x as u64, y as u64) as u32).collect();
                let l = (0..=n).map(|y| def_lcm(x as u64, y as u64) as u32).collect();
                (g, l)
            })
            .collect();
        let mut g = vec![];
        let mut l = vec![];
        for (a, b) in rows {
            g.extend(a);
            l.extend(b);
        }
        Tables { n, g, l }
    }
    fn g(&self, x: u128, y: u128) -> u128 {
        self.g[x as usize * (self.n + 1) + y as usize] as u128
    }
    fn l(&self, x: u128, y: u128) -> u128 {
        self.l[x as usize * (self.n + 1) + y as usize] as u128
    }
}

const P61: u128 = (1u128 << 61) - 1;

/// Exact decision of a*x + b*y == c for |a|,|b|,|c| <= 2^21 and any 128-bit x, y.
fn lin_eq(a: Z, b: Z, c: Z, x: Z, y: Z) -> (bool, String) {
    let lim = 1u128 << 100;
    let si = |z: Z| -> i128 {
        if z.0 {
            -(z.1 as i128)
        } else {
            z.1 as i128
        }
    };
    if x.1 < lim && y.1 < lim && a.1 <= 1 << 21 && b.1 <= 1 << 21 {
        let v = si(a) * si(x) + si(b) * si(y);
        return (v == si(c), format!("{v}"));
    }
    assert!(a.1 <= 1 << 21 && b.1 <= 1 << 21 && c.1 <= 1 << 21, "lin_eq precondition");
    // V = a*x + b*y - c has |V| < 2^150; V == 0 iff V ≡ 0 mod 2^128 and mod the prime 2^61-1
    let tw = |z: Z| -> u128 {
        if z.0 {
            z.1.wrapping_neg()
        } else {
            z.1
        }
    };
    let m128 = tw(a).wrapping_mul(tw(x)).wrapping_add(tw(b).wrapping_mul(tw(y))).wrapping_sub(tw(c)) == 0;
    let rp = |z: Z| -> u128 {
        let r = z.1 % P61;
        if z.0 && r > 0 {
            P61 - r
        } else {
            r
        }
    };
    let mp = (rp(a) * rp(x) + rp(b) * rp(y)) % P61 == rp(c);
    (m128 && mp, "a value of more than 100 bits".to_string())
}

// ---------------------------------------------------------------------------------------------
// comparison of ONE call of the real code with the expected answer

fn cmp_gcd<T: Ty>(a: T, b: T, exp: u128) -> Result<(), String> {
    match call::<T, _>(FAM_GCD, &[a.split(), b.split()], || rlib_gcd::gcd(a, b)) {
        Err(p) => Err(format!("gcd::<{}>({a}, {b}) panicked ({p}); the greatest common divisor is {exp}", T::NAME)),
        Ok(r) => {
            let (n, m) = r.split();
            if (n && m > 0) || m != exp {
                Err(format!("gcd::<{}>({a}, {b}) returned {r}; the greatest common divisor is {exp}", T::NAME))
            } else {
                Ok(())
            }
        }
    }
}

fn cmp_lcm<T: Ty>(a: T, b: T, exp: u128) -> Result<(), String> {
    match call::<T, _>(FAM_LCM, &[a.split(), b.split()], || rlib_gcd::lcm(a, b)) {
        Err(p) => Err(format!("lcm::<{}>({a}, {b}) panicked ({p}); the least common multiple is {exp}", T::NAME)),
        Ok(r) => {
            let (n, m) = r.split();
            if (n && m > 0) || m != exp {
                Err(format!("lcm::<{}>({a}, {b}) returned {r}; the least common multiple is {exp} (fits the type)", T::NAME))
            } else {
                Ok(())
            }
        }
    }
}

fn cmp_egcd<T: Ty>(a: T, b: T, c: T, g: u128) -> Result<(), String> {
    let solvable = c.split().1 % g == 0;
    match call::<T, _>(FAM_EGCD, &[a.split(), b.split(), c.split()], || rlib_gcd::egcd(a, b, c)) {
        Err(p) => Err(format!(
            "egcd::<{}>({a}, {b}, {c}) panicked ({p}); gcd = {g} {} c",
            T::NAME,
            if solvable { "divides" } else { "does not divide" }
        )),
        Ok(None) => {
            if solvable {
                Err(format!("egcd::<{}>({a}, {b}, {c}) returned None although gcd(a,b) = {g} divides c", T::NAME))
            } else {
                Ok(())
            }
        }
        Ok(Some((x, y))) => {
            if !solvable {
                return Err(format!("egcd::<{}>({a}, {b}, {c}) returned Some(({x}, {y})) although gcd(a,b) = {g} does not divide c", T::NAME));
            }
            let (ok, val) = lin_eq(a.split(), b.split(), c.split(), x.split(), y.split());
            if ok {
                Ok(())
            } else {
                Err(format!("egcd::<{}>({a}, {b}, {c}) returned ({x}, {y}) but a*x + b*y = {val}, not {c}", T::NAME))
            }
        }
    }
}

/// `g`, `l`: gcd and lcm of the moduli.  `exact`: the solution found by exhaustive search over [0, l)
/// when that search was done (Some(None) = the search found none).
fn cmp_crt<T: Ty + Neg<Output = T>>(a1: T, m1: T, a2: T, m2: T, g: u128, l: u128, exact: Option<Option<u128>>) -> Result<(), String> {
    let (r1, r2, mm1, mm2) = (a1.split().1, a2.split().1, m1.split().1, m2.split().1);
    let diff = if r1 > r2 { r1 - r2 } else { r2 - r1 };
    let compat = diff % g == 0;
    let head = format!("crt::<{}>(a1={a1}, m1={m1}, a2={a2}, m2={m2})", T::NAME);
    match call::<T, _>(FAM_CRT, &[a1.split(), m1.split(), a2.split(), m2.split()], || rlib_gcd::crt(a1, m1, a2, m2)) {
        Err(p) => Err(format!("{head} panicked ({p}); the congruences are {} (gcd of the moduli {g})", if compat { "compatible" } else { "incompatible" })),
        Ok(None) => {
            if compat {
                Err(format!("{head} returned None although a1 ≡ a2 (mod gcd = {g}); a solution exists in [0, {l})"))
            } else {
                Ok(())
            }
        }
        Ok(Some(x)) => {
            if !compat {
                return Err(format!("{head} returned Some({x}) although a1 ≢ a2 (mod gcd = {g}): no solution exists"));
            }
            let (xn, xm) = x.split();
            if xn && xm > 0 {
                return Err(format!("{head} returned {x}, which is negative; the solution must lie in [0, {l})"));
            }
            if xm >= l {
                return Err(format!("{head} returned {x}, outside [0, lcm = {l})"));
            }
            if xm % mm1 != r1 || xm % mm2 != r2 {
                return Err(format!("{head} returned {x}: x mod m1 = {}, x mod m2 = {}", xm % mm1, xm % mm2));
            }
            if let Some(e) = exact {
                if e != Some(xm) {
                    return Err(format!("{head} returned {x}; exhaustive search over [0, {l}) gives {e:?}"));
                }
            }
            Ok(())
        }
    }
}

// ---------------------------------------------------------------------------------------------
// counters and first-failure book-keeping

const NAMES: &[&str] = &[
    "gcd_evaluations",
    "lcm_evaluations",
    "egcd_evaluations",
    "crt_evaluations",
    "skipped_lcm_result_does_not_fit_type",
    "skipped_lcm_zero_zero",
    "skipped_intermediates_may_not_fit_type",
    "nontrivial",
    "gcd_lcm_with_negative_operand",
    "gcd_lcm_with_zero_operand",
    "gcd_lcm_beyond_small_box",
    "egcd_expected_some",
    "egcd_expected_none",
    "egcd_zero_coefficient_expected_some",
    "egcd_zero_coefficient_expected_none",
    "egcd_with_negative_operand",
    "egcd_beyond_small_cube",
    "crt_expected_some",
    "crt_expected_none",
    "crt_compatible_with_noncoprime_moduli",
    "crt_expected_solution_is_lcm_minus_1",
    "crt_nested_or_equal_moduli",
    "crt_beyond_small_moduli",
    "reference_inconsistencies",
];
const GCD_EV: usize = 0;
const LCM_EV: usize = 1;
const EGCD_EV: usize = 2;
const CRT_EV: usize = 3;
const SK_LCM_FIT: usize = 4;
const SK_LCM_00: usize = 5;
const SK_INTER: usize = 6;
const NONTRIV: usize = 7;
const GL_NEG: usize = 8;
const GL_ZERO: usize = 9;
const GL_BIG: usize = 10;
const EG_SOME: usize = 11;
const EG_NONE: usize = 12;
const EG_Z_SOME: usize = 13;
const EG_Z_NONE: usize = 14;
const EG_NEG: usize = 15;
const EG_BIG: usize = 16;
const CRT_SOME: usize = 17;
const CRT_NONE: usize = 18;
const CRT_NONCOP: usize = 19;
const CRT_LAST: usize = 20;
const CRT_NESTED: usize = 21;
const CRT_BIG: usize = 22;
const REF_ERR: usize = 23;
const NC: usize = 24;

type Key = (u128, u128, u64, u64);

struct Fail {
    key: Key,
    v: Violation,
}

struct Stats {
    c: [u64; NC],
    fails: BTreeMap<&'static str, Fail>,
    gcd_seen: BTreeSet<u128>,
}

impl Stats {
    fn new() -> Stats {
        Stats { c: [0; NC], fails: BTreeMap::new(), gcd_seen: BTreeSet::new() }
    }
    fn merge(mut self, o: Stats) -> Stats {
        for i in 0..NC {
            self.c[i] += o.c[i];
        }
        for (k, f) in o.fails {
            match self.fails.get(k) {
                Some(cur) if cur.key <= f.key => {}
                _ => {
                    self.fails.insert(k, f);
                }
            }
        }
        self.gcd_seen.extend(o.gcd_seen);
        self
    }
    /// Keep, per family, the failing case with the smallest key (max magnitude, sum of magnitudes, type, index).
    fn fail(&mut self, fam: &'static str, ty: &str, args: &[Z], seq: u64, tyidx: u64, summary: String) {
        // (saturating: operands near u128::MAX are enumerated, and the engine itself is also built with overflow checks)
        let key: Key = (args.iter().map(|z| z.1).max().unwrap_or(0), args.iter().fold(0u128, |a, z| a.saturating_add(z.1)), tyidx, seq);
        if let Some(cur) = self.fails.get(fam) {
            if cur.key <= key {
                return;
            }
        }
        self.fails.insert(fam, Fail { key, v: violation_of(fam, ty, args, summary) });
    }
}

/// Signature `<function>:<type>(<operands>)` and the replay of one failing call.
fn violation_of(fam: &str, ty: &str, args: &[Z], summary: String) -> Violation {
    let strs: Vec<String> = args.iter().map(|&z| zs(z)).collect();
    Violation::new(format!("{fam}:{ty}({})", strs.join(",")), summary, json!({"fn": fam, "ty": ty, "args": strs}))
}

fn nontrivial_pair(x: u128, y: u128) -> bool {
    if x == 0 || y == 0 {
        return false;
    }
    if x <= u64::MAX as u128 && y <= u64::MAX as u128 {
        let (x, y) = (x as u64, y as u64);
        return x % y != 0 && y % x != 0;
    }
    x % y != 0 && y % x != 0
}

// ---------------------------------------------------------------------------------------------
// gcd / lcm

/// One (a, b) of type T: gcd always, lcm when in domain.  `eg`/`el`: expected gcd and mathematical lcm
/// (None = exceeds u128).
fn gcd_lcm_case<T: Ty>(s: &mut Stats, a: T, b: T, eg: u128, el: Option<u128>, seq: u64, track: bool) {
    let (za, zb) = (a.split(), b.split());
    let nt = nontrivial_pair(za.1, zb.1) as u64;
    let neg = (za.0 || zb.0) as u64;
    let zero = (za.1 == 0 || zb.1 == 0) as u64;
    s.c[GCD_EV] += 1;
    s.c[NONTRIV] += nt;
    s.c[GL_NEG] += neg;
    s.c[GL_ZERO] += zero;
    if track {
        s.gcd_seen.insert(eg);
    }
    if let Err(m) = cmp_gcd(a, b, eg) {
        s.fail("gcd", T::NAME, &[za, zb], seq, T::IDX, m);
    }
    if za.1 == 0 && zb.1 == 0 {
        s.c[SK_LCM_00] += 1;
        return;
    }
    let el = match el {
        Some(l) if T::make(false, l).is_some() => l,
        _ => {
            s.c[SK_LCM_FIT] += 1;
            return;
        }
    };
    s.c[LCM_EV] += 1;
    s.c[NONTRIV] += nt;
    s.c[GL_NEG] += neg;
    s.c[GL_ZERO] += zero;
    if let Err(m) = cmp_lcm(a, b, el) {
        s.fail("lcm", T::NAME, &[za, zb], seq, T::IDX, m);
    }
}

/// All pairs of values of T with magnitude <= the table range (the whole type for i8/u8).
fn gcd_lcm_box<T: Ty>(tabs: &Tables) -> Stats {
    let vals = box_vals::<T>(tabs.n as u128);
    let n = vals.len();
    (0..n)
        .into_par_iter()
        .map(|i| {
            let mut s = Stats::new();
            let a = vals[i];
            let am = a.split().1;
            for (j, &b) in vals.iter().enumerate() {
                let bm = b.split().1;
                gcd_lcm_case(&mut s, a, b, tabs.g(am, bm), Some(tabs.l(am, bm)), (i * n + j) as u64, true);
            }
            s
        })
        .reduce(Stats::new, Stats::merge)
}

fn fib(n: usize) -> u128 {
    let (mut a, mut b) = (0u128, 1u128);
    for _ in 0..n {
        let t = a.wrapping_add(b); // the value one past the requested one may exceed u128; it is never returned
        a = b;
        b = t;
    }
    a
}

/// Boundary magnitudes: powers of two ± 2 at the width boundaries of every type, type maxima, Mersenne
/// primes, products sharing a large prime factor, highly composite values, consecutive Fibonacci numbers
/// (the longest Euclid runs).
fn boundary_mags() -> Vec<u128> {
    let mut v: Vec<u128> = vec![0, 1, 2, 3, 4, 6, 12, 255, 256, 300, 301, 720720];
    for k in [7u32, 8, 15, 16, 20, 31, 32, 40, 53, 62, 63, 64, 100, 126, 127] {
        let p = 1u128 << k;
        for d in 0..=2u128 {
            v.push(p - d);
            v.push(p + d);
        }
        v.push(p / 2 * 3);
    }
    v.extend([u128::MAX, u128::MAX - 1, u128::MAX / 3, u128::MAX / 3 * 2]);
    let m13 = (1u128 << 13) - 1;
    let m17 = (1u128 << 17) - 1;
    let m19 = (1u128 << 19) - 1;
    let m31 = (1u128 << 31) - 1;
    let m61 = (1u128 << 61) - 1;
    let m89 = (1u128 << 89) - 1;
    let m107 = (1u128 << 107) - 1;
    v.extend([m13, m17, m19, m31, m61, m89, m107, m13 * 3, m13 * 4]);
    v.extend([m31 * 2, m31 * 3, m31 * 6, m31 * m19, m31 * m17, m31 * m31, m31 * m31 * 2, m19 * m19, m19 * m17 * m13]);
    v.extend([m61 * 3, m61 * 4, m61 * 6, m61 * m31, m61 * m61, m61 * m61 * 3, m61 * m19, m89 * m31, m107 * m19, m107 * m17]);
    v.push((1..=20u128).product()); // 20!
    v.push((1..=12u128).product());
    v.push((1..=33u128).product());
    v.extend([3u128.pow(10), 3u128.pow(20), 3u128.pow(39), 3u128.pow(40), 3u128.pow(80), 6u128.pow(24), 6u128.pow(48), 10u128.pow(18), 10u128.pow(38)]);
    for n in [22usize, 23, 24, 45, 46, 47, 90, 91, 92, 93, 183, 184, 185, 186] {
        v.push(fib(n));
    }
    v.sort();
    v.dedup();
    v
}

/// All pairs of boundary values of T (both signs), except those inside the table range.
fn gcd_lcm_boundary<T: Ty>(boxn: u128) -> Stats {
    let vals = signed_vals::<T>(&boundary_mags());
    let n = vals.len();
    (0..n)
        .into_par_iter()
        .map(|i| {
            let mut s = Stats::new();
            let a = vals[i];
            let am = a.split().1;
            for (j, &b) in vals.iter().enumerate() {
                let bm = b.split().1;
                if am <= boxn && bm <= boxn {
                    continue; // covered by the box enumeration
                }
                s.c[GL_BIG] += 1;
                gcd_lcm_case(&mut s, a, b, ref_gcd(am, bm), ref_lcm(am, bm), (i * n + j) as u64, true);
            }
            s
        })
        .reduce(Stats::new, Stats::merge)
}

/// Thorough: every pair of 16-bit values (MIN excluded for i16).  Reference row for a fixed |a| built
/// from the definition: g[b] = the largest divisor of |a| that divides b.
fn gcd_lcm_full16<T: Ty>() -> Stats {
    let mm: u32 = if T::SIGNED { 32767 } else { 65535 };
    (0..=mm)
        .into_par_iter()
        .map(|am| {
            let mut s = Stats::new();
            let mut row = vec![0u32; mm as usize + 1];
            if am == 0 {
                for b in 0..=mm {
                    row[b as usize] = b;
                }
            } else {
                for d in 1..=am {
                    if am % d == 0 {
                        let mut b = 0;
                        while b <= mm {
                            row[b as usize] = d;
                            b += d;
                        }
                    }
                }
            }
            let width = 2 * mm as u64 + 1;
            for an in [false, true] {
                if an && (!T::SIGNED || am == 0) {
                    continue;
                }
                let a = T::make(an, am as u128).unwrap();
                for bm in 0..=mm {
                    let g = row[bm as usize];
                    let l = if am == 0 || bm == 0 { 0 } else { (am / g) as u128 * bm as u128 };
                    for bn in [false, true] {
                        if bn && (!T::SIGNED || bm == 0) {
                            continue;
                        }
                        let b = T::make(bn, bm as u128).unwrap();
                        let seq = (2 * am as u64 + an as u64) * width + 2 * bm as u64 + bn as u64;
                        gcd_lcm_case(&mut s, a, b, g as u128, Some(l), seq, false);
                    }
                }
            }
            s
        })
        .reduce(Stats::new, Stats::merge)
}

// ---------------------------------------------------------------------------------------------
// egcd

/// The property's domain: "magnitudes for which the mathematical intermediate values fit the integer type".
/// Which intermediates occur depends on the algorithm (the crate's recursion stays below |c|·max(|a|,|b|), a
/// solver that canonicalises x into [0, |b/g|) forms a·x up to |a|·|b| and x0·(c/g) up to |b|·|c|), so the
/// bound must not be tailored to one of them: the property's own quantifier — the cube |a|,|b|,|c| <= 2^20
/// over i64 — allows the product of all three operands with a factor 4 of slack (2^62), and the same rule
/// is applied to every type.  (The first version demanded only 4·|c|·max(|a|,|b|) <= MAX and raised a false
/// alarm on a property-preserving rewrite of egcd for i32 operands around 2^16..2^18.)
fn egcd_in_domain<T: Ty>(a: Z, b: Z, c: Z) -> bool {
    match a.1.max(1).checked_mul(b.1.max(1)).and_then(|v| v.checked_mul(c.1.max(1))).and_then(|v| v.checked_mul(4)) {
        Some(v) => T::make(false, v).is_some(),
        None => false,
    }
}

fn egcd_case<T: Ty>(s: &mut Stats, a: T, b: T, c: T, g: u128, seq: u64) {
    let (za, zb, zc) = (a.split(), b.split(), c.split());
    if !egcd_in_domain::<T>(za, zb, zc) {
        s.c[SK_INTER] += 1;
        return;
    }
    let solvable = zc.1 % g == 0;
    s.c[EGCD_EV] += 1;
    s.c[NONTRIV] += nontrivial_pair(za.1, zb.1) as u64;
    s.c[EG_NEG] += (za.0 || zb.0 || zc.0) as u64;
    let zero_coeff = za.1 == 0 || zb.1 == 0;
    if solvable {
        s.c[EG_SOME] += 1;
        s.c[EG_Z_SOME] += zero_coeff as u64;
    } else {
        s.c[EG_NONE] += 1;
        s.c[EG_Z_NONE] += zero_coeff as u64;
    }
    if let Err(m) = cmp_egcd(a, b, c, g) {
        s.fail("egcd", T::NAME, &[za, zb, zc], seq, T::IDX, m);
    }
}

/// The full cube |a|,|b|,|c| <= n minus a = b = 0.
fn egcd_cube<T: Ty>(tabs: &Tables, n: u128) -> Stats {
    let vals = box_vals::<T>(n);
    let k = vals.len();
    (0..k)
        .into_par_iter()
        .map(|i| {
            let mut s = Stats::new();
            let a = vals[i];
            let am = a.split().1;
            for (j, &b) in vals.iter().enumerate() {
                let bm = b.split().1;
                if am == 0 && bm == 0 {
                    continue; // outside the quantifier: (a, b) not both zero
                }
                let g = tabs.g(am, bm);
                for (h, &c) in vals.iter().enumerate() {
                    egcd_case(&mut s, a, b, c, g, ((i * k + j) * k + h) as u64);
                }
            }
            s
        })
        .reduce(Stats::new, Stats::merge)
}

fn egcd_boundary_mags() -> Vec<u128> {
    let mut v: Vec<u128> = vec![
        0, 1, 2, 3, 5, 7, 40, 41, 80, 81, 1023, 1024, 1025, 65537, 317811, 514229, 832040, 524287, 524288, 524289, 531441, 720720, 746496, 786432,
        917518, 983055, 999983, 1046529, 1047552, 1048573, 1048574, 1048575, 1048576,
    ];
    v.sort();
    v.dedup();
    v
}

/// All triples of boundary values (both signs) up to 2^20, except a = b = 0 and the triples inside the cube.
/// On i32 the domain bound 4*|a|*|b|*|c| <= MAX cuts through this set, so the in-domain triples closest
/// to the bound are executed (what the overflow-checking build needs); the others are skipped and counted.
fn egcd_boundary<T: Ty>(cube: u128) -> Stats {
    let vals = signed_vals::<T>(&egcd_boundary_mags());
    let k = vals.len();
    (0..k)
        .into_par_iter()
        .map(|i| {
            let mut s = Stats::new();
            let a = vals[i];
            let am = a.split().1;
            for (j, &b) in vals.iter().enumerate() {
                let bm = b.split().1;
                if am == 0 && bm == 0 {
                    continue;
                }
                let g = ref_gcd(am, bm);
                for (h, &c) in vals.iter().enumerate() {
                    if am <= cube && bm <= cube && c.split().1 <= cube {
                        continue;
                    }
                    s.c[EG_BIG] += 1;
                    egcd_case(&mut s, a, b, c, g, ((i * k + j) * k + h) as u64);
                }
            }
            s
        })
        .reduce(Stats::new, Stats::merge)
}

// ---------------------------------------------------------------------------------------------
// crt

/// as for egcd: crt solves m1·x − m2·y = a2 − a1 with |a2 − a1| < max(m1, m2)
fn crt_in_domain<T: Ty>(m1: u128, m2: u128) -> bool {
    let m = m1.max(m2);
    match m1.checked_mul(m2).and_then(|v| v.checked_mul(m)).and_then(|v| v.checked_mul(4)) {
        Some(v) => T::make(false, v).is_some(),
        None => false,
    }
}

#[allow(clippy::too_many_arguments)]
fn crt_case<T: Ty + Neg<Output = T>>(s: &mut Stats, a1: u128, m1: u128, a2: u128, m2: u128, g: u128, l: u128, exact: Option<Option<u128>>, seq: u64) {
    if !crt_in_domain::<T>(m1, m2) {
        s.c[SK_INTER] += 1;
        return;
    }
    let t = |v: u128| T::make(false, v).unwrap();
    let diff = if a1 > a2 { a1 - a2 } else { a2 - a1 };
    let compat = diff % g == 0;
    s.c[CRT_EV] += 1;
    s.c[NONTRIV] += nontrivial_pair(m1, m2) as u64;
    s.c[CRT_NESTED] += (m1 % m2 == 0 || m2 % m1 == 0) as u64;
    if compat {
        s.c[CRT_SOME] += 1;
        s.c[CRT_NONCOP] += (g > 1) as u64;
        s.c[CRT_LAST] += (a1 + 1 == m1 && a2 + 1 == m2) as u64;
    } else {
        s.c[CRT_NONE] += 1;
    }
    if let Err(m) = cmp_crt(t(a1), t(m1), t(a2), t(m2), g, l, exact) {
        s.fail("crt", T::NAME, &[(false, a1), (false, m1), (false, a2), (false, m2)], seq, T::IDX, m);
    }
}

/// The reference for one pair of small moduli: sol[a1*m2 + a2] = the x in [0, l) with that pair of
/// residues (u32::MAX = none).  Returns the number of residue pairs hit twice (must be 0).
fn crt_table(m1: u128, m2: u128, l: u128) -> (Vec<u32>, u64) {
    let mut sol = vec![u32::MAX; (m1 * m2) as usize];
    let mut dup = 0;
    for x in 0..l {
        let idx = ((x % m1) * m2 + x % m2) as usize;
        if sol[idx] != u32::MAX {
            dup += 1;
        }
        sol[idx] = x as u32;
    }
    (sol, dup)
}

fn crt_small_ty<T: Ty + Neg<Output = T>>(s: &mut Stats, m1: u128, m2: u128, g: u128, l: u128, sol: &[u32], mmax: u128) {
    for a1 in 0..m1 {
        for a2 in 0..m2 {
            let e = sol[(a1 * m2 + a2) as usize];
            let exact = if e == u32::MAX { None } else { Some(e as u128) };
            let seq = ((m1 * mmax + m2) * mmax + a1) * mmax + a2;
            crt_case::<T>(s, a1, m1, a2, m2, g, l, Some(exact), seq as u64);
        }
    }
}

/// All 1 <= m1, m2 <= mmax with all reduced residues, on i64, i32 and i128.
fn crt_small(tabs: &Tables, mmax: u128) -> Stats {
    (1..=mmax as u64)
        .into_par_iter()
        .map(|m1| {
            let m1 = m1 as u128;
            let mut s = Stats::new();
            for m2 in 1..=mmax {
                let (g, l) = (tabs.g(m1, m2), tabs.l(m1, m2));
                let (sol, dup) = crt_table(m1, m2, l);
                s.c[REF_ERR] += dup;
                // the reference must itself obey the compatibility criterion
                for a1 in 0..m1 {
                    for a2 in 0..m2 {
                        let has = sol[(a1 * m2 + a2) as usize] != u32::MAX;
                        let d = if a1 > a2 { a1 - a2 } else { a2 - a1 };
                        if has != (d % g == 0) {
                            s.c[REF_ERR] += 1;
                        }
                    }
                }
                crt_small_ty::<i64>(&mut s, m1, m2, g, l, &sol, mmax + 1);
                crt_small_ty::<i32>(&mut s, m1, m2, g, l, &sol, mmax + 1);
                crt_small_ty::<i128>(&mut s, m1, m2, g, l, &sol, mmax + 1);
            }
            s
        })
        .reduce(Stats::new, Stats::merge)
}

fn crt_boundary_moduli() -> Vec<u128> {
    let mut v: Vec<u128> = vec![
        1, 2, 3, 64, 65, 128, 129, 1023, 1024, 1025, 65536, 65537, 262144, 317811, 514229, 832040, 524287, 524288, 524289, 531441, 720720,
        746496, 786432, 917518, 983055, 999983, 1046529, 1047552, 1048573, 1048574, 1048575, 1048576,
    ];
    v.sort();
    v.dedup();
    v
}

/// Ordered pairs of boundary moduli up to 2^20 (coprime, nested, equal, sharing a large factor), each with
/// the residues {0,1,2,m-1,m-2,⌊m/2⌋,⌊m/2⌋+1,⌊m/3⌋}² plus the residues of the targets lcm-1, lcm-2, ⌊lcm/2⌋,
/// ⌊lcm/3⌋, 1, m1, m2, max(m1,m2)+1 (compatible by construction).
fn crt_boundary<T: Ty + Neg<Output = T>>(small: u128) -> Stats {
    let ms = crt_boundary_moduli();
    let k = ms.len();
    let residues = |m: u128| -> Vec<u128> {
        let mut r: Vec<u128> = vec![0, 1, 2, m.wrapping_sub(1), m.wrapping_sub(2), m / 2, m / 2 + 1, m / 3].into_iter().filter(|&x| x < m).collect();
        r.sort();
        r.dedup();
        r
    };
    (0..k)
        .into_par_iter()
        .map(|i| {
            let mut s = Stats::new();
            let m1 = ms[i];
            for (j, &m2) in ms.iter().enumerate() {
                if m1 <= small && m2 <= small {
                    continue; // covered by the exhaustive small enumeration
                }
                let g = ref_gcd(m1, m2);
                let l = m1 / g * m2;
                let mut pairs: BTreeSet<(u128, u128)> = BTreeSet::new();
                for &a1 in &residues(m1) {
                    for &a2 in &residues(m2) {
                        pairs.insert((a1, a2));
                    }
                }
                for t in [l.wrapping_sub(1), l.wrapping_sub(2), l / 2, l / 3, 1, m1, m2, m1.max(m2) + 1] {
                    if t < l {
                        pairs.insert((t % m1, t % m2));
                    }
                }
                for (h, &(a1, a2)) in pairs.iter().enumerate() {
                    s.c[CRT_BIG] += 1;
                    crt_case::<T>(&mut s, a1, m1, a2, m2, g, l, None, ((i * k + j) * 128 + h) as u64);
                }
            }
            s
        })
        .reduce(Stats::new, Stats::merge)
}

// ---------------------------------------------------------------------------------------------
// plain re-execution of one recorded case

fn one_gcd<T: Ty>(a: &[Z]) -> Result<(), String> {
    let (x, y) = (mk::<T>(a[0]), mk::<T>(a[1]));
    cmp_gcd(x, y, ref_gcd(a[0].1, a[1].1))
}

fn one_lcm<T: Ty>(a: &[Z]) -> Result<(), String> {
    let (x, y) = (mk::<T>(a[0]), mk::<T>(a[1]));
    if a[0].1 == 0 && a[1].1 == 0 {
        return Ok(()); // out of domain
    }
    match ref_lcm(a[0].1, a[1].1) {
        Some(l) if T::make(false, l).is_some() => cmp_lcm(x, y, l),
        _ => Ok(()), // out of domain
    }
}

fn one_egcd<T: Ty>(a: &[Z]) -> Result<(), String> {
    if (a[0].1 == 0 && a[1].1 == 0) || !egcd_in_domain::<T>(a[0], a[1], a[2]) {
        return Ok(()); // out of domain
    }
    cmp_egcd(mk::<T>(a[0]), mk::<T>(a[1]), mk::<T>(a[2]), ref_gcd(a[0].1, a[1].1))
}

fn one_crt<T: Ty + Neg<Output = T>>(a: &[Z]) -> Result<(), String> {
    let (a1, m1, a2, m2) = (a[0].1, a[1].1, a[2].1, a[3].1);
    if m1 == 0 || m2 == 0 || a1 >= m1 || a2 >= m2 || a.iter().any(|z| z.0) || !crt_in_domain::<T>(m1, m2) {
        return Ok(()); // out of domain
    }
    let g = ref_gcd(m1, m2);
    let l = m1 / g * m2;
    let exact = if l <= 1 << 24 { Some((0..l).find(|x| x % m1 == a1 && x % m2 == a2)) } else { None };
    cmp_crt(mk::<T>(a[0]), mk::<T>(a[1]), mk::<T>(a[2]), mk::<T>(a[3]), g, l, exact)
}

fn mk<T: Ty>(z: Z) -> T {
    match T::make(z.0, z.1) {
        Some(v) => v,
        None => bad_replay(&format!("{} is not a value of {} (or is its excluded minimum)", zs(z), T::NAME)),
    }
}

/// One call of the enumeration, as data: what a replay file records and what a thread publishes on entry.
#[derive(Clone)]
struct Case {
    fam: usize,
    ty: usize,
    args: Vec<Z>,
}

impl Case {
    /// The words published by `call`.
    fn decode(w: &[u64]) -> Option<Case> {
        let h = *w.first()?;
        let (fam, ty, n, signs) = ((h & 0xff) as usize, (h >> 8 & 0xff) as usize, (h >> 16 & 0xff) as usize, h >> 24);
        if fam >= FAM_NAMES.len() || ty >= TY_NAMES.len() || w.len() != 1 + 2 * n {
            return None;
        }
        let args = (0..n).map(|i| (signs >> i & 1 == 1, w[1 + 2 * i] as u128 | (w[2 + 2 * i] as u128) << 64)).collect();
        Some(Case { fam, ty, args })
    }

    fn parse(v: &Value) -> Case {
        let f = v["fn"].as_str().unwrap_or_else(|| bad_replay("no \"fn\""));
        let ty = v["ty"].as_str().unwrap_or_else(|| bad_replay("no \"ty\""));
        let args: Vec<Z> = v["args"]
            .as_array()
            .unwrap_or_else(|| bad_replay("no \"args\""))
            .iter()
            .map(|s| s.as_str().and_then(zparse).unwrap_or_else(|| bad_replay("operand is not a decimal string")))
            .collect();
        let fam = FAM_NAMES.iter().position(|n| *n == f).unwrap_or_else(|| bad_replay(&format!("unknown function {f}")));
        let ty = TY_NAMES.iter().position(|n| *n == ty).unwrap_or_else(|| bad_replay(&format!("unknown integer type {ty}")));
        if args.len() != [2, 2, 3, 4][fam] {
            bad_replay("wrong number of operands");
        }
        Case { fam, ty, args }
    }

    /// `gcd::<u128>(9, 15)`
    fn text(&self) -> String {
        let a: Vec<String> = self.args.iter().map(|&z| zs(z)).collect();
        let inner = if self.fam == FAM_CRT && a.len() == 4 { format!("a1={}, m1={}, a2={}, m2={}", a[0], a[1], a[2], a[3]) } else { a.join(", ") };
        format!("{}::<{}>({inner})", FAM_NAMES[self.fam], TY_NAMES[self.ty])
    }

    /// The order in which failing cases are preferred (as in `Stats::fail`, the operands breaking ties).
    fn key(&self) -> (u128, u128, usize, Vec<Z>) {
        (self.args.iter().map(|z| z.1).max().unwrap_or(0), self.args.iter().fold(0u128, |a, z| a.saturating_add(z.1)), self.ty, self.args.clone())
    }

    /// The summary for a call that was observed not to return.
    fn never_returned(&self) -> String {
        let m = |i: usize| self.args.get(i).map_or(0, |z| z.1);
        let expected = match self.fam {
            FAM_GCD => format!("the greatest common divisor is {}", ref_gcd(m(0), m(1))),
            FAM_LCM => ref_lcm(m(0), m(1)).map_or(String::new(), |l| format!("the least common multiple is {l}")),
            FAM_EGCD => match ref_gcd(m(0), m(1)) {
                0 => String::new(),
                g => format!("gcd(a,b) = {g} {} c", if m(2) % g == 0 { "divides" } else { "does not divide" }),
            },
            _ => format!("the gcd of the moduli is {}", ref_gcd(m(1), m(3))),
        };
        let sep = if expected.is_empty() { "" } else { "; " };
        format!("{} does not return within {}: the call does not terminate{sep}{expected}", self.text(), hang::limit_text())
    }

    fn violation(&self, summary: String) -> Violation {
        violation_of(FAM_NAMES[self.fam], TY_NAMES[self.ty], &self.args, summary)
    }

    /// Plain re-execution on the calling thread.
    fn execute(&self) -> Result<(), String> {
        let (ty, a) = (TY_NAMES[self.ty], &self.args[..]);
        match self.fam {
            FAM_GCD => dispatch_any!(ty, one_gcd, a),
            FAM_LCM => dispatch_any!(ty, one_lcm, a),
            FAM_EGCD => dispatch_signed!(ty, one_egcd, a),
            _ => dispatch_signed!(ty, one_crt, a),
        }
    }
}

fn stuck_cases(stuck: &[hang::Stuck]) -> Vec<Case> {
    stuck
        .iter()
        .map(|s| Case::decode(&s.words).unwrap_or_else(|| engine_failure(&format!("a thread is stuck in a call whose published description is unreadable: {:?}", s.words))))
        .collect()
}

fn engine_failure(msg: &str) -> ! {
    println!("MACHINERY-FAILURE engine=gcd {msg}");
    eprintln!("MACHINERY-FAILURE engine=gcd {msg}");
    std::process::exit(2)
}

/// One recorded case, re-executed on a helper thread under the limit of `vcore::hang`: a call that does not
/// return is reported as such (the thread is left behind), whichever way the case failed when it was found.
fn confirm(v: &Value) -> Result<(), String> {
    let case = Case::parse(v);
    match hang::limited(move || case.execute()) {
        hang::Ended::Returned(r) => r,
        hang::Ended::Stuck(s) => Err(stuck_cases(&s)[0].never_returned()),
        hang::Ended::Panicked(m) => engine_failure(&format!("the re-execution panicked outside the call into the library: {m}")),
    }
}

// ---------------------------------------------------------------------------------------------

fn reference_self_check(tabs: &Tables, run: &Run) {
    let n = tabs.n as u128;
    let bad: u64 = (0..=n)
        .into_par_iter()
        .map(|x| {
            let mut bad = 0;
            for y in 0..=n {
                let (g, l) = (tabs.g(x, y), tabs.l(x, y));
                // binary gcd agrees with the definition; g*l = x*y; symmetry; divisibility
                if stein(x, y) != g || g * l != x * y && (x != 0 && y != 0) || tabs.g(y, x) != g || tabs.l(y, x) != l {
                    bad += 1;
                }
                if g != 0 && (x % g != 0 || y % g != 0) {
                    bad += 1;
                }
                if (x == 0 || y == 0) && l != 0 {
                    bad += 1;
                }
            }
            bad
        })
        .sum();
    if bad != 0 {
        run.machinery_failure(&format!("the reference tables are inconsistent in {bad} places"));
    }
    let m31 = (1u128 << 31) - 1;
    let m61 = (1u128 << 61) - 1;
    let known: &[(u128, u128, u128)] = &[
        (fib(91), fib(92), 1),
        (fib(185), fib(186), 1),
        (m31 * 6, m31 * 4, m31 * 2),
        (1 << 62, (1 << 40) * 3, 1 << 40),
        (m61 * m31, m61 * 4, m61),
        (m61 * m61, m61 * 3, m61),
        (u128::MAX, u128::MAX - 1, 1),
        ((1..=20u128).product(), 1 << 20, 1 << 18),
        (0, 1 << 100, 1 << 100),
        (65537 * 14, 65537 * 15, 65537),
    ];
    for &(x, y, g) in known {
        if stein(x, y) != g || stein(y, x) != g {
            run.machinery_failure(&format!("binary gcd reference gives {} for ({x}, {y}), known answer {g}", stein(x, y)));
        }
    }
    let z = |v: i128| -> Z { (v < 0, v.unsigned_abs()) };
    // exact linear-equation decision: both paths
    let big = (false, 1u128 << 120);
    if !lin_eq(z(6), z(-4), z(2), z(1), z(1)).0
        || lin_eq(z(6), z(-4), z(3), z(1), z(1)).0
        || !lin_eq(z(2), z(-1), z(0), big, (false, 1u128 << 121)).0
        || lin_eq(z(2), z(-1), z(1), big, (false, 1u128 << 121)).0
        || !lin_eq(z(3), z(5), z(-7), (true, (1u128 << 110) * 5 + 4), (false, (1u128 << 110) * 3 + 1)).0
    {
        run.machinery_failure("the exact a*x+b*y==c decision procedure is wrong on a known case");
    }
}

fn timing(label: &str, start: Instant) {
    if std::env::var("VERIF_TIMING").is_ok() {
        eprintln!("[{:8.2}s] {label}", start.elapsed().as_secs_f64());
    }
}

const BOX: usize = 300;

/// What the enumeration hands back besides the totals (which it merges, family by family, into the shared
/// `Stats`, so that they survive an enumeration that never ends).
struct Enumerated {
    gcd_lcm_evaluations: (u64, u64),
    samples: Vec<Value>,
}

/// Every call into rlib_gcd of one pass.  Runs on the thread that `hang::supervise` starts.
fn enumerate(tier: Tier, seed: u64, tabs: Tables, shared: Arc<Mutex<Stats>>, start: Instant) -> Enumerated {
    let thorough = tier == Tier::Thorough;
    let cube: u128 = tier.pick(40, 80);
    let mmax: u128 = tier.pick(64, 128);
    let add = |s: Stats| {
        let mut tot = shared.lock().unwrap_or_else(|e| e.into_inner());
        *tot = std::mem::replace(&mut *tot, Stats::new()).merge(s);
    };
    macro_rules! each {
        ($f:ident $args:tt ; $($t:ty),*) => { $( add($f::<$t> $args); )* };
    }

    // gcd / lcm
    each!(gcd_lcm_box(&tabs); i8, u8, i16, u16, i32, u32, i64, u64, i128, u128, isize, usize);
    timing("gcd/lcm boxes", start);
    each!(gcd_lcm_boundary(BOX as u128); i16, u16, i32, u32, i64, u64, i128, u128, isize, usize);
    timing("gcd/lcm boundary pairs", start);
    if thorough {
        each!(gcd_lcm_full16(); u16, i16);
        timing("gcd/lcm all 16-bit pairs", start);
    }
    let gcd_lcm_evaluations = {
        let tot = shared.lock().unwrap_or_else(|e| e.into_inner());
        (tot.c[GCD_EV], tot.c[LCM_EV])
    };

    // egcd
    each!(egcd_cube(&tabs, cube); i64, i32, i128);
    timing("egcd cube", start);
    each!(egcd_boundary(cube); i64, i32);
    timing("egcd boundary triples", start);

    // crt
    add(crt_small(&tabs, mmax));
    timing("crt small moduli", start);
    each!(crt_boundary(mmax); i64, i128, i32);
    timing("crt boundary moduli", start);

    // samples (VERIF_SEED only rotates which cases are written out)
    let mut samples = vec![];
    let z = |v: i64| -> Z { (v < 0, v.unsigned_abs() as u128) };
    let vals = box_vals::<i64>(BOX as u128);
    let n = vals.len() as u64;
    let pick = |k: u64| vals[((seed.wrapping_mul(7919).wrapping_add(k.wrapping_mul(104_729)).wrapping_add(12_345)) % n) as usize];
    let (a, b) = (pick(1), pick(2));
    let (am, bm) = (a.split().1, b.split().1);
    samples.push(json!({"call": format!("gcd::<i64>({a}, {b})"), "expected": tabs.g(am, bm) as u64, "observed": format!("{:?}", call::<i64, _>(FAM_GCD, &[z(a), z(b)], || rlib_gcd::gcd(a, b)))}));
    if (a, b) != (0, 0) {
        samples.push(json!({"call": format!("lcm::<i64>({a}, {b})"), "expected": tabs.l(am, bm) as u64, "observed": format!("{:?}", call::<i64, _>(FAM_LCM, &[z(a), z(b)], || rlib_gcd::lcm(a, b)))}));
    }
    let (a8, b8) = ((pick(3) % 128) as i8, (pick(4) % 128) as i8);
    samples.push(json!({"call": format!("gcd::<i8>({a8}, {b8})"), "expected": tabs.g(a8.unsigned_abs() as u128, b8.unsigned_abs() as u128) as u64, "observed": format!("{:?}", call::<i8, _>(FAM_GCD, &[a8.split(), b8.split()], || rlib_gcd::gcd(a8, b8)))}));
    let (ea, eb, ec) = (pick(5) % 41, pick(6) % 41 + 41, pick(7) % 41);
    let g = tabs.g(ea.unsigned_abs() as u128, eb.unsigned_abs() as u128) as i64;
    samples.push(json!({"call": format!("egcd::<i64>({ea}, {eb}, {ec})"), "expected": if ec % g == 0 { format!("Some((x, y)) with a*x+b*y = {ec} (gcd {g})") } else { format!("None (gcd {g} does not divide c)") }, "observed": format!("{:?}", call::<i64, _>(FAM_EGCD, &[z(ea), z(eb), z(ec)], || rlib_gcd::egcd(ea, eb, ec)))}));
    let (m1, m2) = (pick(8).abs() % 63 + 2, pick(9).abs() % 63 + 2);
    let (a1, a2) = (pick(10).abs() % m1, pick(11).abs() % m2);
    let exp = (0..m1 * m2).find(|x| x % m1 == a1 && x % m2 == a2);
    samples.push(json!({"call": format!("crt::<i64>(a1={a1}, m1={m1}, a2={a2}, m2={m2})"), "expected": format!("{exp:?}"), "observed": format!("{:?}", call::<i64, _>(FAM_CRT, &[z(a1), z(m1), z(a2), z(m2)], || rlib_gcd::crt(a1, m1, a2, m2)))}));
    let (bm1, bm2) = (983_055i64, 917_518i64); // share the factor 65537
    let t = bm1 / 65_537 * bm2 - 1;
    let (b1, b2) = (t % bm1, t % bm2);
    samples.push(json!({"call": format!("crt::<i64>(a1={b1}, m1={bm1}, a2={b2}, m2={bm2})"), "expected": format!("Some({t}) = lcm - 1"), "observed": format!("{:?}", call::<i64, _>(FAM_CRT, &[z(b1), z(bm1), z(b2), z(bm2)], || rlib_gcd::crt(b1, bm1, b2, bm2)))}));
    let (f92, f91) = (fib(92) as i64, -(fib(91) as i64));
    samples.push(json!({"call": "gcd::<i64>(F92, -F91) (consecutive Fibonacci numbers)", "expected": 1, "observed": format!("{:?}", call::<i64, _>(FAM_GCD, &[z(f92), z(f91)], || rlib_gcd::gcd(f92, f91)))}));
    Enumerated { gcd_lcm_evaluations, samples }
}

fn main() {
    let args = Args::parse();
    quiet_panics();
    if args.replay.is_some() {
        Run::replay_main(&args, &confirm);
    }
    let mut run = Run::new(&args, "gcd", "exploration");
    if !ty_names_consistent() {
        run.machinery_failure("the table of type names does not match the type indices");
    }
    let thorough = args.tier == Tier::Thorough;
    let cube: u128 = args.tier.pick(40, 80);
    let mmax: u128 = args.tier.pick(64, 128);
    let start = Instant::now();

    let tabs = Tables::build(BOX);
    reference_self_check(&tabs, &run);
    timing("reference tables", start);

    // the enumeration, observed from here: it ends by returning or by a call that does not
    let shared = Arc::new(Mutex::new(Stats::new()));
    let ended = {
        let (tier, seed, shared) = (args.tier, args.seed, shared.clone());
        hang::supervise(move || enumerate(tier, seed, tabs, shared, start))
    };
    let mut tot = std::mem::replace(&mut *shared.lock().unwrap_or_else(|e| e.into_inner()), Stats::new());
    let (done, mut stuck) = match ended {
        hang::Ended::Returned(e) => (Some(e), vec![]),
        hang::Ended::Stuck(s) => (None, stuck_cases(&s)),
        hang::Ended::Panicked(m) => run.machinery_failure(&format!("the enumeration panicked outside the calls into the library: {m}")),
    };
    stuck.sort_by_key(|c| c.key());

    // ---- evidence
    let evaluations = tot.c[GCD_EV] + tot.c[LCM_EV] + tot.c[EGCD_EV] + tot.c[CRT_EV];
    let skipped = tot.c[SK_LCM_FIT] + tot.c[SK_LCM_00] + tot.c[SK_INTER];
    run.cov("evaluations", evaluations);
    run.cov("distinct_nontrivial", tot.c[NONTRIV]);
    run.cov("skipped_out_of_domain", skipped);
    for (i, name) in NAMES.iter().enumerate() {
        if i != NONTRIV {
            run.cov(name, tot.c[i]);
        }
    }
    run.cov("distinct_gcd_values_expected", tot.gcd_seen.len() as u64);
    run.cov("exhaustive", done.is_some());
    run.cov(
        "bounds",
        json!({
            "gcd_lcm_box": format!("all pairs with |a|,|b| <= {BOX} in i8,u8 (= every pair of the type, i8::MIN excluded),i16,u16,i32,u32,i64,u64,i128,u128,isize,usize"),
            "gcd_lcm_boundary_magnitudes": boundary_mags().len(),
            "gcd_lcm_all_16_bit_pairs": thorough,
            "egcd_cube": format!("|a|,|b|,|c| <= {cube} minus a=b=0 on i64,i32,i128"),
            "egcd_boundary_magnitudes_i64_i32": egcd_boundary_mags().len(),
            "crt_small": format!("1 <= m1,m2 <= {mmax}, all reduced residues, on i64,i32,i128"),
            "crt_boundary_moduli_i64_i128_i32": crt_boundary_moduli().len(),
        }),
    );
    run.cov(
        "rule",
        format!(
            "every (type, function, operands) tuple of the stated boxes and boundary sets is executed once on the real code in each of two builds (release profile; and the dbg profile with debug assertions and integer overflow checks, where a panic on an in-domain tuple is a violation — out-of-domain tuples are skipped before the call in both), operands ordered 0,1,-1,2,-2,…; expected gcd/lcm come from tables built by the definitions (downward search for the largest common divisor, upward search for the smallest common multiple), CRT from the table x -> (x mod m1, x mod m2) over [0,lcm), boundary cases from a binary gcd plus direct verification (a*x+b*y==c exactly; 0<=x<lcm, x≡a1, x≡a2). A call must also RETURN: every thread publishes the call it is about to make and is observed from outside; a thread found inside the same call for {} ends the enumeration where it stands with that call as the violation (the counts then cover the families completed before, exhaustive is false), and every re-execution of a recorded case runs under the same limit. A case is non-trivial when both principal operands ((a,b) resp. (m1,m2)) are non-zero and neither divides the other (the Euclidean recursion runs at least two remainder steps); distinct_nontrivial counts such executed tuples, which are distinct by construction (boundary enumerations omit what the boxes cover)",
            hang::limit_text()
        ),
    );
    let zero = [(false, 0u128); 2];
    let lcm00 = match hang::limited(move || call::<i64, _>(FAM_LCM, &zero, || rlib_gcd::lcm(0i64, 0i64))) {
        hang::Ended::Returned(Ok(v)) => format!("returns {v}"),
        hang::Ended::Returned(Err(p)) => format!("panics ({p})"),
        hang::Ended::Stuck(_) => format!("does not return within {}", hang::limit_text()),
        hang::Ended::Panicked(m) => run.machinery_failure(&format!("the observation of lcm(0,0) failed: {m}")),
    };
    run.cov("lcm_zero_zero_observed", format!("lcm(0,0) is treated as out of domain (skipped, counted); the real code {lcm00}"));
    run.assume("lcm(0,0) and egcd(0,0,c) are outside the property's domain; signed minimum values are excluded as the property says");
    run.assume("'intermediate values fit the type' is taken as 4*max(|a|,1)*max(|b|,1)*max(|c|,1) <= T::MAX for egcd and 4*m1*m2*max(m1,m2) <= T::MAX for crt (not tailored to the crate's own recursion: any textbook solver's products fit) (true for every enumerated case unless counted under skipped_intermediates_may_not_fit_type), and 'the lcm itself fits' for lcm");
    run.assume("two builds are judged: the release profile of the workspace (overflow checks and debug assertions off, like a release build of rlib) and, as a second pass over the same enumeration, the dbg profile (same optimisation, debug assertions and integer overflow checks on, like `cargo test`): there an overflow or debug-assertion panic on an in-domain input is a violation (signature prefix dbg:)");
    run.assume(&format!(
        "'returns the answer' includes returning at all: a call of a few dozen arithmetic steps that is still running after {} on a thread that the observer sees making no progress does not terminate (observations are counted, not a clock read, so a stopped or starved process is not mistaken for one)",
        hang::limit_text()
    ));
    run.cov("calls_returned", hang::calls_returned());

    for (_, f) in std::mem::take(&mut tot.fails) {
        run.violation(f.v);
    }
    let Some(done) = done else {
        // a call did not return: the pass is abandoned where it stood, its threads are left behind
        let first = &stuck[0];
        run.cov("ended_by", format!("a call into the library that did not return ({}); the enumeration was abandoned where it stood, the counters cover the families completed before, the second pass was not run", first.text()));
        run.cov("calls_found_stuck", stuck.len() as u64);
        run.sample(json!({"call": first.text(), "observed": format!("does not return within {}", hang::limit_text())}));
        run.violation(first.violation(first.never_returned()));
        run.finish(&confirm)
    };
    for s in done.samples {
        run.sample(s);
    }

    // ---- non-vacuity
    if tot.c[REF_ERR] != 0 {
        run.machinery_failure(&format!("the CRT reference tables are inconsistent in {} places", tot.c[REF_ERR]));
    }
    let c = &tot.c;
    let gl_done = done.gcd_lcm_evaluations;
    let i8_pairs = 255u64 * 255;
    let checks: &[(&str, bool)] = &[
        ("gcd ran on every pair of i8 and u8", gl_done.0 >= i8_pairs + 65_536),
        ("lcm ran and some lcm cases were skipped because the result does not fit (i8/i16)", gl_done.1 > 100_000 && c[SK_LCM_FIT] > 10_000),
        ("negative and zero operands of gcd/lcm were exercised", c[GL_NEG] > 100_000 && c[GL_ZERO] > 1_000),
        ("boundary pairs beyond the box were exercised", c[GL_BIG] > 10_000),
        ("more than 250 distinct gcd values were expected", tot.gcd_seen.len() > 250),
        ("egcd had solvable and unsolvable cases", c[EG_SOME] > 10_000 && c[EG_NONE] > 10_000),
        ("egcd had zero-coefficient cases of both kinds", c[EG_Z_SOME] > 100 && c[EG_Z_NONE] > 100),
        ("egcd had negative operands and boundary triples", c[EG_NEG] > 10_000 && c[EG_BIG] > 10_000),
        ("crt had compatible, incompatible, non-coprime-compatible, nested and lcm-1 cases", c[CRT_SOME] > 10_000 && c[CRT_NONE] > 10_000 && c[CRT_NONCOP] > 10_000 && c[CRT_NESTED] > 1_000 && c[CRT_LAST] > 1_000),
        ("crt boundary moduli were exercised", c[CRT_BIG] > 10_000),
        ("non-trivial cases dominate", c[NONTRIV] > evaluations / 4),
        ("every compared call was announced to the observer and returned", hang::calls_returned() >= evaluations),
    ];
    for (what, ok) in checks {
        if !ok {
            run.machinery_failure(&format!("non-vacuity check failed: {what}"));
        }
    }

    if std::env::var("VCORE_CHILD").is_err() {
        // the same enumeration in a build with debug assertions and integer overflow checks: every skipped
        // case is skipped BEFORE the call there too, so a panic of the real code is a panic on an in-domain input.
        // The child observes its own calls; the cap is for a child that hangs in some other way.
        run.run_dbg_child_within(Duration::from_secs(args.tier.pick(300, 3600)));
    }
    run.finish(&confirm)
}
