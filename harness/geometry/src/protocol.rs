//! The iterator protocol of the intersection results.
//!
//! `CircleLineIntersection` and `CircleIntersection` report their points a second time through `IntoIterator`.
//! Whatever std way a caller consumes that iterator in, the points handed out must be the points the enum
//! variant carries — those are the points the engine has judged to lie on both primitives.  An iterator type
//! may override any provided method (`size_hint`, `count`, `last`, `nth`, `fold`, `next_back`, `nth_back`,
//! `rfold`, `len`, …) and the std adaptors are built on those, so a sequence that is right under `next()` can be
//! wrong under any of them.
//!
//! What is demanded is deliberately order-free, because the property speaks about the points reported, not
//! about their order: a way that drains the iterator must hand out exactly the variant's points as a MULTISET;
//! a way that picks one item (`last`, `nth`, `find`, `max_by`, …) must return a point of the variant, and
//! `Some` exactly when the variant has enough points; a counting way must count the variant's points;
//! `size_hint` is held to its contract (lower bound <= items left <= upper bound), `len()` to the number left.
//! Points are compared bit for bit (the iterator only moves them).  Nothing is demanded about calls made after
//! the first `None` unless the type promises `FusedIterator`.
//!
//! Which traits the iterator type implements on top of `Iterator` (DoubleEndedIterator, ExactSizeIterator,
//! FusedIterator, Clone) and whether the result can also be iterated by reference (`&T: IntoIterator`) is
//! decided where the concrete type is known (macro `iter_protocol!`) by method resolution: the `…Yes` impls
//! exist only for types with the trait and are preferred, the `…No` impls on the reference catch the rest.  So
//! the harness follows whatever the library implements, and the evidence says which groups of ways ran.
//!
//! Two depths: the methods an iterator type realistically implements itself (`next`, `size_hint`, `count`, `last`,
//! `nth`, `fold`, `next_back`, `nth_back`, `rfold`, pulling from both ends, `len`) are run on every result; the
//! provided consumers and adaptors std builds on them (and Clone / FusedIterator) where the caller asks for the
//! full depth (main.rs: `CaseId::full_protocol`, and always for one-point results).

#![allow(dead_code)] // which probe impls are used depends on the traits the library's iterator type implements

use rlib_geometry::point::Point;
use std::borrow::Borrow;
use std::iter::FusedIterator;
use std::marker::PhantomData;

const TOO_MANY: &str = "the iteration does not end: far more items were handed out than the result has points (stopped by the harness)";

/// a failed way of consuming: its name and what was seen
pub struct Fail {
    pub way: &'static str,
    pub detail: String,
}

/// ways of consuming that were run, per group
#[derive(Clone, Copy, Default)]
pub struct Tally {
    pub forward: u64,
    pub back: u64,
    pub len: u64,
    pub fused: u64,
    pub cloned: u64,
    pub by_ref: u64,
}

fn same(a: &Point, b: &Point) -> bool {
    a.x.to_bits() == b.x.to_bits() && a.y.to_bits() == b.y.to_bits()
}

fn show(p: &[Point]) -> String {
    let v: Vec<String> = p.iter().map(|p| format!("({:?},{:?})", p.x, p.y)).collect();
    format!("[{}]", v.join(" "))
}

/// the items one way of consuming handed out (no allocation: a result has at most two points)
pub struct Got {
    n: usize,
    p: [Point; 8],
}

impl Got {
    pub fn new() -> Got {
        Got { n: 0, p: [Point { x: f64::NAN, y: f64::NAN }; 8] }
    }
    pub fn push(&mut self, p: Point) {
        if self.n >= self.p.len() {
            panic!("{}", TOO_MANY);
        }
        self.p[self.n] = p;
        self.n += 1;
    }
    fn items(&self) -> &[Point] {
        &self.p[..self.n]
    }
    /// `it` until its first `None`, at most `max` items
    fn pull<I: Iterator<Item = Point>>(&mut self, it: &mut I, max: usize) {
        for _ in 0..max {
            match it.next() {
                Some(p) => self.push(p),
                None => break,
            }
        }
    }
    /// the same points as `exp`, as a multiset
    fn is_perm_of(&self, exp: &[Point]) -> bool {
        if self.n != exp.len() {
            return false;
        }
        let mut used = [false; 8];
        'outer: for g in self.items() {
            for (i, e) in exp.iter().enumerate() {
                if !used[i] && same(g, e) {
                    used[i] = true;
                    continue 'outer;
                }
            }
            return false;
        }
        true
    }
}

pub fn perm(way: &'static str, got: &Got, exp: &[Point]) -> Result<(), Fail> {
    if got.is_perm_of(exp) {
        Ok(())
    } else {
        Err(Fail { way, detail: format!("handed out {}, expected (in any order) {}", show(got.items()), show(exp)) })
    }
}

/// a way that picks one item: `Some` exactly when `expect_some`, and then a point of the variant
fn pick(way: &'static str, x: Option<Point>, expect_some: bool, want: &[Point]) -> Result<(), Fail> {
    match x {
        None if !expect_some => Ok(()),
        Some(p) if expect_some && want.iter().any(|w| same(w, &p)) => Ok(()),
        other => Err(Fail { way, detail: format!("returned {}, the result carries {} ({} expected)", other.map_or("None".to_string(), |p| show(&[p])), show(want), if expect_some { "one of them" } else { "None" }) }),
    }
}

fn number(way: &'static str, got: usize, exp: usize) -> Result<(), Fail> {
    if got == exp {
        Ok(())
    } else {
        Err(Fail { way, detail: format!("gave {got}, expected {exp}") })
    }
}

fn hint(way: &'static str, h: (usize, Option<usize>), left: usize) -> Result<(), Fail> {
    if h.0 <= left && h.1.map_or(true, |hi| left <= hi) {
        Ok(())
    } else {
        Err(Fail { way, detail: format!("size_hint() = {h:?} with {left} item(s) left") })
    }
}

fn twice(want: &[Point]) -> ([Point; 4], usize) {
    let mut d = [Point { x: 0.0, y: 0.0 }; 4];
    for (i, w) in want.iter().chain(want.iter()).enumerate() {
        d[i] = *w;
    }
    (d, 2 * want.len())
}

/// The ways of consuming that need nothing but `Iterator`.  `want` (at most two points) is what the variant carries.
/// First the methods a hand-written iterator realistically overrides (`next`, `size_hint`, `count`, `last`, `nth`,
/// `fold`); with `full` also the provided consumers and adaptors that std builds on those.
pub fn forward<I: Iterator<Item = Point>>(mk: &impl Fn() -> I, want: &[Point], full: bool) -> Result<u64, Fail> {
    let n = want.len();
    let cap = n + 1;
    let mut ways = 0u64;
    let by_xy = |a: &Point, b: &Point| a.x.total_cmp(&b.x).then(a.y.total_cmp(&b.y));

    // next() until the first None, size_hint() before every call
    {
        let (mut it, mut got) = (mk(), Got::new());
        while got.n <= n {
            hint("size_hint", it.size_hint(), n - got.n)?;
            match it.next() {
                Some(p) => got.push(p),
                None => break,
            }
        }
        perm("next", &got, want)?;
        ways += 2;
    }
    number("count", mk().count(), n)?;
    pick("last", mk().last(), n >= 1, want)?;
    ways += 2;
    for k in 0..=cap {
        let (mut it, mut got) = (mk(), Got::new());
        let x = it.nth(k);
        pick("nth", x, k < n, want)?;
        got.pull(&mut it, cap);
        number("nth, then the rest", got.n, n.saturating_sub(k + 1))?;
        if k == 0 {
            x.into_iter().for_each(|p| got.push(p));
            perm("nth(0), then the rest", &got, want)?;
        }
        ways += 1;
    }
    {
        let got = mk().fold(Got::new(), |mut g, p| {
            g.push(p);
            g
        });
        perm("fold", &got, want)?;
        ways += 1;
    }
    if !full {
        return Ok(ways);
    }
    {
        let mut got = Got::new();
        let v: Vec<Point> = mk().collect();
        v.iter().take(8).for_each(|p| got.push(*p));
        perm("collect", &got, want)?;
        let mut v = vec![Point { x: 1.0, y: 2.0 }];
        v.extend(mk());
        let mut got = Got::new();
        v.iter().skip(1).take(8).for_each(|p| got.push(*p));
        perm("extend", &got, want)?;
        let (yes, no): (Vec<Point>, Vec<Point>) = mk().partition(|_| true);
        let mut got = Got::new();
        yes.iter().chain(no.iter()).take(8).for_each(|p| got.push(*p));
        perm("partition", &got, want)?;
        ways += 3;
    }
    {
        let mut got = Got::new();
        mk().for_each(|p| got.push(p));
        perm("for_each", &got, want)?;
        let mut got = Got::new();
        let first = mk().reduce(|a, b| {
            got.push(b);
            a
        });
        first.into_iter().for_each(|p| got.push(p));
        perm("reduce", &got, want)?;
        ways += 2;
    }
    {
        let mut got = Got::new();
        let r = mk().find(|p| {
            got.push(*p);
            false
        });
        pick("find(never)", r, false, want)?;
        perm("find(never)", &got, want)?;
        pick("find(always)", mk().find(|_| true), n >= 1, want)?;
        let mut seen = 0;
        let r = mk().position(|_| {
            seen += 1;
            false
        });
        number("position(never): items visited", seen, n)?;
        number("position(never): Some", r.is_some() as usize, 0)?;
        number("position(always)", mk().position(|_| true).map_or(usize::MAX, |i| i), if n >= 1 { 0 } else { usize::MAX })?;
        let mut got = Got::new();
        let all = mk().all(|p| {
            got.push(p);
            true
        });
        number("all(always)", all as usize, 1)?;
        perm("all(always)", &got, want)?;
        number("any(never)", mk().any(|_| false) as usize, 0)?;
        pick("max_by", mk().max_by(by_xy), n >= 1, want)?;
        pick("min_by", mk().min_by(by_xy), n >= 1, want)?;
        ways += 9;
    }
    // adaptors (skip and step_by are built on nth, chain / filter / map on fold, …)
    {
        for k in 0..=cap {
            let mut got = Got::new();
            got.pull(&mut mk().skip(k), cap);
            number("skip", got.n, n.saturating_sub(k))?;
            got.items().iter().try_for_each(|p| pick("skip", Some(*p), true, want))?;
            let mut got = Got::new();
            got.pull(&mut mk().take(k), cap);
            number("take", got.n, n.min(k))?;
            got.items().iter().try_for_each(|p| pick("take", Some(*p), true, want))?;
            ways += 2;
        }
        for step in 1..=2 {
            let mut got = Got::new();
            got.pull(&mut mk().step_by(step), cap);
            number("step_by", got.n, (n + step - 1) / step)?;
            got.items().iter().try_for_each(|p| pick("step_by", Some(*p), true, want))?;
            ways += 1;
        }
        let (dbl, dn) = twice(want);
        let mut got = Got::new();
        got.pull(&mut mk().chain(mk()), dn + 1);
        perm("chain", &got, &dbl[..dn])?;
        let got = mk().chain(mk()).fold(Got::new(), |mut g, p| {
            g.push(p);
            g
        });
        perm("chain, fold", &got, &dbl[..dn])?;
        let mut got = Got::new();
        for (a, b) in mk().zip(mk()).take(cap) {
            got.push(a);
            got.push(b);
        }
        perm("zip", &got, &dbl[..dn])?;
        let mut got = Got::new();
        for (i, (j, p)) in mk().enumerate().take(cap).enumerate() {
            number("enumerate", j, i)?;
            got.push(p);
        }
        perm("enumerate", &got, want)?;
        let (mut it, mut got) = (mk().peekable(), Got::new());
        for _ in 0..cap {
            let (ahead, x) = (it.peek().copied(), it.next());
            if ahead.is_some() != x.is_some() || ahead.zip(x).map_or(false, |(a, b)| !same(&a, &b)) {
                return Err(Fail { way: "peekable", detail: format!("peek() showed {ahead:?}, next() then gave {x:?}") });
            }
            match x {
                Some(p) => got.push(p),
                None => break,
            }
        }
        perm("peekable", &got, want)?;
        let mut got = Got::new();
        got.pull(&mut mk().fuse(), cap);
        perm("fuse", &got, want)?;
        let mut got = Got::new();
        got.pull(&mut mk().filter(|_| true).map(|p| p), cap);
        perm("filter, map", &got, want)?;
        number("filter, count", mk().filter(|_| true).count(), n)?;
        let (mut it, mut got) = (mk(), Got::new());
        got.pull(&mut it.by_ref().take(1), cap);
        got.pull(&mut it, cap);
        perm("by_ref().take(1), then the rest", &got, want)?;
        ways += 10;
    }
    Ok(ways)
}

/// the ways that need `DoubleEndedIterator`: first `next_back`, `nth_back`, `rfold` and mixed-end pulling, with `full` the rest
fn backward<I: DoubleEndedIterator<Item = Point>>(mk: &impl Fn() -> I, want: &[Point], full: bool) -> Result<u64, Fail> {
    let n = want.len();
    let cap = n + 1;
    let mut ways = 0u64;
    // next_back() until the first None, size_hint() before every call
    {
        let (mut it, mut got) = (mk(), Got::new());
        while got.n <= n {
            hint("size_hint between next_back() calls", it.size_hint(), n - got.n)?;
            match it.next_back() {
                Some(p) => got.push(p),
                None => break,
            }
        }
        perm("next_back", &got, want)?;
        ways += 2;
    }
    for k in 0..=cap {
        let (mut it, mut got) = (mk(), Got::new());
        let x = it.nth_back(k);
        pick("nth_back", x, k < n, want)?;
        got.pull(&mut it, cap);
        number("nth_back, then the rest", got.n, n.saturating_sub(k + 1))?;
        if k == 0 {
            x.into_iter().for_each(|p| got.push(p));
            perm("nth_back(0), then the rest", &got, want)?;
        }
        ways += 1;
    }
    {
        let got = mk().rfold(Got::new(), |mut g, p| {
            g.push(p);
            g
        });
        perm("rfold", &got, want)?;
        ways += 1;
    }
    // j items from the front, then alternately back / front (and front / back) until the first None
    for j in 0..=n {
        for back_first in [true, false] {
            let (mut it, mut got) = (mk(), Got::new());
            got.pull(&mut it, j);
            let mut from_back = back_first;
            while got.n <= n {
                hint("size_hint between mixed next() / next_back() calls", it.size_hint(), n - got.n)?;
                match if from_back { it.next_back() } else { it.next() } {
                    Some(p) => got.push(p),
                    None => break,
                }
                from_back = !from_back;
            }
            perm(if back_first { "next x j, then next_back / next alternately" } else { "next x j, then next / next_back alternately" }, &got, want)?;
            ways += 1;
        }
    }
    if !full {
        return Ok(ways);
    }
    {
        let mut got = Got::new();
        got.pull(&mut mk().rev(), cap);
        perm("rev", &got, want)?;
        let got = mk().rev().fold(Got::new(), |mut g, p| {
            g.push(p);
            g
        });
        perm("rev, fold", &got, want)?;
        number("rev, count", mk().rev().count(), n)?;
        pick("rev, last", mk().rev().last(), n >= 1, want)?;
        let mut got = Got::new();
        let r = mk().rfind(|p| {
            got.push(*p);
            false
        });
        pick("rfind(never)", r, false, want)?;
        perm("rfind(never)", &got, want)?;
        pick("rfind(always)", mk().rfind(|_| true), n >= 1, want)?;
        ways += 6;
    }
    for k in 0..=cap {
        pick("rev, nth", mk().rev().nth(k), k < n, want)?;
        ways += 1;
    }
    Ok(ways)
}

/// the ways that need `ExactSizeIterator`: `len()` (which itself asserts that size_hint() is exact) between calls of next()
fn lengths<I: ExactSizeIterator<Item = Point>>(mk: &impl Fn() -> I, want: &[Point], _full: bool) -> Result<u64, Fail> {
    let n = want.len();
    let mut it = mk();
    for j in 0..=n {
        number("len between next() calls", it.len(), n - j)?;
        it.next();
    }
    Ok(n as u64 + 1)
}

/// the ways that need both: `len()` between next_back() calls and between mixed calls, `rposition`
fn back_lengths<I: ExactSizeIterator<Item = Point> + DoubleEndedIterator>(mk: &impl Fn() -> I, want: &[Point], _full: bool) -> Result<u64, Fail> {
    let n = want.len();
    let mut it = mk();
    for j in 0..=n {
        number("len between next_back() calls", it.len(), n - j)?;
        it.next_back();
    }
    let mut it = mk();
    for j in 0..=n {
        number("len between mixed next() / next_back() calls", it.len(), n - j)?;
        if j % 2 == 0 {
            it.next();
        } else {
            it.next_back();
        }
    }
    let mut seen = 0;
    let r = mk().rposition(|_| {
        seen += 1;
        false
    });
    number("rposition(never): items visited", seen, n)?;
    number("rposition(never): Some", r.is_some() as usize, 0)?;
    number("rposition(always)", mk().rposition(|_| true).map_or(usize::MAX, |i| i), if n >= 1 { n - 1 } else { usize::MAX })?;
    Ok(2 * n as u64 + 4)
}

/// a type that promises `FusedIterator` keeps returning None
fn fused<I: FusedIterator<Item = Point>>(mk: &impl Fn() -> I, want: &[Point], _full: bool) -> Result<u64, Fail> {
    let (mut it, mut got) = (mk(), Got::new());
    got.pull(&mut it, want.len() + 1);
    for extra in 1..=3 {
        if let Some(p) = it.next() {
            return Err(Fail { way: "next after None (FusedIterator)", detail: format!("call number {extra} after the first None gave {}", show(&[p])) });
        }
    }
    Ok(1)
}

/// a clonable iterator: the clone and the original hand out the same items, from any position; `cycle`
fn cloned<I: Iterator<Item = Point> + Clone>(mk: &impl Fn() -> I, want: &[Point], full: bool) -> Result<u64, Fail> {
    if !full {
        return Ok(0);
    }
    let n = want.len();
    let cap = n + 1;
    for j in 0..=n {
        let mut it = mk();
        let mut head = Got::new();
        head.pull(&mut it, j);
        let mut copy = it.clone();
        let (mut a, mut b) = (Got::new(), Got::new());
        head.items().iter().for_each(|p| {
            a.push(*p);
            b.push(*p)
        });
        a.pull(&mut it, cap);
        b.pull(&mut copy, cap);
        perm("clone after j next() calls: the original", &a, want)?;
        perm("clone after j next() calls: the clone", &b, want)?;
    }
    let (dbl, dn) = twice(want);
    let mut got = Got::new();
    got.pull(&mut mk().cycle().take(dn), dn + 1);
    perm("cycle, take(2 x points)", &got, &dbl[..dn])?;
    Ok(n as u64 + 2)
}

// ---------------------------------------------------------------------------------------------------
// probes

pub struct Probe<'a, I, F: Fn() -> I>(pub &'a F, PhantomData<I>);

impl<'a, I, F: Fn() -> I> Probe<'a, I, F> {
    pub fn new(f: &'a F) -> Self {
        Probe(f, PhantomData)
    }
}

macro_rules! probe {
    ($yes:ident, $no:ident, $method:ident, $run:ident, $($bound:tt)+) => {
        pub trait $yes {
            fn $method(&self, want: &[Point], full: bool) -> Result<u64, Fail>;
        }
        pub trait $no {
            fn $method(&self, _want: &[Point], _full: bool) -> Result<u64, Fail> {
                Ok(0)
            }
        }
        impl<I, F: Fn() -> I> $no for &Probe<'_, I, F> {}
        impl<I: $($bound)+, F: Fn() -> I> $yes for Probe<'_, I, F> {
            fn $method(&self, want: &[Point], full: bool) -> Result<u64, Fail> {
                $run(self.0, want, full)
            }
        }
    };
}

probe!(BackYes, BackNo, back_ways, backward, DoubleEndedIterator<Item = Point>);
probe!(LenYes, LenNo, len_ways, lengths, ExactSizeIterator<Item = Point>);
probe!(BackLenYes, BackLenNo, back_len_ways, back_lengths, ExactSizeIterator<Item = Point> + DoubleEndedIterator);
probe!(FusedYes, FusedNo, fused_ways, fused, FusedIterator<Item = Point>);
probe!(CloneYes, CloneNo, clone_ways, cloned, Iterator<Item = Point> + Clone);

/// iteration by reference, if the result type offers it (`&T: IntoIterator` handing out points or references to points)
pub struct RefProbe<'a, T>(pub &'a T);

pub trait RefYes {
    fn ref_ways(&self, want: &[Point], full: bool) -> Result<u64, Fail>;
}
pub trait RefNo {
    fn ref_ways(&self, _want: &[Point], _full: bool) -> Result<u64, Fail> {
        Ok(0)
    }
}
impl<T> RefNo for &RefProbe<'_, T> {}
impl<'a, T> RefYes for RefProbe<'a, T>
where
    &'a T: IntoIterator,
    <&'a T as IntoIterator>::Item: Borrow<Point>,
{
    fn ref_ways(&self, want: &[Point], full: bool) -> Result<u64, Fail> {
        let v: &'a T = self.0;
        let mk = || v.into_iter().map(|p| *p.borrow());
        forward(&mk, want, full)
    }
}

/// Run every way of consuming on the iterators `$make().into_iter()` hands out (`$make` builds a fresh, equal
/// result each time; `$value` is a reference to one of them) against `$want`, the points of the variant.
/// `$full` = false restricts every group to the methods an iterator type realistically implements itself.
/// Must be expanded where the result type is concrete.  Evaluates to `Result<Tally, Fail>`.
macro_rules! iter_protocol {
    ($make:expr, $value:expr, $want:expr, $full:expr) => {{
        #[allow(unused_imports)]
        use $crate::protocol::{BackLenNo, BackLenYes, BackNo, BackYes, CloneNo, CloneYes, FusedNo, FusedYes, LenNo, LenYes, RefNo, RefYes};
        let make = $make;
        let want: &[Point] = $want;
        let full: bool = $full;
        let mk = || make().into_iter();
        let probe = $crate::protocol::Probe::new(&mk);
        (|| -> Result<$crate::protocol::Tally, $crate::protocol::Fail> {
            let mut t = $crate::protocol::Tally::default();
            // the plain for loop over the result itself
            let mut got = $crate::protocol::Got::new();
            for p in make() {
                got.push(p);
            }
            $crate::protocol::perm("for loop", &got, want)?;
            t.forward += 1 + $crate::protocol::forward(&mk, want, full)?;
            t.back += (&probe).back_ways(want, full)?;
            t.len += (&probe).len_ways(want, full)? + (&probe).back_len_ways(want, full)?;
            t.fused += (&probe).fused_ways(want, full)?;
            t.cloned += (&probe).clone_ways(want, full)?;
            t.by_ref += (&$crate::protocol::RefProbe($value)).ref_ways(want, full)?;
            Ok(t)
        })()
    }};
}
