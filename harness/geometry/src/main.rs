//! C10 — intersections lie on both objects and report the right kind of contact.
//!
//! Form I (small-scope input enumeration), level "exploration".  Every configuration is built from
//! INTEGER data (lattice points, integer radii), so its geometric class (none / tangent / two points /
//! identical, inside / border / outside, on / off the line, parallel / crossing) is decided EXACTLY in
//! i128 arithmetic.  The real library is then fed the f64 image of the configuration under a similarity
//! transform (identity = lattice 1; rational rotation + translation by quarters + integer scaling =
//! lattice 2), which preserves the class, and its answers are compared with the exact class and with
//! the f64 evaluation of the exact algebraic intersection points.
//!
//! Two further families leave the "comfortable" part of the domain, still with exactly decided classes:
//!
//! * NEAR-boundary: every exactly tangent circle–line / circle–circle configuration and every exact
//!   border point found by the enumeration (in every lattice image) is fed again with one radius
//!   changed by ±1e-8, ±3e-7, ±1e-5.  The sign of the change decides the class (secant / disjoint,
//!   crossing / nested / separated, inside / outside); the distance from the boundary is the size of the
//!   change, i.e. 10 … 10^4 times the library's 1e-9 tolerance, so the property applies.
//! * SKEW lines: the axis-parallel lines spanning a scaled lattice box with one endpoint nudged sideways
//!   by 2^-19, 2^-13, 2^-7 (normalised minor coefficient 2.4e-9 … 1e-5 with defining points 800 apart),
//!   crossed in both argument orders with every lattice line and with each other.  All coordinates are
//!   integers in units of 2^-19, so parallel / crossing / on-line are again decided in i128.
//!
//! * EXTREME RADIUS RATIOS near the tangency boundaries: circle pairs with dyadic radii R >> r (R/r from 4
//!   to 1280), the larger one centred at the origin, at a lattice point and at two non-lattice positions,
//!   the smaller one along axis and Pythagorean directions at centre distance R + r -+ delta (crossing /
//!   separated) and R - r +- delta (crossing / nested), delta = 1e-8 … 1e-3, i.e. 10 … 10^6 times the
//!   library's tolerance; the class is decided by the sign of delta.  (The lattice families reach large
//!   radii only together with large scales, never a large RATIO of radii.)
//! * NEARLY EQUAL RADII / NEARLY CONCENTRIC circles: pairs whose radii differ by a multiple of g = 65 * 2^-k
//!   (0.5 … 6e-8) and whose centres are g, g + delta or g - delta apart along the twelve rational directions of
//!   hypotenuse 65: exact internal tangency (TouchInside demanded), its two sides (crossing / nested, decided by
//!   the sign of delta) and nearly concentric pairs of equal and almost equal radii (crossing) or of radii
//!   differing by more than the centre distance (nested).  Radii 1 … 999.5 and centres up to 933 are generic
//!   53-bit numbers, not lattice values; every fed number is an integer multiple of 2^-43, so the class is
//!   decided in i128 on exactly the numbers handed to the library.  (The lattice families reach internal
//!   tangency only with radius differences of lattice size, i.e. >= 1.)
//! * NEARLY NORMALISED lines: lines handed to the library through each of its two public constructors
//!   (`Line::new(a, b, c)` from coefficients, `Line::between(u, v)` from two points; the type has no other —
//!   `Default` is the degenerate 0 = 0 and the fields are public) whose RAW normal has length 1 + k * 2^-s for
//!   small integers k and s around 30, i.e. almost but not exactly a unit vector: the raw normal is
//!   (p, q) * t / 2^s for a Pythagorean direction (p, q, h) and the integers t next to 2^s / h, so its length
//!   h * t / 2^s is known exactly, every fed number is a dyadic rational that is verified to be an exact f64, and
//!   the line is exactly p (x - x1) + q (y - y1) = 0.  Such a line is crossed with circles whose centre is up to
//!   ~1e3 away from it: at exact tangency (radius h * rho, centre = tangent point + rho * (p, q)), with the
//!   radius changed by +-delta for every delta of the extreme-ratio list and by +-r/64, +-r/4; with points on,
//!   next to and off the line for `contains`; with the perpendicular through a defining point and with a
//!   parallel copy for `intersect_ll` / `parallel`.  (The lattice families normalise raw normals of length 1,
//!   sqrt(2), 2, … — never one that is within 1e-9 of 1 without being 1.)
//! * ITERATOR PROTOCOL: every result of `intersect_cl` / `intersect_cc` that any family above judges is also
//!   consumed through its `IntoIterator` impl in every std way (see protocol.rs), and the points handed out are
//!   compared with the points the enum variant carries.
//!
//! Nothing here is sampled: all centres x radii x ordered point pairs of the stated lattice are visited.

#[macro_use]
mod protocol;

use rayon::prelude::*;
use rlib_geometry::circle::{Circle, PointPosition};
use rlib_geometry::line::Line;
use rlib_geometry::point::Point;
use rlib_geometry::util::{self, CircleIntersection, CircleLineIntersection};
use std::collections::BTreeMap;
use vcore::*;

/// the property's accuracy demand on returned points
const TOL: f64 = 1e-7;
/// the property restricts that demand to coordinates up to 1e3
const COORD_LIMIT: f64 = 1e3;
/// every non-zero distance to a boundary between kinds must exceed this on the lattice (library EPS = 1e-9)
const GAP_FLOOR: f64 = 1e-6;

/// near-boundary family: signed change of one radius (index 1..=6 is what replay files record; 0 = none)
const PERTS: [f64; 7] = [0.0, 1e-8, -1e-8, 3e-7, -3e-7, 1e-5, -1e-5];
/// near-boundary and skew families: smallest admissible distance from a boundary (library EPS = 1e-9)
const NEAR_FLOOR: f64 = 2e-9;
/// skew family: coordinates are integers in units of 2^-19
const BIN: i64 = 1 << 19;

type IP = (i64, i64);

/// extreme-radius-ratio family: smallest admissible |delta| (10x the library's tolerance)
const RATIO_FLOOR: f64 = 1e-8;
/// extreme-radius-ratio family: the fed centre distance must reproduce the intended delta this well (relatively)
const RATIO_GAP_REL: f64 = 1e-3;

/// nearly-equal-radii family: every fed number is an integer multiple of 2^-43 (an exact f64 below 2^10)
const EQ_BITS: u32 = 43;
const EQ_UNIT: f64 = 1.0 / (1u64 << EQ_BITS) as f64;
/// nearly-equal-radii family: radius differences and centre distances are multiples of 65 * 2^-k; 65 is the
/// hypotenuse of (39,52) = 13 * (3,4), (25,60) = 5 * (5,12), (16,63), (33,56), so offsets in those directions are exact
const EQ_HYP: i64 = 65;
/// nearly-equal-radii family: largest admissible k (g = 65 * 2^-30 = 6.05e-8, g / 2 is still 30x the library tolerance)
const EQ_MAX_K: u32 = 30;

fn pert_tag(i: usize) -> String {
    format!("{:+e}", PERTS[i])
}

// ------------------------------------------------------------------------------------------------
// similarity transform: rotate by (p/h, q/h), translate by (tx/4, ty/4), scale by s
// ------------------------------------------------------------------------------------------------

#[derive(Clone, Copy, Debug, PartialEq)]
struct Tf {
    p: i64,
    q: i64,
    h: i64,
    tx: i64,
    ty: i64,
    s: i64,
}

impl Tf {
    const ID: Tf = Tf { p: 1, q: 0, h: 1, tx: 0, ty: 0, s: 1 };
    /// the skew family's plane: integer coordinates in units of 2^-19 (the image is exact in f64)
    const BINARY: Tf = Tf { p: 1, q: 0, h: BIN, tx: 0, ty: 0, s: 1 };

    fn is_id(&self) -> bool {
        *self == Tf::ID
    }
    fn is_binary(&self) -> bool {
        *self == Tf::BINARY
    }
    /// a pre-image point for signatures and messages (the skew plane shows the fed binary fraction)
    fn show(&self, p: IP) -> String {
        if self.is_binary() {
            format!("({:?},{:?})", p.0 as f64 / BIN as f64, p.1 as f64 / BIN as f64)
        } else {
            ip(p)
        }
    }
    /// image of an integer point (numerators exact, one division, one addition, one multiplication)
    fn pt(&self, (x, y): IP) -> Point {
        let xr = (self.p * x - self.q * y) as f64 / self.h as f64 + self.tx as f64 / 4.0;
        let yr = (self.q * x + self.p * y) as f64 / self.h as f64 + self.ty as f64 / 4.0;
        Point::new(self.s as f64 * xr, self.s as f64 * yr)
    }
    /// image of a real point of the pre-image plane (used for the reference intersection points)
    fn ptf(&self, x: f64, y: f64) -> (f64, f64) {
        let (p, q, h) = (self.p as f64, self.q as f64, self.h as f64);
        let xr = (p * x - q * y) / h + self.tx as f64 / 4.0;
        let yr = (q * x + p * y) / h + self.ty as f64 / 4.0;
        (self.s as f64 * xr, self.s as f64 * yr)
    }
    fn rad(&self, r: i64) -> f64 {
        (r * self.s) as f64
    }
    fn tag(&self) -> String {
        if self.is_id() {
            "id".to_string()
        } else if self.is_binary() {
            "2^-19".to_string()
        } else {
            format!("rot{}/{}+({},{})/4*{}", self.p, self.h, self.tx, self.ty, self.s)
        }
    }
    fn json(&self) -> Value {
        json!([self.p, self.q, self.h, self.tx, self.ty, self.s])
    }
    fn from_json(v: &Value) -> Tf {
        let g = |i: usize| v[i].as_i64().unwrap();
        Tf { p: g(0), q: g(1), h: g(2), tx: g(3), ty: g(4), s: g(5) }
    }
}

// ------------------------------------------------------------------------------------------------
// accumulator (one per rayon task, merged deterministically)
// ------------------------------------------------------------------------------------------------

type Key = (u64, u64, u64);

#[derive(Clone, Copy)]
#[repr(usize)]
enum C {
    Evals,
    Nontrivial,
    SkippedOutOfDomain,
    ClNone,
    ClTouch,
    ClIntersect,
    ClTouchNonAxis,
    CcNoneOutside,
    CcNoneInside,
    CcSame,
    CcTouchInside,
    CcTouchOutside,
    CcIntersect,
    CcTouchInsideNonAxis,
    CcTouchOutsideNonAxis,
    LlParallel,
    LlPoint,
    LlPointFar,
    PosInside,
    PosBorder,
    PosOutside,
    PosBorderOffAxis,
    ContainsOn,
    ContainsOff,
    ObsClTouch,
    ObsClIntersect,
    ObsCcTouchInside,
    ObsCcTouchOutside,
    ObsCcIntersect,
    ObsCcSame,
    ObsLlSome,
    NearClIntersect,
    NearClNone,
    NearCcIntersect,
    NearCcNoneOutside,
    NearCcNoneInside,
    NearPosInside,
    NearPosOutside,
    NearPosInBand,
    NearLargeRadiusInRelBand,
    SkewLlParallel,
    SkewLlPoint,
    SkewLlPointChecked,
    SkewLlSteepFirst,
    SkewContainsOn,
    SkewContainsOff,
    RatioCcIntersect,
    RatioCcNoneOutside,
    RatioCcNoneInside,
    RatioObsIntersect,
    RatioObsTouch,
    EqCcTouchInside,
    EqCcTouchInsideFarCentre,
    EqCcIntersect,
    EqCcIntersectConcentric,
    EqCcNoneInside,
    EqCcNoneInsideConcentric,
    EqObsTouchInside,
    EqObsIntersect,
    EqSkippedReach,
    IterResults,
    IterResultsAgreed,
    IterNoPoint,
    IterOnePoint,
    IterTwoPoints,
    IterWaysForward,
    IterWaysBack,
    IterWaysLen,
    IterWaysFused,
    IterWaysClone,
    IterWaysByRef,
    NuLines,
    NuLinesInBand,
    NuClTouch,
    NuClTouchFarInBand,
    NuClIntersect,
    NuClNone,
    NuObsTouch,
    NuObsIntersect,
    NuContainsOn,
    NuContainsOff,
    NuLlPoint,
    NuLlParallel,
    NuSkippedReach,
    NuNotRepresentable,
    RouteCalls,
    RouteBitIdentical,
    RouteDiffer,
    RouteClNone,
    RouteClTouch,
    RouteClIntersect,
    RouteCcNone,
    RouteCcSame,
    RouteCcTouch,
    RouteCcIntersect,
    RouteLlParallel,
    RouteLlPoint,
    RoutePos,
    RouteContains,
    N,
}

const CNAMES: [&str; C::N as usize] = [
    "evaluations",
    "distinct_nontrivial",
    "skipped_out_of_domain",
    "exact_cl_none",
    "exact_cl_touch",
    "exact_cl_intersect",
    "exact_cl_touch_non_axis_aligned",
    "exact_cc_none_outside",
    "exact_cc_none_inside",
    "exact_cc_same",
    "exact_cc_touch_inside",
    "exact_cc_touch_outside",
    "exact_cc_intersect",
    "exact_cc_touch_inside_non_axis_aligned",
    "exact_cc_touch_outside_non_axis_aligned",
    "exact_ll_parallel",
    "exact_ll_point",
    "exact_ll_point_beyond_1e3_point_check_skipped",
    "exact_position_inside",
    "exact_position_border",
    "exact_position_outside",
    "exact_position_border_off_axis",
    "exact_contains_on",
    "exact_contains_off",
    "observed_cl_touch",
    "observed_cl_intersect",
    "observed_cc_touch_inside",
    "observed_cc_touch_outside",
    "observed_cc_intersect",
    "observed_cc_same",
    "observed_ll_some",
    "near_cl_exact_intersect",
    "near_cl_exact_none",
    "near_cc_exact_intersect",
    "near_cc_exact_none_outside",
    "near_cc_exact_none_inside",
    "near_position_exact_inside",
    "near_position_exact_outside",
    "near_position_within_relative_tolerance_skipped",
    "near_cl_cc_cases_with_change_below_radius_times_1e-9",
    "skew_ll_exact_parallel",
    "skew_ll_exact_point",
    "skew_ll_point_within_1e3_checked",
    "skew_ll_first_line_minor_coefficient_below_1e-6",
    "skew_contains_on",
    "skew_contains_off",
    "ratio_cc_exact_intersect",
    "ratio_cc_exact_none_outside",
    "ratio_cc_exact_none_inside",
    "ratio_cc_observed_intersect",
    "ratio_cc_observed_touch",
    "eq_cc_exact_touch_inside",
    "eq_cc_exact_touch_inside_centre_coordinate_beyond_100",
    "eq_cc_exact_intersect",
    "eq_cc_exact_intersect_nearly_concentric",
    "eq_cc_exact_none_inside",
    "eq_cc_exact_none_inside_nearly_concentric",
    "eq_cc_observed_touch_inside",
    "eq_cc_observed_intersect",
    "eq_cc_skipped_a_circle_reaches_beyond_1e3",
    "iter_results_put_through_the_iterator_protocol",
    "iter_results_for_which_every_way_agreed",
    "iter_results_without_a_point",
    "iter_results_with_one_point",
    "iter_results_with_two_points",
    "iter_ways_run_iterator",
    "iter_ways_run_double_ended",
    "iter_ways_run_exact_size",
    "iter_ways_run_fused",
    "iter_ways_run_clone",
    "iter_ways_run_by_reference",
    "nu_lines_built",
    "nu_lines_built_with_raw_normal_length_within_1e-9_of_1",
    "nu_cl_exact_touch",
    "nu_cl_exact_touch_at_distance_500_or_more_raw_normal_length_within_1e-9_of_1",
    "nu_cl_exact_intersect",
    "nu_cl_exact_none",
    "nu_cl_observed_touch",
    "nu_cl_observed_intersect",
    "nu_contains_on",
    "nu_contains_off",
    "nu_ll_exact_point",
    "nu_ll_exact_parallel",
    "nu_skipped_reaching_beyond_1e3",
    "nu_not_formed_a_fed_number_is_not_an_exact_f64",
    "route_calls_with_an_operand_not_built_by_new_or_between",
    "route_results_bit_identical_to_the_judged_new_route_result",
    "route_results_differing_in_bits_judged_by_the_full_oracle",
    "route_cl_configurations_observed_none",
    "route_cl_configurations_observed_touch",
    "route_cl_configurations_observed_intersect",
    "route_cc_configurations_observed_none",
    "route_cc_configurations_observed_same",
    "route_cc_configurations_observed_touch",
    "route_cc_configurations_observed_intersect",
    "route_ll_configurations_observed_parallel",
    "route_ll_configurations_observed_point",
    "route_position_configurations",
    "route_contains_configurations",
];

#[derive(Clone)]
struct Acc {
    c: [u64; C::N as usize],
    gap_cl: f64,
    gap_cc: f64,
    gap_pos_rel: f64,
    gap_contains: f64,
    gap_parallel: f64,
    gap_skew_parallel: f64,
    gap_skew_contains: f64,
    max_dev: f64,
    /// extreme-radius-ratio family: smallest |measured distance from the boundary|, largest relative
    /// disagreement between measured and intended distance, largest |coordinate| on any fed circle
    ratio_gap: f64,
    ratio_gap_rel_err: f64,
    ratio_reach: f64,
    /// extreme-radius-ratio family, over accepted answers: largest distance of a returned point from a
    /// circle, smallest mutual distance of two returned points
    ratio_max_off: f64,
    ratio_min_apart: f64,
    /// extreme-radius-ratio family: failing cases per (check, R, r, centre distance)
    ratio_fails: BTreeMap<String, u64>,
    /// nearly-equal-radii family: smallest non-zero |exact distance from internal tangency|, largest relative
    /// disagreement between that and the intended one, largest |coordinate| on any fed circle, and over accepted
    /// answers the largest distance of a returned point from a circle / smallest mutual distance of two points
    eq_gap: f64,
    eq_gap_rel_err: f64,
    eq_reach: f64,
    eq_max_off: f64,
    eq_min_apart: f64,
    /// nearly-equal-radii family: failing calls per (check, g)
    eq_fails: BTreeMap<String, u64>,
    /// nearly-normalised-lines family: largest |coordinate| on any fed circle or defining point, smallest measured
    /// distance of a "next to the line" point from the line, largest |Line::dist - exact distance| seen (recorded,
    /// not judged), and over accepted answers the largest distance of a returned point from circle or line
    nu_reach: f64,
    nu_near_gap: f64,
    nu_max_dist_err: f64,
    nu_max_off: f64,
    /// nearly-normalised-lines family: failing calls per (check, constructor, normal length)
    nu_fails: BTreeMap<String, u64>,
    fails: BTreeMap<&'static str, (Key, Violation)>,
    fail_counts: BTreeMap<&'static str, u64>,
    notes: BTreeMap<&'static str, (Key, Value)>,
}

impl Acc {
    fn new() -> Acc {
        Acc {
            c: [0; C::N as usize],
            gap_cl: f64::INFINITY,
            gap_cc: f64::INFINITY,
            gap_pos_rel: f64::INFINITY,
            gap_contains: f64::INFINITY,
            gap_parallel: f64::INFINITY,
            gap_skew_parallel: f64::INFINITY,
            gap_skew_contains: f64::INFINITY,
            max_dev: 0.0,
            ratio_gap: f64::INFINITY,
            ratio_gap_rel_err: 0.0,
            ratio_reach: 0.0,
            ratio_max_off: 0.0,
            ratio_min_apart: f64::INFINITY,
            ratio_fails: BTreeMap::new(),
            eq_gap: f64::INFINITY,
            eq_gap_rel_err: 0.0,
            eq_reach: 0.0,
            eq_max_off: 0.0,
            eq_min_apart: f64::INFINITY,
            eq_fails: BTreeMap::new(),
            nu_reach: 0.0,
            nu_near_gap: f64::INFINITY,
            nu_max_dist_err: 0.0,
            nu_max_off: 0.0,
            nu_fails: BTreeMap::new(),
            fails: BTreeMap::new(),
            fail_counts: BTreeMap::new(),
            notes: BTreeMap::new(),
        }
    }
    #[inline]
    fn inc(&mut self, k: C) {
        self.c[k as usize] += 1;
    }
    fn get(&self, k: C) -> u64 {
        self.c[k as usize]
    }
    fn fail(&mut self, fam: &'static str, key: Key, mk: impl FnOnce() -> Violation) {
        *self.fail_counts.entry(fam).or_insert(0) += 1;
        match self.fails.get(fam) {
            Some((k, _)) if *k <= key => {}
            _ => {
                self.fails.insert(fam, (key, mk()));
            }
        }
    }
    fn note(&mut self, cat: &'static str, key: Key, mk: impl FnOnce() -> Value) {
        match self.notes.get(cat) {
            Some((k, _)) if *k <= key => {}
            _ => {
                self.notes.insert(cat, (key, mk()));
            }
        }
    }
    fn merge(mut self, o: Acc) -> Acc {
        for i in 0..self.c.len() {
            self.c[i] += o.c[i];
        }
        self.gap_cl = self.gap_cl.min(o.gap_cl);
        self.gap_cc = self.gap_cc.min(o.gap_cc);
        self.gap_pos_rel = self.gap_pos_rel.min(o.gap_pos_rel);
        self.gap_contains = self.gap_contains.min(o.gap_contains);
        self.gap_parallel = self.gap_parallel.min(o.gap_parallel);
        self.gap_skew_parallel = self.gap_skew_parallel.min(o.gap_skew_parallel);
        self.gap_skew_contains = self.gap_skew_contains.min(o.gap_skew_contains);
        self.max_dev = self.max_dev.max(o.max_dev);
        self.ratio_gap = self.ratio_gap.min(o.ratio_gap);
        self.ratio_gap_rel_err = self.ratio_gap_rel_err.max(o.ratio_gap_rel_err);
        self.ratio_reach = self.ratio_reach.max(o.ratio_reach);
        self.ratio_max_off = self.ratio_max_off.max(o.ratio_max_off);
        self.ratio_min_apart = self.ratio_min_apart.min(o.ratio_min_apart);
        for (f, n) in o.ratio_fails {
            *self.ratio_fails.entry(f).or_insert(0) += n;
        }
        self.eq_gap = self.eq_gap.min(o.eq_gap);
        self.eq_gap_rel_err = self.eq_gap_rel_err.max(o.eq_gap_rel_err);
        self.eq_reach = self.eq_reach.max(o.eq_reach);
        self.eq_max_off = self.eq_max_off.max(o.eq_max_off);
        self.eq_min_apart = self.eq_min_apart.min(o.eq_min_apart);
        for (f, n) in o.eq_fails {
            *self.eq_fails.entry(f).or_insert(0) += n;
        }
        self.nu_reach = self.nu_reach.max(o.nu_reach);
        self.nu_near_gap = self.nu_near_gap.min(o.nu_near_gap);
        self.nu_max_dist_err = self.nu_max_dist_err.max(o.nu_max_dist_err);
        self.nu_max_off = self.nu_max_off.max(o.nu_max_off);
        for (f, n) in o.nu_fails {
            *self.nu_fails.entry(f).or_insert(0) += n;
        }
        for (f, n) in o.fail_counts {
            *self.fail_counts.entry(f).or_insert(0) += n;
        }
        for (f, (k, v)) in o.fails {
            match self.fails.get(f) {
                Some((k0, _)) if *k0 <= k => {}
                _ => {
                    self.fails.insert(f, (k, v));
                }
            }
        }
        for (f, (k, v)) in o.notes {
            match self.notes.get(f) {
                Some((k0, _)) if *k0 <= k => {}
                _ => {
                    self.notes.insert(f, (k, v));
                }
            }
        }
        self
    }
}

// ------------------------------------------------------------------------------------------------
// small f64 helpers for the oracle (image plane)
// ------------------------------------------------------------------------------------------------

fn d2(ax: f64, ay: f64, bx: f64, by: f64) -> f64 {
    ((ax - bx) * (ax - bx) + (ay - by) * (ay - by)).sqrt()
}

/// | |p - c| - r |
fn off_circle(p: &Point, c: &Point, r: f64) -> f64 {
    (d2(p.x, p.y, c.x, c.y) - r).abs()
}

/// distance of p from the line through the two DEFINING points (never the library's normalised line)
fn off_line(p: &Point, a: &Point, b: &Point) -> f64 {
    let (dx, dy) = (b.x - a.x, b.y - a.y);
    ((dx * (p.y - a.y) - dy * (p.x - a.x)) / (dx * dx + dy * dy).sqrt()).abs()
}

/// `x <= TOL`, false for NaN
fn within(x: f64) -> bool {
    x <= TOL
}

/// deviation of {a1,a2} from {e1,e2} as sets: min over the two pairings of the larger distance
fn set_dev(a1: &Point, a2: &Point, e1: (f64, f64), e2: (f64, f64)) -> f64 {
    let m = |u: f64, v: f64| if u.is_nan() || v.is_nan() { f64::NAN } else { u.max(v) };
    let s = m(d2(a1.x, a1.y, e1.0, e1.1), d2(a2.x, a2.y, e2.0, e2.1));
    let t = m(d2(a1.x, a1.y, e2.0, e2.1), d2(a2.x, a2.y, e1.0, e1.1));
    if s.is_nan() || t.is_nan() {
        f64::NAN
    } else {
        s.min(t)
    }
}

fn pj(p: &Point) -> Value {
    json!([p.x, p.y])
}
fn ps(p: &Point) -> String {
    format!("({:?},{:?})", p.x, p.y)
}
fn ip(p: IP) -> String {
    format!("({},{})", p.0, p.1)
}

// ------------------------------------------------------------------------------------------------
// the iterator protocol of the two result enums (see protocol.rs)
// ------------------------------------------------------------------------------------------------

/// what a judged case needs in order to be reported, and how deep its results go through the iterator protocol
trait CaseId {
    fn sig(&self) -> String;
    fn replay(&self, fam: &str) -> Value;
    /// true: every way of consuming; false: only the methods an iterator type realistically implements itself
    /// (next, size_hint, count, last, nth, fold, next_back, nth_back, rfold, mixed-end pulling, len) unless the
    /// result has exactly one point — a one-point result always gets every way
    fn full_protocol(&self) -> bool;
}

macro_rules! case_id {
    ($t:ty, $full:expr) => {
        impl CaseId for $t {
            fn sig(&self) -> String {
                <$t>::sig(self)
            }
            fn replay(&self, fam: &str) -> Value {
                <$t>::replay(self, fam)
            }
            fn full_protocol(&self) -> bool {
                let f: fn(&$t) -> bool = $full;
                f(self)
            }
        }
    };
}
// lattice 1, the near-boundary companions and the small special families: every way on every result; the
// similarity images of lattice 1 and the (large) nearly-normalised-lines family: every way on one-point results
case_id!(ClCase, |k| (k.tf.is_id() || k.pert != 0) && k.rc == 0 && k.rl == 0);
case_id!(CcCase, |k| (k.tf.is_id() || k.pert != 0) && k.rta == 0 && k.rtb == 0);
case_id!(RatioCase, |_| true);
case_id!(EqCase, |_| true);
case_id!(NuCase, |_| false);

fn iter_verdict(acc: &mut Acc, key: Key, k: &dyn CaseId, fam: &'static str, call: &str, n: usize, r: Result<Result<protocol::Tally, protocol::Fail>, String>, shown: &dyn Fn() -> String) {
    acc.inc(C::IterResults);
    acc.inc([C::IterNoPoint, C::IterOnePoint, C::IterTwoPoints][n]);
    let f = match r {
        Ok(Ok(t)) => {
            acc.inc(C::IterResultsAgreed);
            for (c, w) in [(C::IterWaysForward, t.forward), (C::IterWaysBack, t.back), (C::IterWaysLen, t.len), (C::IterWaysFused, t.fused), (C::IterWaysClone, t.cloned), (C::IterWaysByRef, t.by_ref)] {
                acc.c[c as usize] += w;
            }
            return;
        }
        Ok(Err(f)) => f,
        Err(p) => protocol::Fail { way: "panic", detail: format!("a method of the iterator panicked: {p}") },
    };
    acc.fail(fam, key, || {
        Violation::new(
            format!("{fam}:{};way={}", k.sig(), f.way),
            format!("{call} returned {} (case {}); its points taken from `into_iter()` by way of `{}`: {} — what a result reports through its iterator must be the points of the returned variant", shown(), k.sig(), f.way, f.detail),
            k.replay(fam),
        )
    });
}

/// Every std way of consuming the `IntoIterator` of a circle–line result against the points of its variant.
fn iter_cl(acc: &mut Acc, key: Key, k: &dyn CaseId, v: &CircleLineIntersection) {
    let z = Point::new(0.0, 0.0);
    let (pts, n) = match v {
        CircleLineIntersection::None => ([z, z], 0),
        CircleLineIntersection::Touch(p) => ([*p, z], 1),
        CircleLineIntersection::Intersect(p, q) => ([*p, *q], 2),
    };
    // the type is not Clone: an equal value is put together from the public variants for every way
    let copy = || match v {
        CircleLineIntersection::None => CircleLineIntersection::None,
        CircleLineIntersection::Touch(p) => CircleLineIntersection::Touch(*p),
        CircleLineIntersection::Intersect(p, q) => CircleLineIntersection::Intersect(*p, *q),
    };
    let r = catch(|| iter_protocol!(copy, v, &pts[..n], n == 1 || k.full_protocol()));
    iter_verdict(acc, key, k, "cl_iter", "intersect_cl", n, r, &|| cl_val_string(v));
}

/// The same for a circle–circle result (`which` names the argument order of the call).
fn iter_cc(acc: &mut Acc, key: Key, k: &dyn CaseId, which: &str, v: &CircleIntersection) {
    let pts = cc_points(v);
    let copy = || *v;
    let r = catch(|| iter_protocol!(copy, v, &pts[..], pts.len() == 1 || k.full_protocol()));
    iter_verdict(acc, key, k, "cc_iter", &format!("intersect_cc{which}"), pts.len(), r, &|| cc_obs_string(&Ok(*v)));
}

// ------------------------------------------------------------------------------------------------
// construction routes: the property speaks of circle / line / point VALUES; the public API offers several ways
// of arriving at the same value (constructor, Default + assignment of the public fields, constructor with other
// values + assignment, in-place arithmetic on a public field, Copy / Clone of such an object, the other
// constructor).  No struct literal is used anywhere: the types may carry private fields.
// ------------------------------------------------------------------------------------------------

const CIRCLE_ROUTES: [&str; 10] = [
    "new(c,r)",
    "default();.c=c;.r=r",
    "default();.r=r;.c=c",
    "new(c,r/2);.r*=2",
    "new(c,2r+1);.r=r",
    "new(elsewhere,r);.c=c",
    "new(elsewhere,r/2+7);.c=c;.r=r",
    "default();.c.x=;.c.y=;.r=r",
    "copy-of(new(c,r/2);.r=r)",
    "clone-of(default();.c=c;.r=r)",
];

const LINE_ROUTES: [&str; 8] = [
    "between(u,v)",
    "default();.a=;.b=;.c=",
    "new(1,0,0);.a=;.b=;.c=",
    "copy-of(default();.a=;.b=;.c=)",
    "clone-of(new(0,2,-3);.a=;.b=;.c=)",
    "new(u.y-v.y,v.x-u.x,-(a*u.x+b*u.y))",
    "between(u',v')-of-points-default();.x=;.y=",
    "new(a,b,0);.c=c",
];

const POINT_ROUTES: [&str; 4] = ["new(x,y)", "default();.x=;.y=", "new(y+1,-x);.x=;.y=", "copy-of(default();.y=;.x=)"];

/// `;route=...` naming every operand not built by its plain constructor (empty when all are)
fn route_tag(ops: &[(&str, &str, usize)]) -> String {
    let parts: Vec<String> = ops.iter().filter(|o| o.2 != 0).map(|o| format!("{}:{}", o.0, o.1)).collect();
    if parts.is_empty() {
        String::new()
    } else {
        format!(";route={}", parts.join(","))
    }
}

/// the point with coordinates of `p`, arrived at by POINT_ROUTES[route]
#[allow(clippy::field_reassign_with_default)]
fn point_by(route: usize, p: &Point) -> Point {
    match route {
        0 => *p,
        1 => {
            let mut q = Point::default();
            q.x = p.x;
            q.y = p.y;
            q
        }
        2 => {
            let mut q = Point::new(p.y + 1.0, -p.x);
            q.x = p.x;
            q.y = p.y;
            q
        }
        3 => {
            let mut q = Point::default();
            q.y = p.y;
            q.x = p.x;
            let copy = q;
            copy
        }
        _ => panic!("unknown point route {route}"),
    }
}

/// the circle with public fields c, r, arrived at by CIRCLE_ROUTES[route]
#[allow(clippy::field_reassign_with_default, clippy::clone_on_copy)]
fn circle_by(route: usize, c: Point, r: f64) -> Circle {
    let elsewhere = Point::new(c.x + r + 1.0, c.y - 2.0 * r - 3.0);
    match route {
        0 => Circle::new(c, r),
        1 => {
            let mut x = Circle::default();
            x.c = c;
            x.r = r;
            x
        }
        2 => {
            let mut x = Circle::default();
            x.r = r;
            x.c = c;
            x
        }
        3 => {
            let mut x = Circle::new(c, r / 2.0);
            x.r *= 2.0;
            if x.r != r {
                x.r = r; // only for subnormal radii; never on the engine's inputs
            }
            x
        }
        4 => {
            let mut x = Circle::new(c, 2.0 * r + 1.0);
            x.r = r;
            x
        }
        5 => {
            let mut x = Circle::new(elsewhere, r);
            x.c = c;
            x
        }
        6 => {
            let mut x = Circle::new(elsewhere, r / 2.0 + 7.0);
            x.c = c;
            x.r = r;
            x
        }
        7 => {
            let mut x = Circle::default();
            x.c.x = c.x;
            x.c.y = c.y;
            x.r = r;
            x
        }
        8 => {
            let mut x = Circle::new(c, r / 2.0);
            x.r = r;
            let copy = x;
            copy
        }
        9 => {
            let mut x = Circle::default();
            x.c = c;
            x.r = r;
            x.clone()
        }
        _ => panic!("unknown circle route {route}"),
    }
}

/// the line through the fed points u, v arrived at by LINE_ROUTES[route].  `base` is `Line::between(u, v)` as the
/// engine built it.  Routes 1-4 end with exactly base's public fields; 5 and 6 are the other constructor / the same
/// constructor on points that were built differently; 7 re-normalises base's unit normal and then assigns c
/// (its a, b may differ from base's in the last bit: still a line with a unit normal through u and v within
/// rounding).  Whatever the bits, the result is judged by the same oracle against the DEFINING points.
#[allow(clippy::clone_on_copy)]
fn line_by(route: usize, base: &Line, u: &Point, v: &Point) -> Line {
    let assign = |mut l: Line| {
        l.a = base.a;
        l.b = base.b;
        l.c = base.c;
        l
    };
    match route {
        0 => *base,
        1 => assign(Line::default()),
        2 => assign(Line::new(1.0, 0.0, 0.0)),
        3 => {
            let l = assign(Line::default());
            let copy = l;
            copy
        }
        4 => assign(Line::new(0.0, 2.0, -3.0)).clone(),
        5 => {
            let a = u.y - v.y;
            let b = v.x - u.x;
            Line::new(a, b, -(a * u.x + b * u.y))
        }
        6 => Line::between(&point_by(1, u), &point_by(1, v)),
        7 => {
            let mut l = Line::new(base.a, base.b, 0.0);
            l.c = base.c;
            l
        }
        _ => panic!("unknown line route {route}"),
    }
}

/// a line that stands for "could not be built" (every test on it fails)
fn nan_line() -> Line {
    let mut l = Line::default();
    l.a = f64::NAN;
    l.b = f64::NAN;
    l.c = f64::NAN;
    l
}

/// operand route combinations judged per configuration: every non-plain route of one operand with the other plain,
/// and every pairing of equal index (circle-line: the first of each together)
fn cl_combos() -> Vec<(usize, usize)> {
    let mut v: Vec<(usize, usize)> = (1..CIRCLE_ROUTES.len()).map(|c| (c, 0)).collect();
    v.extend((1..LINE_ROUTES.len()).map(|l| (0, l)));
    v.extend((1..LINE_ROUTES.len()).map(|l| (l, l)));
    v
}
fn pair_combos(n: usize) -> Vec<(usize, usize)> {
    let mut v: Vec<(usize, usize)> = (1..n).map(|a| (a, 0)).collect();
    v.extend((1..n).map(|b| (0, b)));
    v.extend((1..n).map(|a| (a, a)));
    v
}

fn pbits(p: &Point) -> (u64, u64) {
    (p.x.to_bits(), p.y.to_bits())
}
fn same_cl(a: &Result<CircleLineIntersection, String>, b: &Result<CircleLineIntersection, String>) -> bool {
    use CircleLineIntersection::*;
    match (a, b) {
        (Err(_), Err(_)) => true,
        (Ok(None), Ok(None)) => true,
        (Ok(Touch(p)), Ok(Touch(q))) => pbits(p) == pbits(q),
        (Ok(Intersect(p, q)), Ok(Intersect(s, t))) => pbits(p) == pbits(s) && pbits(q) == pbits(t),
        _ => false,
    }
}
fn same_cc(a: &Result<CircleIntersection, String>, b: &Result<CircleIntersection, String>) -> bool {
    match (a, b) {
        (Err(_), Err(_)) => true,
        (Ok(u), Ok(v)) => cc_kind_of(u) == cc_kind_of(v) && cc_points(u).iter().map(pbits).eq(cc_points(v).iter().map(pbits)),
        _ => false,
    }
}

impl Acc {
    /// a result obtained with operands built by another route differed in bits from the judged one: it went through
    /// the full oracle into `s`; its first failure (if any) is reported under the route family
    fn route_judged(&mut self, fam: &'static str, key: Key, calls: u64, sig: String, s: Acc) {
        self.c[C::RouteDiffer as usize] += calls;
        let failed = s.fails.into_iter().next();
        self.note("route_result_differing_in_bits_from_the_new_route", key, || json!({"family": fam, "case": sig, "verdict_of_the_full_oracle": failed.as_ref().map(|f| f.0).unwrap_or("ok")}));
        if let Some((inner, (_, v))) = failed {
            self.fail(fam, key, || {
                let mut rp = v.replay.clone();
                rp["family"] = json!(fam);
                rp["inner_family"] = json!(inner);
                Violation::new(format!("{fam}:{}", v.signature), format!("operands arrived at by another public construction route (named after `route=` in {}; same public field values as with the plain constructor, for which this configuration is judged separately): {}", v.signature, v.summary), rp)
            });
        }
    }
}

// ------------------------------------------------------------------------------------------------
// circle–line
// ------------------------------------------------------------------------------------------------

#[derive(Clone, Copy, PartialEq, Debug)]
enum ClKind {
    None,
    Touch,
    Intersect,
}

#[derive(Clone, Copy)]
struct ClCase {
    tf: Tf,
    c: IP,
    r: i64,
    p1: IP,
    p2: IP,
    /// index into PERTS: change of the fed radius (near-boundary family), 0 = none
    pert: usize,
    /// construction routes of the circle (index into CIRCLE_ROUTES) and of the line (LINE_ROUTES); 0 = new / between
    rc: usize,
    rl: usize,
}

impl ClCase {
    fn sig(&self) -> String {
        let dr = if self.pert == 0 { String::new() } else { format!(";dr={}", pert_tag(self.pert)) };
        format!("tf={};c={};r={};l={}>{}{dr}{}", self.tf.tag(), ip(self.c), self.r, ip(self.p1), ip(self.p2), route_tag(&[("circle", CIRCLE_ROUTES[self.rc], self.rc), ("line", LINE_ROUTES[self.rl], self.rl)]))
    }
    fn replay(&self, fam: &str) -> Value {
        json!({"case": "cl", "family": fam, "tf": self.tf.json(), "c": [self.c.0, self.c.1], "r": self.r,
               "p1": [self.p1.0, self.p1.1], "p2": [self.p2.0, self.p2.1], "pert": self.pert, "route_circle": self.rc, "route_line": self.rl})
    }
    /// the radius handed to the library
    fn rad(&self) -> f64 {
        self.tf.rad(self.r) + PERTS[self.pert]
    }
}

fn cl_val_string(v: &CircleLineIntersection) -> String {
    match v {
        CircleLineIntersection::None => "None".into(),
        CircleLineIntersection::Touch(p) => format!("Touch{}", ps(p)),
        CircleLineIntersection::Intersect(p, q) => format!("Intersect{}{}", ps(p), ps(q)),
    }
}

fn cl_obs_string(r: &Result<CircleLineIntersection, String>) -> String {
    match r {
        Err(e) => format!("panic: {e}"),
        Ok(v) => cl_val_string(v),
    }
}

/// One circle–line configuration against the real `intersect_cl`; returns the exact class.
fn check_cl(acc: &mut Acc, key: Key, k: &ClCase, fc: &Point, fp1: &Point, fp2: &Point, fl: &Line) -> ClKind {
    let (dx, dy) = ((k.p2.0 - k.p1.0) as i128, (k.p2.1 - k.p1.1) as i128);
    let (ex, ey) = ((k.c.0 - k.p1.0) as i128, (k.c.1 - k.p1.1) as i128);
    let l = dx * dx + dy * dy;
    let cross = dx * ey - dy * ex;
    let dot = dx * ex + dy * ey;
    let r = k.r as i128;
    let disc = r * r * l - cross * cross; // > 0 two points, == 0 tangent, < 0 none
    let exact = if disc > 0 {
        ClKind::Intersect
    } else if disc == 0 {
        ClKind::Touch
    } else {
        ClKind::None
    };
    if k.tf.is_id() && disc != 0 {
        let g = ((cross.abs() as f64) / (l as f64).sqrt() - r as f64).abs();
        acc.gap_cl = acc.gap_cl.min(g);
    }
    let non_axis = dx != 0 && dy != 0;
    match exact {
        ClKind::None => acc.inc(C::ClNone),
        ClKind::Touch => {
            acc.inc(C::ClTouch);
            acc.inc(C::Nontrivial);
            if non_axis {
                acc.inc(C::ClTouchNonAxis);
            }
        }
        ClKind::Intersect => {
            acc.inc(C::ClIntersect);
            acc.inc(C::Nontrivial);
        }
    }

    let rad = k.rad();
    let res = cl_call(k, fc, fp1, fp2, fl);
    acc.inc(C::Evals);

    // reference points (pre-image plane, then mapped)
    let lf = l as f64;
    let t = dot as f64 / lf;
    let (fx, fy) = (k.p1.0 as f64 + dx as f64 * t, k.p1.1 as f64 + dy as f64 * t);
    let hh = if disc > 0 { (disc as f64 / lf).sqrt() } else { 0.0 };
    let (ux, uy) = (dx as f64 / lf.sqrt(), dy as f64 / lf.sqrt());
    let e1 = k.tf.ptf(fx + ux * hh, fy + uy * hh);
    let e2 = k.tf.ptf(fx - ux * hh, fy - uy * hh);

    let obs_kind = match &res {
        Err(_) => {
            let s = cl_obs_string(&res);
            acc.fail("cl_panic", key, || {
                Violation::new(format!("cl_panic:{}", k.sig()), format!("intersect_cl panicked on circle {} r={} line {}>{} [{}]: {s}", ip(k.c), k.r, ip(k.p1), ip(k.p2), k.tf.tag()), k.replay("cl_panic"))
            });
            return exact;
        }
        Ok(CircleLineIntersection::None) => ClKind::None,
        Ok(CircleLineIntersection::Touch(_)) => ClKind::Touch,
        Ok(CircleLineIntersection::Intersect(..)) => ClKind::Intersect,
    };
    match obs_kind {
        ClKind::Touch => acc.inc(C::ObsClTouch),
        ClKind::Intersect => acc.inc(C::ObsClIntersect),
        ClKind::None => {}
    }
    iter_cl(acc, key, k, res.as_ref().unwrap());
    if obs_kind != exact {
        let s = cl_obs_string(&res);
        acc.fail("cl_kind", key, || {
            Violation::new(
                format!("cl_kind:{}", k.sig()),
                format!("intersect_cl kind: circle centre {} r={} and the line through {} and {} (transform {}): exact class {:?} (cross^2 - r^2*L = {}), library returned {s}", ip(k.c), k.r, ip(k.p1), ip(k.p2), k.tf.tag(), exact, -disc),
                k.replay("cl_kind"),
            )
        });
    }
    match res.as_ref().unwrap() {
        CircleLineIntersection::None => {}
        CircleLineIntersection::Touch(p) => {
            let oc = off_circle(p, fc, rad);
            let ol = off_line(p, fp1, fp2);
            let dev = if exact == ClKind::Touch { d2(p.x, p.y, e1.0, e1.1) } else { 0.0 };
            if within(dev) {
                acc.max_dev = acc.max_dev.max(dev);
            }
            if !(within(oc) && within(ol) && within(dev)) {
                acc.fail("cl_touch_point", key, || {
                    Violation::new(
                        format!("cl_touch_point:{}", k.sig()),
                        format!(
                            "intersect_cl tangent point: circle centre {} r={} and the line through {} and {} (transform {}; fed centre {} r={:?}, line points {} {}): exact tangent point {:?}, library returned Touch{} — off the circle by {:?}, off the line by {:?} (tolerance 1e-7)",
                            ip(k.c), k.r, ip(k.p1), ip(k.p2), k.tf.tag(), ps(fc), rad, ps(fp1), ps(fp2), e1, ps(p), oc, ol
                        ),
                        k.replay("cl_touch_point"),
                    )
                });
            }
            if exact == ClKind::Touch && non_axis {
                acc.note(if k.tf.is_id() { "cl_touch_non_axis_lattice1" } else { "cl_touch_non_axis_lattice2" }, key, || {
                    json!({"call": "intersect_cl", "transform": k.tf.tag(), "centre": [k.c.0, k.c.1], "r": k.r, "line_through": [[k.p1.0, k.p1.1], [k.p2.0, k.p2.1]],
                           "fed_centre": pj(fc), "fed_r": rad, "exact": "Touch", "exact_point": [e1.0, e1.1], "observed": format!("Touch{}", ps(p)), "off_circle": oc, "off_line": ol})
                });
            }
        }
        CircleLineIntersection::Intersect(p, q) => {
            let worst = [off_circle(p, fc, rad), off_line(p, fp1, fp2), off_circle(q, fc, rad), off_line(q, fp1, fp2)];
            if !worst.iter().all(|w| within(*w)) {
                acc.fail("cl_point_on_both", key, || {
                    Violation::new(
                        format!("cl_point_on_both:{}", k.sig()),
                        format!(
                            "intersect_cl points: circle centre {} r={} and the line through {} and {} (transform {}): library returned Intersect{}{}; distances (p off circle, p off line, q off circle, q off line) = {:?} exceed 1e-7",
                            ip(k.c), k.r, ip(k.p1), ip(k.p2), k.tf.tag(), ps(p), ps(q), worst
                        ),
                        k.replay("cl_point_on_both"),
                    )
                });
            }
            if exact == ClKind::Intersect {
                let dev = set_dev(p, q, e1, e2);
                let apart = d2(p.x, p.y, q.x, q.y);
                if within(dev) {
                    acc.max_dev = acc.max_dev.max(dev);
                }
                if !(within(dev) && apart > TOL) {
                    acc.fail("cl_points_match", key, || {
                        Violation::new(
                            format!("cl_points_match:{}", k.sig()),
                            format!(
                                "intersect_cl points: circle centre {} r={} and the line through {} and {} (transform {}): exact intersection points {:?} and {:?}, library returned Intersect{}{} (set deviation {:?}, mutual distance {:?})",
                                ip(k.c), k.r, ip(k.p1), ip(k.p2), k.tf.tag(), e1, e2, ps(p), ps(q), dev, apart
                            ),
                            k.replay("cl_points_match"),
                        )
                    });
                }
                if non_axis {
                    acc.note(if k.tf.is_id() { "cl_intersect_lattice1" } else { "cl_intersect_lattice2" }, key, || {
                        json!({"call": "intersect_cl", "transform": k.tf.tag(), "centre": [k.c.0, k.c.1], "r": k.r, "line_through": [[k.p1.0, k.p1.1], [k.p2.0, k.p2.1]],
                               "exact": "Intersect", "exact_points": [[e1.0, e1.1], [e2.0, e2.1]], "observed": format!("Intersect{}{}", ps(p), ps(q)), "set_deviation": dev})
                    });
                }
            }
        }
    }    exact
}

/// The NEAR-boundary companion of an exactly tangent circle–line configuration: the same centre and line,
/// the fed radius changed by PERTS[k.pert].  A larger radius makes the line a secant, a smaller one makes
/// it miss the circle; the distance from tangency is |change|, outside the library's tolerance.
fn check_cl_near(acc: &mut Acc, key: Key, k: &ClCase, fc: &Point, fp1: &Point, fp2: &Point, fl: &Line) {
    let r0 = k.tf.rad(k.r);
    let rp = r0 + PERTS[k.pert];
    let dr = rp - r0; // exact: the two are within a factor 2 of each other
    let exact = if dr > 0.0 { ClKind::Intersect } else { ClKind::None };
    if dr > 0.0 {
        acc.inc(C::NearClIntersect);
        acc.inc(C::Nontrivial);
    } else {
        acc.inc(C::NearClNone);
    }
    if dr.abs() < r0 * 1e-9 {
        acc.inc(C::NearLargeRadiusInRelBand);
    }
    let res = cl_call(k, fc, fp1, fp2, fl);
    acc.inc(C::Evals);
    let what = || {
        format!(
            "the line through {} and {} is exactly tangent to the circle centre {} r={} (transform {}; fed centre {}, line points {} {}); with the fed radius changed by {} to {:?} it {}, {:e} away from tangency (library tolerance 1e-9)",
            ip(k.p1), ip(k.p2), ip(k.c), k.r, k.tf.tag(), ps(fc), ps(fp1), ps(fp2), pert_tag(k.pert), rp,
            if dr > 0.0 { "is a secant (two points)" } else { "misses the circle (no point)" }, dr.abs()
        )
    };
    let v = match &res {
        Err(_) => {
            let s = cl_obs_string(&res);
            acc.fail("cl_near_panic", key, || Violation::new(format!("cl_near_panic:{}", k.sig()), format!("intersect_cl panicked near tangency: {}: {s}", what()), k.replay("cl_near_panic")));
            return;
        }
        Ok(v) => v,
    };
    iter_cl(acc, key, k, v);
    let (obs_kind, pts) = match v {
        CircleLineIntersection::None => (ClKind::None, vec![]),
        CircleLineIntersection::Touch(p) => (ClKind::Touch, vec![*p]),
        CircleLineIntersection::Intersect(p, q) => (ClKind::Intersect, vec![*p, *q]),
    };
    if obs_kind != exact {
        let s = cl_obs_string(&res);
        acc.fail("cl_near_kind", key, || Violation::new(format!("cl_near_kind:{}", k.sig()), format!("intersect_cl kind near tangency: {}: exact class {:?}, library returned {s}", what(), exact), k.replay("cl_near_kind")));
    }
    // the property asks for points on both primitives; where along the line they sit is ill-conditioned here and not compared
    let offs: Vec<f64> = pts.iter().flat_map(|p| [off_circle(p, fc, rp), off_line(p, fp1, fp2)]).collect();
    let apart = if pts.len() == 2 { d2(pts[0].x, pts[0].y, pts[1].x, pts[1].y) } else { f64::INFINITY };
    if !(offs.iter().all(|w| within(*w)) && apart > TOL) {
        let s = cl_obs_string(&res);
        acc.fail("cl_near_points", key, || {
            Violation::new(
                format!("cl_near_points:{}", k.sig()),
                format!("intersect_cl points near tangency: {}: library returned {s}; per point (off circle, off line) = {:?} (tolerance 1e-7), mutual distance {:?} (exact half chord {:?})", what(), offs, apart, (dr.max(0.0) * (2.0 * r0 + dr)).sqrt()),
                k.replay("cl_near_points"),
            )
        });
    }
    if obs_kind == ClKind::Intersect && k.pert == 1 && (k.p1.0 != k.p2.0 && k.p1.1 != k.p2.1) {
        acc.note("cl_near_secant", key, || {
            json!({"call": "intersect_cl", "transform": k.tf.tag(), "centre": [k.c.0, k.c.1], "tangent_r": k.r, "radius_change": PERTS[k.pert], "fed_r": rp, "line_through": [[k.p1.0, k.p1.1], [k.p2.0, k.p2.1]],
                   "exact": "Intersect", "exact_half_chord": (dr * (2.0 * r0 + dr)).sqrt(), "observed": cl_obs_string(&res), "off_circle_off_line": offs})
        });
    }
}

// ------------------------------------------------------------------------------------------------
// circle–circle
// ------------------------------------------------------------------------------------------------

#[derive(Clone, Copy, PartialEq, Debug)]
enum CcKind {
    None,
    Same,
    TouchInside,
    TouchOutside,
    Intersect,
}

#[derive(Clone, Copy)]
struct CcCase {
    tf: Tf,
    a: IP,
    ra: i64,
    b: IP,
    rb: i64,
    /// index into PERTS: change of the fed radius of circle a (near-boundary family), 0 = none
    pert: usize,
    /// construction routes of the two circles (index into CIRCLE_ROUTES); 0 = new
    rta: usize,
    rtb: usize,
}

impl CcCase {
    fn sig(&self) -> String {
        let dr = if self.pert == 0 { String::new() } else { format!(";dra={}", pert_tag(self.pert)) };
        format!("tf={};a={};ra={};b={};rb={}{dr}{}", self.tf.tag(), ip(self.a), self.ra, ip(self.b), self.rb, route_tag(&[("a", CIRCLE_ROUTES[self.rta], self.rta), ("b", CIRCLE_ROUTES[self.rtb], self.rtb)]))
    }
    fn replay(&self, fam: &str) -> Value {
        json!({"case": "cc", "family": fam, "tf": self.tf.json(), "a": [self.a.0, self.a.1], "ra": self.ra, "b": [self.b.0, self.b.1], "rb": self.rb, "pert": self.pert, "route_a": self.rta, "route_b": self.rtb})
    }
    /// the radii handed to the library
    fn rads(&self) -> (f64, f64) {
        (self.tf.rad(self.ra) + PERTS[self.pert], self.tf.rad(self.rb))
    }
    fn text(&self) -> String {
        format!("circles centre {} r={} and centre {} r={} (transform {})", ip(self.a), self.ra, ip(self.b), self.rb, self.tf.tag())
    }
}

fn cc_kind_of(r: &CircleIntersection) -> CcKind {
    match r {
        CircleIntersection::None => CcKind::None,
        CircleIntersection::Same => CcKind::Same,
        CircleIntersection::TouchInside(_) => CcKind::TouchInside,
        CircleIntersection::TouchOutside(_) => CcKind::TouchOutside,
        CircleIntersection::Intersect(..) => CcKind::Intersect,
    }
}

fn cc_points(r: &CircleIntersection) -> Vec<Point> {
    match r {
        CircleIntersection::None | CircleIntersection::Same => vec![],
        CircleIntersection::TouchInside(p) | CircleIntersection::TouchOutside(p) => vec![*p],
        CircleIntersection::Intersect(p, q) => vec![*p, *q],
    }
}

fn cc_obs_string(r: &Result<CircleIntersection, String>) -> String {
    match r {
        Err(e) => format!("panic: {e}"),
        Ok(v) => {
            let pts: String = cc_points(v).iter().map(ps).collect();
            format!("{:?}{}", cc_kind_of(v), pts)
        }
    }
}

/// One ordered pair of circles against the real `intersect_cc`, in both argument orders; returns the exact class.
fn check_cc(acc: &mut Acc, key: Key, k: &CcCase, fa: &Point, fb: &Point) -> CcKind {
    let (dx, dy) = ((k.b.0 - k.a.0) as i128, (k.b.1 - k.a.1) as i128);
    let dd = dx * dx + dy * dy;
    let (ra, rb) = (k.ra as i128, k.rb as i128);
    let sum2 = (ra + rb) * (ra + rb);
    let dif2 = (ra - rb) * (ra - rb);
    let (exact, inside_none) = if dd == 0 && ra == rb {
        (CcKind::Same, false)
    } else if dd > sum2 {
        (CcKind::None, false)
    } else if dd == sum2 {
        (CcKind::TouchOutside, false)
    } else if dd < dif2 {
        (CcKind::None, true)
    } else if dd == dif2 {
        (CcKind::TouchInside, false)
    } else {
        (CcKind::Intersect, false)
    };
    if k.tf.is_id() {
        let d = (dd as f64).sqrt();
        for g in [(d - (ra + rb) as f64).abs(), (d - (ra - rb).abs() as f64).abs()] {
            if g != 0.0 {
                acc.gap_cc = acc.gap_cc.min(g);
            }
        }
        if dd != 0 {
            acc.gap_cc = acc.gap_cc.min(d); // "Same" needs d < EPS
        }
        if ra != rb {
            acc.gap_cc = acc.gap_cc.min((ra - rb).abs() as f64);
        }
    }
    let non_axis = dx != 0 && dy != 0;
    match exact {
        CcKind::None => acc.inc(if inside_none { C::CcNoneInside } else { C::CcNoneOutside }),
        CcKind::Same => acc.inc(C::CcSame),
        CcKind::TouchInside => {
            acc.inc(C::CcTouchInside);
            if non_axis {
                acc.inc(C::CcTouchInsideNonAxis);
            }
        }
        CcKind::TouchOutside => {
            acc.inc(C::CcTouchOutside);
            if non_axis {
                acc.inc(C::CcTouchOutsideNonAxis);
            }
        }
        CcKind::Intersect => acc.inc(C::CcIntersect),
    }
    if exact != CcKind::None {
        acc.inc(C::Nontrivial);
    }

    let ca = circle_by(k.rta, *fa, k.rads().0);
    let cb = circle_by(k.rtb, *fb, k.rads().1);
    let res_ab = catch(|| util::intersect_cc(&ca, &cb));
    let res_ba = catch(|| util::intersect_cc(&cb, &ca));
    acc.inc(C::Evals);
    acc.inc(C::Evals);

    // reference points
    let (e1, e2) = if dd != 0 {
        let ddf = dd as f64;
        let w = dd + ra * ra - rb * rb;
        let kk = w as f64 / (2.0 * ddf);
        let (mx, my) = (k.a.0 as f64 + dx as f64 * kk, k.a.1 as f64 + dy as f64 * kk);
        let under = 4 * dd * ra * ra - w * w;
        let hh = if under > 0 { (under as f64).sqrt() / (2.0 * ddf) } else { 0.0 };
        (k.tf.ptf(mx - dy as f64 * hh, my + dx as f64 * hh), k.tf.ptf(mx + dy as f64 * hh, my - dx as f64 * hh))
    } else {
        ((f64::NAN, f64::NAN), (f64::NAN, f64::NAN))
    };

    let mut oks: Vec<CircleIntersection> = vec![];
    for (which, res) in [("(a,b)", &res_ab), ("(b,a)", &res_ba)] {
        let v = match res {
            Err(_) => {
                let s = cc_obs_string(res);
                acc.fail("cc_panic", key, || Violation::new(format!("cc_panic:{}", k.sig()), format!("intersect_cc{which} panicked on {}: {s}", k.text()), k.replay("cc_panic")));
                continue;
            }
            Ok(v) => *v,
        };
        oks.push(v);
        iter_cc(acc, key, k, which, &v);
        let ok = cc_kind_of(&v);
        if which == "(a,b)" {
            match ok {
                CcKind::TouchInside => acc.inc(C::ObsCcTouchInside),
                CcKind::TouchOutside => acc.inc(C::ObsCcTouchOutside),
                CcKind::Intersect => acc.inc(C::ObsCcIntersect),
                CcKind::Same => acc.inc(C::ObsCcSame),
                CcKind::None => {}
            }
        }
        if ok != exact {
            let s = cc_obs_string(res);
            acc.fail("cc_kind", key, || {
                Violation::new(
                    format!("cc_kind:{}", k.sig()),
                    format!("intersect_cc{which} kind: {}: exact class {:?} (d^2={}, (ra+rb)^2={}, (ra-rb)^2={}), library returned {s}", k.text(), exact, dd, sum2, dif2),
                    k.replay("cc_kind"),
                )
            });
        }
        let pts = cc_points(&v);
        let offs: Vec<f64> = pts.iter().flat_map(|p| [off_circle(p, fa, ca.r), off_circle(p, fb, cb.r)]).collect();
        if !offs.iter().all(|w| within(*w)) {
            let s = cc_obs_string(res);
            acc.fail("cc_point_on_both", key, || {
                Violation::new(
                    format!("cc_point_on_both:{}", k.sig()),
                    format!("intersect_cc{which} points: {} (fed centres {} {} radii {:?} {:?}): library returned {s}; per point (off circle a, off circle b) = {:?} exceed 1e-7", k.text(), ps(fa), ps(fb), ca.r, cb.r, offs),
                    k.replay("cc_point_on_both"),
                )
            });
        }
        if ok == exact && !pts.is_empty() {
            let (dev, apart) = if pts.len() == 1 { (d2(pts[0].x, pts[0].y, e1.0, e1.1), f64::INFINITY) } else { (set_dev(&pts[0], &pts[1], e1, e2), d2(pts[0].x, pts[0].y, pts[1].x, pts[1].y)) };
            if within(dev) {
                acc.max_dev = acc.max_dev.max(dev);
            }
            if !(within(dev) && apart > TOL) {
                let s = cc_obs_string(res);
                acc.fail("cc_points_match", key, || {
                    Violation::new(
                        format!("cc_points_match:{}", k.sig()),
                        format!("intersect_cc{which} points: {}: exact {:?} at {:?}{}, library returned {s} (deviation {:?})", k.text(), exact, e1, if pts.len() == 2 { format!(" and {:?}", e2) } else { String::new() }, dev),
                        k.replay("cc_points_match"),
                    )
                });
            }
        }
    }
    if oks.len() == 2 {
        let (u, v) = (&oks[0], &oks[1]);
        let (pu, pv) = (cc_points(u), cc_points(v));
        let agree = cc_kind_of(u) == cc_kind_of(v)
            && pu.len() == pv.len()
            && match pu.len() {
                0 => true,
                1 => within(d2(pu[0].x, pu[0].y, pv[0].x, pv[0].y)),
                _ => within(set_dev(&pu[0], &pu[1], (pv[0].x, pv[0].y), (pv[1].x, pv[1].y))),
            };
        if !agree {
            let (s, t) = (cc_obs_string(&res_ab), cc_obs_string(&res_ba));
            acc.fail("cc_symmetry", key, || Violation::new(format!("cc_symmetry:{}", k.sig()), format!("intersect_cc argument order: {}: (a,b) gives {s}, (b,a) gives {t}", k.text()), k.replay("cc_symmetry")));
        }
        if non_axis && exact != CcKind::None {
            let cat = match (exact, k.tf.is_id()) {
                (CcKind::TouchInside, true) => "cc_touch_inside_non_axis_lattice1",
                (CcKind::TouchInside, false) => "cc_touch_inside_non_axis_lattice2",
                (CcKind::TouchOutside, true) => "cc_touch_outside_non_axis_lattice1",
                (CcKind::TouchOutside, false) => "cc_touch_outside_non_axis_lattice2",
                (_, true) => "cc_intersect_lattice1",
                (_, false) => "cc_intersect_lattice2",
            };
            acc.note(cat, key, || {
                json!({"call": "intersect_cc", "transform": k.tf.tag(), "a": [k.a.0, k.a.1], "ra": k.ra, "b": [k.b.0, k.b.1], "rb": k.rb, "exact": format!("{:?}", exact),
                       "exact_points": if exact == CcKind::Intersect { json!([[e1.0, e1.1], [e2.0, e2.1]]) } else { json!([[e1.0, e1.1]]) },
                       "observed_ab": cc_obs_string(&res_ab), "observed_ba": cc_obs_string(&res_ba)})
            });
        }
    }    exact
}

/// The NEAR-boundary companion of an exactly tangent pair of circles: same centres, the fed radius of
/// circle a changed by PERTS[k.pert].  Outside tangency (d = ra + rb): larger ⇒ the circles cross,
/// smaller ⇒ separated.  Inside tangency (d = |ra - rb|): enlarging the larger / shrinking the smaller
/// circle ⇒ nested without contact, the opposite ⇒ they cross.  Both argument orders are called.
fn check_cc_near(acc: &mut Acc, key: Key, k: &CcCase, fa: &Point, fb: &Point) {
    let (dx, dy) = ((k.b.0 - k.a.0) as i128, (k.b.1 - k.a.1) as i128);
    let dd = dx * dx + dy * dy;
    let (ra, rb) = (k.ra as i128, k.rb as i128);
    let outside = dd == (ra + rb) * (ra + rb);
    assert!(dd != 0 && (outside || dd == (ra - rb) * (ra - rb)), "check_cc_near needs an exactly tangent pair");
    let r0 = k.tf.rad(k.ra);
    let rp = r0 + PERTS[k.pert];
    let dr = rp - r0; // exact
    let crossing = if outside { dr > 0.0 } else { (dr > 0.0) == (ra < rb) };
    let exact = if crossing { CcKind::Intersect } else { CcKind::None };
    if crossing {
        acc.inc(C::NearCcIntersect);
        acc.inc(C::Nontrivial);
    } else {
        acc.inc(if outside { C::NearCcNoneOutside } else { C::NearCcNoneInside });
    }
    if dr.abs() < r0.max(k.tf.rad(k.rb)) * 1e-9 {
        acc.inc(C::NearLargeRadiusInRelBand);
    }
    let ca = circle_by(k.rta, *fa, rp);
    let cb = circle_by(k.rtb, *fb, k.tf.rad(k.rb));
    let res_ab = catch(|| util::intersect_cc(&ca, &cb));
    let res_ba = catch(|| util::intersect_cc(&cb, &ca));
    acc.inc(C::Evals);
    acc.inc(C::Evals);
    let what = || {
        format!(
            "{} touch exactly from the {} (d^2={dd}); with the fed radius of the first changed by {} to {:?} (fed centres {} {}, other radius {:?}) they {}, {:e} away from tangency (library tolerance 1e-9)",
            k.text(), if outside { "outside" } else { "inside" }, pert_tag(k.pert), rp, ps(fa), ps(fb), cb.r,
            if crossing { "cross in two points" } else if outside { "are separated" } else { "are nested without contact" }, dr.abs()
        )
    };
    for (which, res) in [("(a,b)", &res_ab), ("(b,a)", &res_ba)] {
        let v = match res {
            Err(_) => {
                let s = cc_obs_string(res);
                acc.fail("cc_near_panic", key, || Violation::new(format!("cc_near_panic:{}", k.sig()), format!("intersect_cc{which} panicked near tangency: {}: {s}", what()), k.replay("cc_near_panic")));
                continue;
            }
            Ok(v) => v,
        };
        iter_cc(acc, key, k, which, v);
        if cc_kind_of(v) != exact {
            let s = cc_obs_string(res);
            acc.fail("cc_near_kind", key, || Violation::new(format!("cc_near_kind:{}", k.sig()), format!("intersect_cc{which} kind near tangency: {}: exact class {:?}, library returned {s}", what(), exact), k.replay("cc_near_kind")));
        }
        let pts = cc_points(v);
        let offs: Vec<f64> = pts.iter().flat_map(|p| [off_circle(p, fa, ca.r), off_circle(p, fb, cb.r)]).collect();
        let apart = if pts.len() == 2 { d2(pts[0].x, pts[0].y, pts[1].x, pts[1].y) } else { f64::INFINITY };
        if !(offs.iter().all(|w| within(*w)) && apart > TOL) {
            let s = cc_obs_string(res);
            acc.fail("cc_near_points", key, || {
                Violation::new(format!("cc_near_points:{}", k.sig()), format!("intersect_cc{which} points near tangency: {}: library returned {s}; per point (off circle a, off circle b) = {:?} (tolerance 1e-7), mutual distance {:?}", what(), offs, apart), k.replay("cc_near_points"))
            });
        }
    }
    if crossing && k.pert <= 2 && dx != 0 && dy != 0 {
        acc.note("cc_near_crossing", key, || {
            json!({"call": "intersect_cc", "transform": k.tf.tag(), "a": [k.a.0, k.a.1], "touching_from": if outside { "outside" } else { "inside" }, "tangent_ra": k.ra, "radius_change": PERTS[k.pert], "fed_ra": rp, "b": [k.b.0, k.b.1], "rb": k.rb,
                   "exact": "Intersect", "observed_ab": cc_obs_string(&res_ab), "observed_ba": cc_obs_string(&res_ba)})
        });
    }
}


// ------------------------------------------------------------------------------------------------
// circle–circle: extreme radius ratios near the tangency boundaries
// ------------------------------------------------------------------------------------------------

/// A large circle (centre `c4`/4, dyadic radius `big`) and a small one (dyadic radius `small`) whose centre
/// lies in direction (p/h, q/h) at distance `big + small + sd` (`inside` false) or `big - small + sd`
/// (`inside` true) from the large one's.  The sign of `sd` decides the class.
struct RatioCase {
    big: f64,
    small: f64,
    c4: IP,
    dir: (i64, i64, i64),
    inside: bool,
    sd: f64,
}

impl RatioCase {
    fn base(&self) -> f64 {
        if self.inside {
            self.big - self.small
        } else {
            self.big + self.small
        }
    }
    fn crossing(&self) -> bool {
        self.inside == (self.sd > 0.0)
    }
    /// the fed circles (large, small)
    fn circles(&self) -> (Circle, Circle) {
        let c = Point::new(self.c4.0 as f64 / 4.0, self.c4.1 as f64 / 4.0);
        let d = self.base() + self.sd;
        let (p, q, h) = self.dir;
        let (ux, uy) = (p as f64 / h as f64, q as f64 / h as f64);
        (Circle::new(c, self.big), Circle::new(Point::new(c.x + ux * d, c.y + uy * d), self.small))
    }
    fn dist_text(&self) -> String {
        format!("R{}r{}{:e}", if self.inside { '-' } else { '+' }, if self.sd > 0.0 { '+' } else { '-' }, self.sd.abs())
    }
    fn sig(&self) -> String {
        let (p, q, h) = self.dir;
        let dir = if h == 1 { format!("{p},{q}") } else { format!("{p}/{h},{q}/{h}") };
        format!("R={:?};r={:?};c=({:?},{:?});dir={dir};d={}", self.big, self.small, self.c4.0 as f64 / 4.0, self.c4.1 as f64 / 4.0, self.dist_text())
    }
    fn replay(&self, fam: &str) -> Value {
        json!({"case": "cc_ratio", "family": fam, "R": self.big, "r": self.small, "centre_quarters": [self.c4.0, self.c4.1], "dir": [self.dir.0, self.dir.1, self.dir.2], "inside": self.inside, "signed_delta": self.sd})
    }
    fn from_json(v: &Value) -> Option<RatioCase> {
        let k = RatioCase {
            big: v["R"].as_f64()?,
            small: v["r"].as_f64()?,
            c4: (v["centre_quarters"][0].as_i64()?, v["centre_quarters"][1].as_i64()?),
            dir: (v["dir"][0].as_i64()?, v["dir"][1].as_i64()?, v["dir"][2].as_i64()?),
            inside: v["inside"].as_bool()?,
            sd: v["signed_delta"].as_f64()?,
        };
        let (p, q, h) = k.dir;
        (k.big > k.small && k.small > 0.0 && h > 0 && p * p + q * q == h * h && k.sd.abs() >= RATIO_FLOOR).then_some(k)
    }
}

/// One pair of the extreme-radius-ratio family against the real `intersect_cc`, in both argument orders.
/// Demanded: the kind (Intersect / None), every returned point on both circles within 1e-7, two returned
/// points distinct.  Where along the (tiny) common chord the points sit is not compared.
fn check_cc_ratio(acc: &mut Acc, key: Key, k: &RatioCase) {
    let (ca, cb) = k.circles();
    let crossing = k.crossing();
    let exact = if crossing { CcKind::Intersect } else { CcKind::None };
    // the fed configuration's own distance from the boundary (f64, accurate to ~1e-13) against the intended one
    let gap = d2(ca.c.x, ca.c.y, cb.c.x, cb.c.y) - k.base();
    acc.ratio_gap = acc.ratio_gap.min(gap.abs());
    acc.ratio_gap_rel_err = acc.ratio_gap_rel_err.max(((gap - k.sd) / k.sd).abs());
    for c in [&ca, &cb] {
        acc.ratio_reach = acc.ratio_reach.max(c.c.x.abs() + c.r).max(c.c.y.abs() + c.r);
    }
    if crossing {
        acc.inc(C::RatioCcIntersect);
        acc.inc(C::Nontrivial);
    } else {
        acc.inc(if k.inside { C::RatioCcNoneInside } else { C::RatioCcNoneOutside });
    }
    let res_ab = catch(|| util::intersect_cc(&ca, &cb));
    let res_ba = catch(|| util::intersect_cc(&cb, &ca));
    acc.inc(C::Evals);
    acc.inc(C::Evals);
    let what = || {
        format!(
            "circle a centre {} r={:?} and circle b centre {} r={:?} (radius ratio {:?}; b's centre in direction ({}/{h},{}/{h}) at distance {} from a's, measured {:+e} from the {} tangency distance): they {}, {:e} away from tangency (library tolerance 1e-9)",
            ps(&ca.c), ca.r, ps(&cb.c), cb.r, ca.r / cb.r, k.dir.0, k.dir.1, k.dist_text(), gap, if k.inside { "inside" } else { "outside" },
            if crossing { "cross in two points" } else if k.inside { "are nested without contact" } else { "are separated" }, k.sd.abs(), h = k.dir.2
        )
    };
    let bucket = |check: &str| format!("{check} R={:?} r={:?} d={}", k.big, k.small, k.dist_text());
    for (which, res) in [("(a,b)", &res_ab), ("(b,a)", &res_ba)] {
        let v = match res {
            Err(_) => {
                let s = cc_obs_string(res);
                *acc.ratio_fails.entry(bucket("panic")).or_insert(0) += 1;
                acc.fail("cc_ratio_panic", key, || Violation::new(format!("cc_ratio_panic:{}", k.sig()), format!("intersect_cc{which} panicked at an extreme radius ratio: {}: {s}", what()), k.replay("cc_ratio_panic")));
                continue;
            }
            Ok(v) => v,
        };
        iter_cc(acc, key, k, which, v);
        if which == "(a,b)" {
            match cc_kind_of(v) {
                CcKind::Intersect => acc.inc(C::RatioObsIntersect),
                CcKind::TouchInside | CcKind::TouchOutside => acc.inc(C::RatioObsTouch),
                _ => {}
            }
        }
        if cc_kind_of(v) != exact {
            let s = cc_obs_string(res);
            *acc.ratio_fails.entry(bucket("kind")).or_insert(0) += 1;
            acc.fail("cc_ratio_kind", key, || Violation::new(format!("cc_ratio_kind:{}", k.sig()), format!("intersect_cc{which} kind at an extreme radius ratio: {}: exact class {:?}, library returned {s}", what(), exact), k.replay("cc_ratio_kind")));
        }
        let pts = cc_points(v);
        let offs: Vec<f64> = pts.iter().flat_map(|p| [off_circle(p, &ca.c, ca.r), off_circle(p, &cb.c, cb.r)]).collect();
        let apart = if pts.len() == 2 { d2(pts[0].x, pts[0].y, pts[1].x, pts[1].y) } else { f64::INFINITY };
        if !(offs.iter().all(|w| within(*w)) && apart > TOL) {
            let s = cc_obs_string(res);
            *acc.ratio_fails.entry(bucket("points")).or_insert(0) += 1;
            acc.fail("cc_ratio_points", key, || {
                Violation::new(format!("cc_ratio_points:{}", k.sig()), format!("intersect_cc{which} points at an extreme radius ratio: {}: library returned {s}; per point (off circle a, off circle b) = {:?} (tolerance 1e-7), mutual distance {:?}", what(), offs, apart), k.replay("cc_ratio_points"))
            });
        } else if cc_kind_of(v) == exact {
            acc.ratio_max_off = offs.iter().fold(acc.ratio_max_off, |m, w| m.max(*w));
            acc.ratio_min_apart = acc.ratio_min_apart.min(apart);
        }
    }
    if crossing && k.dir.2 != 1 && k.c4 != (0, 0) {
        acc.note("cc_ratio_crossing", key, || {
            json!({"call": "intersect_cc", "a": {"centre": pj(&ca.c), "r": ca.r}, "b": {"centre": pj(&cb.c), "r": cb.r}, "centre_distance": k.dist_text(), "measured_distance_from_tangency": gap,
                   "exact": "Intersect", "observed_ab": cc_obs_string(&res_ab), "observed_ba": cc_obs_string(&res_ba)})
        });
    }
}

/// The extreme-radius-ratio family, mildest first: radius of the larger circle ascending, of the smaller
/// descending, delta descending; then centre (origin first), direction (axes first), and the four
/// distances R+r-delta (crossing), R-r+delta (crossing), R+r+delta (separated), R-r-delta (nested).
struct RatioFamily {
    tfi: u64,
    bigs: Vec<f64>,
    smalls: Vec<f64>,
    deltas: Vec<f64>,
    centres4: Vec<IP>,
    dirs: Vec<(i64, i64, i64)>,
}

impl RatioFamily {
    fn run(&self) -> Acc {
        let variants = [(false, -1.0), (true, 1.0), (false, 1.0), (true, -1.0)];
        let nmajor = self.bigs.len() * self.smalls.len() * self.deltas.len();
        (0..nmajor)
            .into_par_iter()
            .map(|major| {
                let mut acc = Acc::new();
                let di = major % self.deltas.len();
                let ri = major / self.deltas.len() % self.smalls.len();
                let bi = major / self.deltas.len() / self.smalls.len();
                let mut minor = 0u64;
                for &c4 in &self.centres4 {
                    for &dir in &self.dirs {
                        for &(inside, sign) in &variants {
                            let k = RatioCase { big: self.bigs[bi], small: self.smalls[ri], c4, dir, inside, sd: sign * self.deltas[di] };
                            check_cc_ratio(&mut acc, (self.tfi, major as u64, minor), &k);
                            minor += 1;
                        }
                    }
                }
                acc
            })
            .reduce(Acc::new, Acc::merge)
    }
}

// ------------------------------------------------------------------------------------------------
// circle–circle: nearly equal radii, nearly concentric (internal tangency and its neighbourhood)
// ------------------------------------------------------------------------------------------------

/// grid integer -> the f64 handed to the library (exact for |v| < 2^53, which `check_cc_eq` verifies)
fn eq_f(v: i64) -> f64 {
    v as f64 * EQ_UNIT
}

/// a number of the family's lists -> the nearest grid integer (the grid value is what the family uses)
fn eq_grid(x: f64) -> i64 {
    (x / EQ_UNIT).round() as i64
}

/// Circle a (centre `c`, radius `ra`; grid integers, unit 2^-43) and circle b of radius ra - th * g / 2, where
/// g = 65 * 2^-k, whose centre lies in direction `dir` / 65 at distance g + sd from a's.  sd = 0: the offset is
/// the exact vector dir * 2^-k, so th = 2 is an exact internal tangency; otherwise the offset is rounded to the
/// grid and the class is decided from the rounded integers.
struct EqCase {
    ra: i64,
    k: u32,
    c: IP,
    dir: (i64, i64),
    th: i64,
    sd: f64,
}

impl EqCase {
    /// g = 65 * 2^-k (exact)
    fn g(&self) -> f64 {
        EQ_HYP as f64 / (1u64 << self.k) as f64
    }
    /// ra - rb in grid units
    fn rd(&self) -> i64 {
        self.th * EQ_HYP * (1i64 << (EQ_BITS - 1 - self.k))
    }
    /// b's centre minus a's in grid units
    fn off(&self) -> IP {
        let (p, q) = self.dir;
        if self.sd == 0.0 {
            let m = 1i64 << (EQ_BITS - self.k);
            (p * m, q * m)
        } else {
            let d = self.g() + self.sd;
            (eq_grid(p as f64 / EQ_HYP as f64 * d), eq_grid(q as f64 / EQ_HYP as f64 * d))
        }
    }
    /// the intended signed distance of the centre distance from the internal-tangency distance ra - rb
    fn want(&self) -> f64 {
        self.g() * (2 - self.th) as f64 / 2.0 + self.sd
    }
    /// the family's shape: a rational direction of hypotenuse 65, 1 <= k <= 30, rb >= ra / 2; either the centre
    /// distance is exactly g (any radius difference other than g is then >= g / 2 >= 3e-8 away from tangency), or
    /// the radius difference is g and the centre distance g +- delta with 1e-8 <= delta <= g / 2
    fn well_formed(&self) -> bool {
        let (p, q) = self.dir;
        (1..=EQ_MAX_K).contains(&self.k)
            && p * p + q * q == EQ_HYP * EQ_HYP
            && (0..=64).contains(&self.th)
            && self.ra > 0
            && self.ra < 1i64 << 53
            && self.c.0.abs() < 1i64 << 53
            && self.c.1.abs() < 1i64 << 53
            && 2 * self.rd() <= self.ra
            && (self.sd == 0.0 || (self.th == 2 && self.sd.abs() >= RATIO_FLOOR && self.sd.abs() <= self.g() / 2.0))
    }
    fn rb_text(&self) -> String {
        match self.th {
            0 => "ra".into(),
            1 => "ra-g/2".into(),
            2 => "ra-g".into(),
            t if t % 2 == 0 => format!("ra-{}g", t / 2),
            t => format!("ra-{t}g/2"),
        }
    }
    fn dist_text(&self) -> String {
        if self.sd == 0.0 {
            "g".into()
        } else {
            format!("g{}{:e}", if self.sd > 0.0 { '+' } else { '-' }, self.sd.abs())
        }
    }
    fn sig(&self) -> String {
        format!("g=65*2^-{};ra={:?};rb={};c=({:?},{:?});dir={}/65,{}/65;d={}", self.k, eq_f(self.ra), self.rb_text(), eq_f(self.c.0), eq_f(self.c.1), self.dir.0, self.dir.1, self.dist_text())
    }
    fn replay(&self, fam: &str) -> Value {
        json!({"case": "cc_eq", "family": fam, "grid_unit": "2^-43", "k": self.k, "ra_grid": self.ra, "centre_grid": [self.c.0, self.c.1], "dir": [self.dir.0, self.dir.1],
               "radius_difference_in_half_g": self.th, "signed_delta": self.sd})
    }
    fn from_json(v: &Value) -> Option<EqCase> {
        let k = EqCase {
            ra: v["ra_grid"].as_i64()?,
            k: u32::try_from(v["k"].as_u64()?).ok()?,
            c: (v["centre_grid"][0].as_i64()?, v["centre_grid"][1].as_i64()?),
            dir: (v["dir"][0].as_i64()?, v["dir"][1].as_i64()?),
            th: v["radius_difference_in_half_g"].as_i64()?,
            sd: v["signed_delta"].as_f64()?,
        };
        k.well_formed().then_some(k)
    }
}

/// One pair of the nearly-equal-radii family against the real `intersect_cc`, in both argument orders.
/// Demanded: the kind (TouchInside only for the exact tangency, otherwise Intersect / None by the exact sign),
/// every returned point on both circles within 1e-7, two returned points distinct.  Where on the two almost
/// coincident circles the points sit is not compared.
fn check_cc_eq(acc: &mut Acc, key: Key, k: &EqCase) {
    assert!(k.well_formed(), "check_cc_eq needs a case of the family's shape");
    let off = k.off();
    let (b, rb) = ((k.c.0 + off.0, k.c.1 + off.1), k.ra - k.rd());
    // every fed number is an integer number of grid units below 2^53, so the f64 handed over IS that number
    let fed = [k.c.0, k.c.1, k.ra, b.0, b.1, rb];
    assert!(rb > 0 && fed.iter().all(|v| v.abs() < 1i64 << 53 && (eq_f(*v) / EQ_UNIT) as i64 == *v), "nearly-equal-radii family: a fed number is not an exact f64");
    // domain: all points of both circles within |coordinate| <= 1e3
    let reach = [(k.c, k.ra), (b, rb)].iter().map(|(c, r)| c.0.abs().max(c.1.abs()) + r).max().unwrap();
    if reach > eq_grid(COORD_LIMIT) {
        acc.inc(C::SkippedOutOfDomain);
        acc.inc(C::EqSkippedReach);
        return;
    }
    acc.eq_reach = acc.eq_reach.max(eq_f(reach));

    // exact class from the fed integers: centre distance^2 against (ra - rb)^2 (and far below (ra + rb)^2)
    let dd = (off.0 as i128) * (off.0 as i128) + (off.1 as i128) * (off.1 as i128);
    let rd = k.rd() as i128;
    let sum = (k.ra + rb) as i128;
    assert!(dd > 0 && dd < sum * sum, "nearly-equal-radii family: centres coincide or are further apart than ra + rb");
    let exact = if dd == rd * rd {
        CcKind::TouchInside
    } else if dd < rd * rd {
        CcKind::None
    } else {
        CcKind::Intersect
    };
    // exact signed distance from internal tangency, d - (ra - rb) = (d^2 - (ra - rb)^2) / (d + (ra - rb))
    let gap = if dd == rd * rd { 0.0 } else { (dd - rd * rd) as f64 / ((dd as f64).sqrt() + rd as f64) * EQ_UNIT };
    let want = k.want();
    if gap != 0.0 {
        acc.eq_gap = acc.eq_gap.min(gap.abs());
    }
    acc.eq_gap_rel_err = acc.eq_gap_rel_err.max(if want != 0.0 {
        ((gap - want) / want).abs()
    } else if gap != 0.0 {
        f64::INFINITY
    } else {
        0.0
    });
    let concentric = k.th != 2;
    match exact {
        CcKind::TouchInside => {
            acc.inc(C::EqCcTouchInside);
            if k.c.0.abs().max(k.c.1.abs()) >= eq_grid(100.0) {
                acc.inc(C::EqCcTouchInsideFarCentre);
            }
        }
        CcKind::Intersect => {
            acc.inc(C::EqCcIntersect);
            if concentric {
                acc.inc(C::EqCcIntersectConcentric);
            }
        }
        _ => {
            acc.inc(C::EqCcNoneInside);
            if concentric {
                acc.inc(C::EqCcNoneInsideConcentric);
            }
        }
    }
    if exact != CcKind::None {
        acc.inc(C::Nontrivial);
    }

    let ca = Circle::new(Point::new(eq_f(k.c.0), eq_f(k.c.1)), eq_f(k.ra));
    let cb = Circle::new(Point::new(eq_f(b.0), eq_f(b.1)), eq_f(rb));
    let res_ab = catch(|| util::intersect_cc(&ca, &cb));
    let res_ba = catch(|| util::intersect_cc(&cb, &ca));
    acc.inc(C::Evals);
    acc.inc(C::Evals);
    let what = || {
        format!(
            "circle a centre {} r={:?} and circle b centre {} r={:?} (radii differ by {:e}; b's centre in direction ({}/65,{}/65) at distance {} from a's, g = 65*2^-{} = {:e}; all numbers exact multiples of 2^-43): {}",
            ps(&ca.c), ca.r, ps(&cb.c), cb.r, eq_f(k.rd()), k.dir.0, k.dir.1, k.dist_text(), k.k, k.g(),
            match exact {
                CcKind::TouchInside => "they touch exactly from the inside".to_string(),
                CcKind::Intersect => format!("they cross in two points, the centre distance is {:e} above the internal-tangency distance (library tolerance 1e-9)", gap),
                _ => format!("b lies inside a without contact, the centre distance is {:e} below the internal-tangency distance (library tolerance 1e-9)", -gap),
            }
        )
    };
    let bucket = |check: &str| format!("{check} g=65*2^-{} rb={} d={}", k.k, k.rb_text(), k.dist_text());
    for (which, res) in [("(a,b)", &res_ab), ("(b,a)", &res_ba)] {
        let v = match res {
            Err(_) => {
                let s = cc_obs_string(res);
                *acc.eq_fails.entry(bucket("panic")).or_insert(0) += 1;
                acc.fail("cc_eq_panic", key, || Violation::new(format!("cc_eq_panic:{}", k.sig()), format!("intersect_cc{which} panicked on nearly equal circles: {}: {s}", what()), k.replay("cc_eq_panic")));
                continue;
            }
            Ok(v) => v,
        };
        iter_cc(acc, key, k, which, v);
        if which == "(a,b)" {
            match cc_kind_of(v) {
                CcKind::Intersect => acc.inc(C::EqObsIntersect),
                CcKind::TouchInside => acc.inc(C::EqObsTouchInside),
                _ => {}
            }
        }
        if cc_kind_of(v) != exact {
            let s = cc_obs_string(res);
            *acc.eq_fails.entry(bucket("kind")).or_insert(0) += 1;
            acc.fail("cc_eq_kind", key, || Violation::new(format!("cc_eq_kind:{}", k.sig()), format!("intersect_cc{which} kind on nearly equal circles: {}: exact class {:?}, library returned {s}", what(), exact), k.replay("cc_eq_kind")));
        }
        let pts = cc_points(v);
        let offs: Vec<f64> = pts.iter().flat_map(|p| [off_circle(p, &ca.c, ca.r), off_circle(p, &cb.c, cb.r)]).collect();
        let apart = if pts.len() == 2 { d2(pts[0].x, pts[0].y, pts[1].x, pts[1].y) } else { f64::INFINITY };
        if !(offs.iter().all(|w| within(*w)) && apart > TOL) {
            let s = cc_obs_string(res);
            *acc.eq_fails.entry(bucket("points")).or_insert(0) += 1;
            acc.fail("cc_eq_points", key, || {
                Violation::new(format!("cc_eq_points:{}", k.sig()), format!("intersect_cc{which} points on nearly equal circles: {}: library returned {s}; per point (off circle a, off circle b) = {:?} (tolerance 1e-7), mutual distance {:?}", what(), offs, apart), k.replay("cc_eq_points"))
            });
        } else if cc_kind_of(v) == exact {
            acc.eq_max_off = offs.iter().fold(acc.eq_max_off, |m, w| m.max(*w));
            acc.eq_min_apart = acc.eq_min_apart.min(apart);
        }
    }
    // samples: radii differing by less than 1e-4, an oblique direction, a centre far from the origin
    if k.k >= 20 && k.dir.0 != 0 && k.dir.1 != 0 && k.c.0.abs() >= eq_grid(100.0) {
        let cat = match (exact, concentric) {
            (CcKind::TouchInside, _) => "cc_eq_touch_inside",
            (CcKind::Intersect, false) => "cc_eq_crossing_next_to_tangency",
            (CcKind::Intersect, true) => "cc_eq_crossing_nearly_concentric",
            (_, false) => "cc_eq_nested_next_to_tangency",
            (_, true) => "cc_eq_nested_nearly_concentric",
        };
        acc.note(cat, key, || {
            json!({"call": "intersect_cc", "a": {"centre": pj(&ca.c), "r": ca.r}, "b": {"centre": pj(&cb.c), "r": cb.r}, "g": format!("65*2^-{}", k.k), "rb": k.rb_text(), "centre_distance": k.dist_text(),
                   "exact_distance_from_internal_tangency": gap, "exact": format!("{:?}", exact), "observed_ab": cc_obs_string(&res_ab), "observed_ba": cc_obs_string(&res_ba)})
        });
    }
}

/// The nearly-equal-radii family, mildest first: g = 65 * 2^-k descending, radius ascending; then centre (origin
/// first), direction (axes first) and per direction: the exact tangency, centre distance g + delta (crossing)
/// and g - delta (nested) for delta descending, then the nearly concentric pairs (centre distance g, radius
/// difference th * g / 2 for th in `ths`).  Members that are not `well_formed` (rb < ra / 2, delta > g / 2) are
/// not part of the family.
struct EqFamily {
    tfi: u64,
    ks: Vec<u32>,
    radii: Vec<i64>,
    centres: Vec<IP>,
    dirs: Vec<(i64, i64)>,
    deltas: Vec<f64>,
    ths: Vec<i64>,
}

impl EqFamily {
    fn run(&self) -> Acc {
        let mut variants: Vec<(i64, f64)> = vec![(2, 0.0)];
        variants.extend(self.deltas.iter().flat_map(|d| [(2, *d), (2, -*d)]));
        variants.extend(self.ths.iter().map(|t| (*t, 0.0)));
        (0..self.ks.len() * self.radii.len())
            .into_par_iter()
            .map(|major| {
                let mut acc = Acc::new();
                let (ki, ri) = (major / self.radii.len(), major % self.radii.len());
                let mut minor = 0u64;
                for &c in &self.centres {
                    for &dir in &self.dirs {
                        for &(th, sd) in &variants {
                            let k = EqCase { ra: self.radii[ri], k: self.ks[ki], c, dir, th, sd };
                            if k.well_formed() {
                                check_cc_eq(&mut acc, (self.tfi, major as u64, minor), &k);
                            }
                            minor += 1;
                        }
                    }
                }
                acc
            })
            .reduce(Acc::new, Acc::merge)
    }
}

// ------------------------------------------------------------------------------------------------
// line–line, parallel
// ------------------------------------------------------------------------------------------------

#[derive(Clone, Copy)]
struct LlCase {
    tf: Tf,
    p1: IP,
    p2: IP,
    q1: IP,
    q2: IP,
    /// construction routes of the two lines (index into LINE_ROUTES); 0 = between
    ru: usize,
    rv: usize,
}

impl LlCase {
    fn sig(&self) -> String {
        let t = &self.tf;
        format!("tf={};l={}>{};m={}>{}{}", t.tag(), t.show(self.p1), t.show(self.p2), t.show(self.q1), t.show(self.q2), route_tag(&[("l", LINE_ROUTES[self.ru], self.ru), ("m", LINE_ROUTES[self.rv], self.rv)]))
    }
    fn replay(&self, fam: &str) -> Value {
        json!({"case": "ll", "family": fam, "tf": self.tf.json(), "p1": [self.p1.0, self.p1.1], "p2": [self.p2.0, self.p2.1], "q1": [self.q1.0, self.q1.1], "q2": [self.q2.0, self.q2.1], "route_l": self.ru, "route_m": self.rv})
    }
    fn text(&self) -> String {
        let t = &self.tf;
        format!("line through {} and {} with line through {} and {} (transform {})", t.show(self.p1), t.show(self.p2), t.show(self.q1), t.show(self.q2), t.tag())
    }
}

/// The line–line checks report under their own family names in the skew plane, where in addition only
/// what the property states is demanded of a returned point (on both lines within 1e-7): two lines
/// meeting at an angle of 1e-9..1e-5 do not determine the point's position ALONG them to 1e-7.
struct LlFam {
    parallel: &'static str,
    panic: &'static str,
    kind: &'static str,
    point: &'static str,
}
const LL_LATTICE: LlFam = LlFam { parallel: "parallel", panic: "ll_panic", kind: "ll_kind", point: "ll_point" };
const LL_SKEW: LlFam = LlFam { parallel: "skew_parallel", panic: "skew_ll_panic", kind: "skew_ll_kind", point: "skew_ll_point" };

#[allow(clippy::too_many_arguments)]
fn check_ll(acc: &mut Acc, key: Key, k: &LlCase, fp1: &Point, fp2: &Point, fq1: &Point, fq2: &Point, lu: &Line, lv: &Line) {
    let skew = k.tf.is_binary();
    let fam = if skew { &LL_SKEW } else { &LL_LATTICE };
    let (d1x, d1y) = ((k.p2.0 - k.p1.0) as i128, (k.p2.1 - k.p1.1) as i128);
    let (d2x, d2y) = ((k.q2.0 - k.q1.0) as i128, (k.q2.1 - k.q1.1) as i128);
    let den = d1x * d2y - d1y * d2x;
    let par_exact = den == 0;
    if (k.tf.is_id() || skew) && !par_exact {
        let g = den.abs() as f64 / (((d1x * d1x + d1y * d1y) as f64).sqrt() * ((d2x * d2x + d2y * d2y) as f64).sqrt());
        if skew {
            acc.gap_skew_parallel = acc.gap_skew_parallel.min(g);
        } else {
            acc.gap_parallel = acc.gap_parallel.min(g);
        }
    }
    if par_exact {
        acc.inc(C::LlParallel);
    } else {
        acc.inc(C::LlPoint);
        acc.inc(C::Nontrivial);
    }
    if skew {
        acc.inc(if par_exact { C::SkewLlParallel } else { C::SkewLlPoint });
    }
    let built = if k.ru == 0 && k.rv == 0 { Ok((*lu, *lv)) } else { catch(|| (line_by(k.ru, lu, fp1, fp2), line_by(k.rv, lv, fq1, fq2))) };
    let (lu, lv) = match built {
        Ok(b) => b,
        Err(e) => {
            acc.fail(fam.panic, key, || Violation::new(format!("{}:{}", fam.panic, k.sig()), format!("building the lines of {} panicked: {e}", k.text()), k.replay(fam.panic)));
            return;
        }
    };
    let (lu, lv) = (&lu, &lv);
    let par_obs = catch(|| util::parallel(lu, lv));
    let res = catch(|| util::intersect_ll(lu, lv));
    acc.inc(C::Evals);
    acc.inc(C::Evals);
    match &par_obs {
        Ok(b) if *b == par_exact => {}
        other => {
            let s = format!("{:?}", other);
            acc.fail(fam.parallel, key, || Violation::new(format!("{}:{}", fam.parallel, k.sig()), format!("parallel: {}: exact cross product of directions = {den}, so parallel = {par_exact}; library returned {s}", k.text()), k.replay(fam.parallel)));
        }
    }
    let res = match res {
        Err(e) => {
            acc.fail(fam.panic, key, || Violation::new(format!("{}:{}", fam.panic, k.sig()), format!("intersect_ll panicked on {}: {e}", k.text()), k.replay(fam.panic)));
            return;
        }
        Ok(r) => r,
    };
    if res.is_some() {
        acc.inc(C::ObsLlSome);
    }
    if res.is_some() == par_exact {
        let s = format!("{:?}", res);
        acc.fail(fam.kind, key, || {
            Violation::new(format!("{}:{}", fam.kind, k.sig()), format!("intersect_ll kind: {}: exact cross product of directions = {den} ({}), library returned {s}", k.text(), if par_exact { "parallel: no unique point" } else { "unique point" }), k.replay(fam.kind))
        });
    }
    if let Some(p) = res {
        // exact point (if unique)
        let e = if !par_exact {
            let num = (k.q1.0 - k.p1.0) as i128 * d2y - (k.q1.1 - k.p1.1) as i128 * d2x;
            let t = num as f64 / den as f64;
            Some(k.tf.ptf(k.p1.0 as f64 + d1x as f64 * t, k.p1.1 as f64 + d1y as f64 * t))
        } else {
            None
        };
        if let Some(e) = e {
            if !(e.0.abs() <= COORD_LIMIT && e.1.abs() <= COORD_LIMIT) {
                // the accuracy clause is stated for coordinates up to 1e3 only
                acc.inc(C::LlPointFar);
                acc.inc(C::SkippedOutOfDomain);
                return;
            }
        } else if !(p.x.abs() <= COORD_LIMIT && p.y.abs() <= COORD_LIMIT) {
            acc.inc(C::SkippedOutOfDomain);
            return;
        }
        let (o1, o2) = (off_line(&p, fp1, fp2), off_line(&p, fq1, fq2));
        let dev = e.map(|e| d2(p.x, p.y, e.0, e.1)).unwrap_or(0.0);
        // the normalised minor coefficient of the FIRST line, from its defining points
        let minor = (d1x.abs().min(d1y.abs()) as f64) / ((d1x * d1x + d1y * d1y) as f64).sqrt();
        let steep_first = minor != 0.0 && minor < 1e-6;
        if skew {
            acc.inc(C::SkewLlPointChecked);
            if steep_first {
                acc.inc(C::SkewLlSteepFirst);
            }
        } else if within(dev) {
            acc.max_dev = acc.max_dev.max(dev);
        }
        if !(within(o1) && within(o2) && (skew || within(dev))) {
            acc.fail(fam.point, key, || {
                Violation::new(format!("{}:{}", fam.point, k.sig()), format!("intersect_ll point: {}: exact point {:?}, library returned {}: off first line by {:?}, off second line by {:?}, from exact point {:?} (tolerance 1e-7)", k.text(), e, ps(&p), o1, o2, dev), k.replay(fam.point))
            });
        }
        if skew {
            if steep_first && d2x != 0 && d2y != 0 && within(o1) && within(o2) {
                acc.note("skew_ll_point_steep_line_first", key, || {
                    json!({"call": "intersect_ll", "plane": "binary fractions (units of 2^-19)", "l": [pj(fp1), pj(fp2)], "m": [pj(fq1), pj(fq2)], "first_line_minor_coefficient": minor, "exact_point": e.map(|e| vec![e.0, e.1]), "observed": ps(&p), "off_l": o1, "off_m": o2})
                });
            }
        } else if d1x != 0 && d1y != 0 && d2x != 0 && d2y != 0 {
            acc.note(if k.tf.is_id() { "ll_point_lattice1" } else { "ll_point_lattice2" }, key, || {
                json!({"call": "intersect_ll", "transform": k.tf.tag(), "l": [[k.p1.0, k.p1.1], [k.p2.0, k.p2.1]], "m": [[k.q1.0, k.q1.1], [k.q2.0, k.q2.1]], "exact_point": e.map(|e| vec![e.0, e.1]), "observed": ps(&p), "off_l": o1, "off_m": o2})
            });
        }
    }
}

// ------------------------------------------------------------------------------------------------
// Circle::position, Line::contains
// ------------------------------------------------------------------------------------------------

#[derive(Clone, Copy)]
struct PosCase {
    tf: Tf,
    c: IP,
    r: i64,
    p: IP,
    /// index into PERTS: change of the fed radius (near-boundary family), 0 = none
    pert: usize,
    /// construction routes of the circle (CIRCLE_ROUTES) and of the point (POINT_ROUTES); 0 = new
    rc: usize,
    rp: usize,
}

impl PosCase {
    fn sig(&self) -> String {
        let dr = if self.pert == 0 { String::new() } else { format!(";dr={}", pert_tag(self.pert)) };
        format!("tf={};c={};r={};p={}{dr}{}", self.tf.tag(), ip(self.c), self.r, ip(self.p), route_tag(&[("circle", CIRCLE_ROUTES[self.rc], self.rc), ("point", POINT_ROUTES[self.rp], self.rp)]))
    }
    fn replay(&self, fam: &str) -> Value {
        json!({"case": "pos", "family": fam, "tf": self.tf.json(), "c": [self.c.0, self.c.1], "r": self.r, "p": [self.p.0, self.p.1], "pert": self.pert, "route_circle": self.rc, "route_point": self.rp})
    }
}

/// The NEAR-boundary companion of an exact border point: the fed radius changed by PERTS[k.pert] puts the
/// point outside (smaller radius) or inside (larger).  `position` uses a tolerance RELATIVE to the radius,
/// so changes of at most 1e-9 * r (with 1 % margin) are within the library's tolerance: skipped and counted.
fn check_pos_near(acc: &mut Acc, key: Key, k: &PosCase, fc: &Point, fp: &Point) {
    let r0 = k.tf.rad(k.r);
    let rp = r0 + PERTS[k.pert];
    let dr = rp - r0; // exact
    if dr.abs() <= 1.01e-9 * rp {
        acc.inc(C::NearPosInBand);
        acc.inc(C::SkippedOutOfDomain);
        return;
    }
    let exact = if dr > 0.0 { PointPosition::Inside } else { PointPosition::Outside };
    acc.inc(if dr > 0.0 { C::NearPosInside } else { C::NearPosOutside });
    let res = pos_call(k, fc, fp);
    acc.inc(C::Evals);
    if res.as_ref().ok() != Some(&exact) {
        let s = format!("{:?}", res);
        acc.fail("position_near", key, || {
            Violation::new(
                format!("position_near:{}", k.sig()),
                format!("Circle::position near the border: point {} is exactly on the circle centre {} r={} (transform {}; fed centre {} point {}); with the fed radius changed by {} to {:?} it is {:?}, {:e} of the radius away from the border (library tolerance 1e-9, relative); library returned {s}", ip(k.p), ip(k.c), k.r, k.tf.tag(), ps(fc), ps(fp), pert_tag(k.pert), rp, exact, dr.abs() / rp),
                k.replay("position_near"),
            )
        });
    }
}

/// returns whether the point is exactly on the border
fn check_pos(acc: &mut Acc, key: Key, k: &PosCase, fc: &Point, fp: &Point) -> bool {
    let (dx, dy) = ((k.p.0 - k.c.0) as i128, (k.p.1 - k.c.1) as i128);
    let dd = dx * dx + dy * dy;
    let rr = (k.r as i128) * (k.r as i128);
    let exact = if dd < rr {
        PointPosition::Inside
    } else if dd == rr {
        PointPosition::Border
    } else {
        PointPosition::Outside
    };
    match exact {
        PointPosition::Inside => acc.inc(C::PosInside),
        PointPosition::Border => {
            acc.inc(C::PosBorder);
            if dx != 0 && dy != 0 {
                acc.inc(C::PosBorderOffAxis);
            }
        }
        PointPosition::Outside => acc.inc(C::PosOutside),
    }
    if k.tf.is_id() && dd != rr {
        acc.gap_pos_rel = acc.gap_pos_rel.min(((dd as f64).sqrt() - k.r as f64).abs() / k.r as f64);
    }
    let res = pos_call(k, fc, fp);
    acc.inc(C::Evals);
    if res.as_ref().ok() != Some(&exact) {
        let s = format!("{:?}", res);
        acc.fail("position", key, || {
            Violation::new(format!("position:{}", k.sig()), format!("Circle::position: centre {} r={} point {} (transform {}): exact d^2={} vs r^2={} so {:?}; library returned {s}", ip(k.c), k.r, ip(k.p), k.tf.tag(), dd, rr, exact), k.replay("position"))
        });
    }
    dd == rr
}

#[derive(Clone, Copy)]
struct ConCase {
    tf: Tf,
    p1: IP,
    p2: IP,
    q: IP,
    /// construction routes of the line (LINE_ROUTES) and of the point (POINT_ROUTES); 0 = between / new
    rl: usize,
    rp: usize,
}

impl ConCase {
    fn fam(&self) -> &'static str {
        if self.tf.is_binary() {
            "skew_contains"
        } else {
            "contains"
        }
    }
    fn sig(&self) -> String {
        let t = &self.tf;
        format!("tf={};l={}>{};p={}{}", t.tag(), t.show(self.p1), t.show(self.p2), t.show(self.q), route_tag(&[("line", LINE_ROUTES[self.rl], self.rl), ("point", POINT_ROUTES[self.rp], self.rp)]))
    }
    fn replay(&self) -> Value {
        json!({"case": "contains", "family": self.fam(), "tf": self.tf.json(), "p1": [self.p1.0, self.p1.1], "p2": [self.p2.0, self.p2.1], "q": [self.q.0, self.q.1], "route_line": self.rl, "route_point": self.rp})
    }
}

fn check_contains(acc: &mut Acc, key: Key, k: &ConCase, fl: &Line, fq: &Point) {
    let skew = k.tf.is_binary();
    let (dx, dy) = ((k.p2.0 - k.p1.0) as i128, (k.p2.1 - k.p1.1) as i128);
    let cross = dx * (k.q.1 - k.p1.1) as i128 - dy * (k.q.0 - k.p1.0) as i128;
    let exact = cross == 0;
    acc.inc(if exact { C::ContainsOn } else { C::ContainsOff });
    if skew {
        acc.inc(if exact { C::SkewContainsOn } else { C::SkewContainsOff });
    }
    if (k.tf.is_id() || skew) && !exact {
        // the distance in the fed plane (the skew plane's integers are units of 2^-19)
        let g = cross.abs() as f64 / ((dx * dx + dy * dy) as f64).sqrt() / k.tf.h as f64;
        if skew {
            acc.gap_skew_contains = acc.gap_skew_contains.min(g);
        } else {
            acc.gap_contains = acc.gap_contains.min(g);
        }
    }
    let res = contains_call(k, fl, fq);
    acc.inc(C::Evals);
    if res.as_ref().ok() != Some(&exact) {
        let s = format!("{:?}", res);
        acc.fail(k.fam(), key, || {
            Violation::new(format!("{}:{}", k.fam(), k.sig()), format!("Line::contains: line through {} and {} and point {} (transform {}): exact cross product {cross}, so on the line = {exact}; library returned {s} (line a,b,c = {:?},{:?},{:?})", k.tf.show(k.p1), k.tf.show(k.p2), k.tf.show(k.q), k.tf.tag(), fl.a, fl.b, fl.c), k.replay())
        });
    }
}

// ------------------------------------------------------------------------------------------------
// construction routes: every judged configuration once more with operands arrived at differently
// ------------------------------------------------------------------------------------------------
//
// Each `routes_*` function re-runs the real call of one configuration for every route combination of its
// operands.  The plain-route result of that configuration has just been judged by the family's oracle; a result
// that is bit-for-bit that result has the same verdict (the oracle is a function of configuration and result).
// Any result that differs in a bit goes through the same oracle in full.

fn cl_call(k: &ClCase, fc: &Point, fp1: &Point, fp2: &Point, fl: &Line) -> Result<CircleLineIntersection, String> {
    catch(|| {
        let circle = circle_by(k.rc, *fc, k.rad());
        let line = line_by(k.rl, fl, fp1, fp2);
        util::intersect_cl(&circle, &line)
    })
}

#[allow(clippy::too_many_arguments)]
fn routes_cl(acc: &mut Acc, key: Key, k: &ClCase, combos: &[(usize, usize)], fc: &Point, fp1: &Point, fp2: &Point, fl: &Line) {
    let base = cl_call(k, fc, fp1, fp2, fl);
    acc.inc(match &base {
        Ok(CircleLineIntersection::Touch(_)) => C::RouteClTouch,
        Ok(CircleLineIntersection::Intersect(..)) => C::RouteClIntersect,
        _ => C::RouteClNone,
    });
    for &(rc, rl) in combos {
        let kr = ClCase { rc, rl, ..*k };
        let res = cl_call(&kr, fc, fp1, fp2, fl);
        acc.inc(C::Evals);
        acc.inc(C::RouteCalls);
        if same_cl(&base, &res) {
            acc.inc(C::RouteBitIdentical);
            continue;
        }
        let mut s = Acc::new();
        if k.pert == 0 {
            check_cl(&mut s, key, &kr, fc, fp1, fp2, fl);
        } else {
            check_cl_near(&mut s, key, &kr, fc, fp1, fp2, fl);
        }
        acc.route_judged("route_cl", key, 1, kr.sig(), s);
    }
}

type CcRes = Result<CircleIntersection, String>;

fn cc_calls(k: &CcCase, fa: &Point, fb: &Point) -> (CcRes, CcRes) {
    let (ra, rb) = k.rads();
    let ab = catch(|| util::intersect_cc(&circle_by(k.rta, *fa, ra), &circle_by(k.rtb, *fb, rb)));
    let ba = catch(|| util::intersect_cc(&circle_by(k.rtb, *fb, rb), &circle_by(k.rta, *fa, ra)));
    (ab, ba)
}

fn routes_cc(acc: &mut Acc, key: Key, k: &CcCase, combos: &[(usize, usize)], fa: &Point, fb: &Point) {
    let base = cc_calls(k, fa, fb);
    acc.inc(match base.0.as_ref().map(cc_kind_of) {
        Ok(CcKind::Same) => C::RouteCcSame,
        Ok(CcKind::TouchInside) | Ok(CcKind::TouchOutside) => C::RouteCcTouch,
        Ok(CcKind::Intersect) => C::RouteCcIntersect,
        _ => C::RouteCcNone,
    });
    for &(rta, rtb) in combos {
        let kr = CcCase { rta, rtb, ..*k };
        let res = cc_calls(&kr, fa, fb);
        acc.inc(C::Evals);
        acc.inc(C::Evals);
        acc.inc(C::RouteCalls);
        acc.inc(C::RouteCalls);
        if same_cc(&base.0, &res.0) && same_cc(&base.1, &res.1) {
            acc.inc(C::RouteBitIdentical);
            acc.inc(C::RouteBitIdentical);
            continue;
        }
        let mut s = Acc::new();
        if k.pert == 0 {
            check_cc(&mut s, key, &kr, fa, fb);
        } else {
            check_cc_near(&mut s, key, &kr, fa, fb);
        }
        acc.route_judged("route_cc", key, 2, kr.sig(), s);
    }
}

#[allow(clippy::too_many_arguments)]
fn ll_calls(k: &LlCase, fp1: &Point, fp2: &Point, fq1: &Point, fq2: &Point, lu: &Line, lv: &Line) -> Result<(bool, Option<(u64, u64)>), String> {
    catch(|| {
        let u = line_by(k.ru, lu, fp1, fp2);
        let v = line_by(k.rv, lv, fq1, fq2);
        (util::parallel(&u, &v), util::intersect_ll(&u, &v).as_ref().map(pbits))
    })
}

#[allow(clippy::too_many_arguments)]
fn routes_ll(acc: &mut Acc, key: Key, k: &LlCase, combos: &[(usize, usize)], fp1: &Point, fp2: &Point, fq1: &Point, fq2: &Point, lu: &Line, lv: &Line) {
    let base = ll_calls(k, fp1, fp2, fq1, fq2, lu, lv);
    acc.inc(match &base {
        Ok((_, Some(_))) => C::RouteLlPoint,
        _ => C::RouteLlParallel,
    });
    for &(ru, rv) in combos {
        let kr = LlCase { ru, rv, ..*k };
        let res = ll_calls(&kr, fp1, fp2, fq1, fq2, lu, lv);
        acc.inc(C::Evals);
        acc.inc(C::Evals);
        acc.inc(C::RouteCalls);
        acc.inc(C::RouteCalls);
        if res.is_ok() == base.is_ok() && (res.is_err() || res == base) {
            acc.inc(C::RouteBitIdentical);
            acc.inc(C::RouteBitIdentical);
            continue;
        }
        let mut s = Acc::new();
        check_ll(&mut s, key, &kr, fp1, fp2, fq1, fq2, lu, lv);
        acc.route_judged("route_ll", key, 2, kr.sig(), s);
    }
}

fn pos_call(k: &PosCase, fc: &Point, fp: &Point) -> Result<PointPosition, String> {
    catch(|| circle_by(k.rc, *fc, k.tf.rad(k.r) + PERTS[k.pert]).position(&point_by(k.rp, fp)))
}

fn routes_pos(acc: &mut Acc, key: Key, k: &PosCase, combos: &[(usize, usize)], fc: &Point, fp: &Point) {
    let rp = k.tf.rad(k.r) + PERTS[k.pert];
    if k.pert != 0 && (rp - k.tf.rad(k.r)).abs() <= 1.01e-9 * rp {
        return; // inside the library's relative tolerance: not judged by check_pos_near either
    }
    let base = pos_call(k, fc, fp);
    acc.inc(C::RoutePos);
    for &(rc, rpt) in combos {
        let kr = PosCase { rc, rp: rpt, ..*k };
        let res = pos_call(&kr, fc, fp);
        acc.inc(C::Evals);
        acc.inc(C::RouteCalls);
        if res.is_ok() == base.is_ok() && (res.is_err() || res == base) {
            acc.inc(C::RouteBitIdentical);
            continue;
        }
        let mut s = Acc::new();
        if k.pert == 0 {
            check_pos(&mut s, key, &kr, fc, fp);
        } else {
            check_pos_near(&mut s, key, &kr, fc, fp);
        }
        acc.route_judged("route_position", key, 1, kr.sig(), s);
    }
}

fn contains_call(k: &ConCase, fl: &Line, fq: &Point) -> Result<bool, String> {
    catch(|| {
        let l = if k.rl == 0 { *fl } else { line_by(k.rl, fl, &k.tf.pt(k.p1), &k.tf.pt(k.p2)) };
        l.contains(&point_by(k.rp, fq))
    })
}

fn routes_contains(acc: &mut Acc, key: Key, k: &ConCase, combos: &[(usize, usize)], fl: &Line, fq: &Point) {
    let base = contains_call(k, fl, fq);
    acc.inc(C::RouteContains);
    for &(rl, rp) in combos {
        let kr = ConCase { rl, rp, ..*k };
        let res = contains_call(&kr, fl, fq);
        acc.inc(C::Evals);
        acc.inc(C::RouteCalls);
        if res.is_ok() == base.is_ok() && (res.is_err() || res == base) {
            acc.inc(C::RouteBitIdentical);
            continue;
        }
        let mut s = Acc::new();
        check_contains(&mut s, key, &kr, fl, fq);
        acc.route_judged("route_contains", key, 1, kr.sig(), s);
    }
}

/// route combinations of (circle, point) and (line, point)
fn with_point_combos(n: usize) -> Vec<(usize, usize)> {
    let mut v: Vec<(usize, usize)> = (1..n).map(|a| (a, 0)).collect();
    v.extend((1..POINT_ROUTES.len()).map(|p| (0, p)));
    v.extend((1..POINT_ROUTES.len()).map(|p| (p, p)));
    v
}

// ------------------------------------------------------------------------------------------------
// nearly normalised lines: raw normal of length 1 + k * 2^-s, through both public constructors
// ------------------------------------------------------------------------------------------------

/// n / 2^e as the f64 handed to the library, or None if it is not exactly representable
fn dyadic(n: i128, e: u32) -> Option<f64> {
    let f = n as f64;
    (n.unsigned_abs() < 1u128 << 100 && f as i128 == n && e < 64).then(|| f / (1u64 << e) as f64)
}

#[derive(Clone, Copy, PartialEq, Debug)]
enum NuCtor {
    /// `Line::new(a, b, c)` with (a, b) = (p, q) * t / 2^s and c = -(a x1 + b y1)
    New,
    /// `Line::between(u, v)` with v - u = (q, -p) * t / 2^s, so that the raw normal (u.y - v.y, v.x - u.x) is (p, q) * t / 2^s
    Between,
}

/// The line p (x - x1) + q (y - y1) = 0 for a Pythagorean direction `dir` = (p, q, h), handed to the library
/// with the raw normal (p, q) * t / 2^s of length h * t / 2^s = 1 + k / 2^s; `flip` negates the coefficients /
/// swaps the two defining points.
#[derive(Clone, Copy)]
struct NuLine {
    dir: (i64, i64, i64),
    s: u32,
    t: i64,
    ctor: NuCtor,
    flip: bool,
}

impl NuLine {
    /// k of "length = 1 + k * 2^-s"
    fn k(&self) -> i64 {
        self.dir.2 * self.t - (1i64 << self.s)
    }
    /// the raw normal's length minus one (exact: k and 2^s are small integers)
    fn excess(&self) -> f64 {
        self.k() as f64 / (1u64 << self.s) as f64
    }
    fn in_band(&self) -> bool {
        self.excess().abs() < 1e-9
    }
    fn len_text(&self) -> String {
        format!("1{:+}*2^-{}", self.k(), self.s)
    }
    fn ctor_text(&self) -> &'static str {
        match (self.ctor, self.flip) {
            (NuCtor::New, false) => "new",
            (NuCtor::New, true) => "new-",
            (NuCtor::Between, false) => "between",
            (NuCtor::Between, true) => "between<",
        }
    }
    /// the numbers handed to the constructor for the line through `at`/4 — ([a, b, c] or [ux, uy, vx, vy]) —, or None
    /// if one of them is not an exact f64
    fn fed(&self, at: IP) -> Option<Vec<f64>> {
        let (p, q, _) = self.dir;
        let (a, b) = ((p * self.t) as i128, (q * self.t) as i128);
        let (x, y) = (at.0 as i128, at.1 as i128);
        let sg = if self.flip { -1 } else { 1 };
        match self.ctor {
            NuCtor::New => Some(vec![dyadic(sg * a, self.s)?, dyadic(sg * b, self.s)?, dyadic(-sg * (a * x + b * y), self.s + 2)?]),
            NuCtor::Between => {
                let one = 1i128 << self.s;
                let u = [dyadic(x, 2)?, dyadic(y, 2)?];
                let v = [dyadic(x * one + 4 * b, self.s + 2)?, dyadic(y * one - 4 * a, self.s + 2)?];
                Some(if self.flip { vec![v[0], v[1], u[0], u[1]] } else { vec![u[0], u[1], v[0], v[1]] })
            }
        }
    }
    /// the library's line through `at`/4 (None: not representable; Err: the constructor panicked)
    fn build(&self, at: IP) -> Option<Result<Line, String>> {
        let f = self.fed(at)?;
        Some(match self.ctor {
            NuCtor::New => catch(|| Line::new(f[0], f[1], f[2])),
            NuCtor::Between => catch(|| Line::between(&Point::new(f[0], f[1]), &Point::new(f[2], f[3]))),
        })
    }
}

/// A nearly normalised line and a circle of radius h * rho + dr whose centre `c4`/4 is exactly h * rho away
/// from it: the line passes through the tangent point T = centre + side * rho * (p, q) and is handed over
/// through the point T + tau * (q, -p).  dr = 0 is the exact tangency; its sign decides the class otherwise.
struct NuCase {
    line: NuLine,
    c4: IP,
    rho: i64,
    side: i64,
    tau: i64,
    dr: f64,
}

impl NuCase {
    fn r(&self) -> i64 {
        self.line.dir.2 * self.rho
    }
    /// the tangent point and the point the line is handed over through, in quarters
    fn t4(&self) -> IP {
        let (p, q, _) = self.line.dir;
        (self.c4.0 + 4 * self.side * self.rho * p, self.c4.1 + 4 * self.side * self.rho * q)
    }
    fn at4(&self) -> IP {
        let ((p, q, _), t) = (self.line.dir, self.t4());
        (t.0 + 4 * self.tau * q, t.1 - 4 * self.tau * p)
    }
    fn well_formed(&self) -> bool {
        let (p, q, h) = self.line.dir;
        let l = &self.line;
        h > 0
            && h <= 64
            && p * p + q * q == h * h
            && (8..=40).contains(&l.s)
            && l.t > 0
            && l.t < 1i64 << 41
            && l.k() != 0
            && l.k().abs() <= 4 * h
            && (1..=1000).contains(&self.rho)
            && self.side.abs() == 1
            && self.tau.abs() <= 1000
            && self.c4.0.abs() <= 4000
            && self.c4.1.abs() <= 4000
            && (self.dr == 0.0 || (self.dr.abs() >= RATIO_FLOOR && self.dr.abs() <= self.r() as f64 / 2.0))
    }
    fn sig(&self) -> String {
        let (p, q, h) = self.line.dir;
        let dir = if h == 1 { format!("{p},{q}") } else { format!("{p}/{h},{q}/{h}") };
        let dr = if self.dr == 0.0 { "0".to_string() } else { format!("{:+e}", self.dr) };
        format!("ctor={};n={dir};len={};c=({:?},{:?});r={};side={:+};tau={};dr={dr}", self.line.ctor_text(), self.line.len_text(), self.c4.0 as f64 / 4.0, self.c4.1 as f64 / 4.0, self.r(), self.side, self.tau)
    }
    fn replay(&self, fam: &str) -> Value {
        let l = &self.line;
        json!({"case": "nu", "family": fam, "dir": [l.dir.0, l.dir.1, l.dir.2], "s": l.s, "t": l.t, "ctor": if l.ctor == NuCtor::New { "new" } else { "between" }, "flip": l.flip,
               "centre_quarters": [self.c4.0, self.c4.1], "rho": self.rho, "side": self.side, "tau": self.tau, "radius_change": self.dr})
    }
    fn from_json(v: &Value) -> Option<NuCase> {
        let g = |a: &Value, i: usize| a[i].as_i64();
        let ctor = match v["ctor"].as_str()? {
            "new" => NuCtor::New,
            "between" => NuCtor::Between,
            _ => return None,
        };
        let k = NuCase {
            line: NuLine { dir: (g(&v["dir"], 0)?, g(&v["dir"], 1)?, g(&v["dir"], 2)?), s: u32::try_from(v["s"].as_u64()?).ok()?, t: v["t"].as_i64()?, ctor, flip: v["flip"].as_bool()? },
            c4: (g(&v["centre_quarters"], 0)?, g(&v["centre_quarters"], 1)?),
            rho: v["rho"].as_i64()?,
            side: v["side"].as_i64()?,
            tau: v["tau"].as_i64()?,
            dr: v["radius_change"].as_f64()?,
        };
        k.well_formed().then_some(k)
    }
}

/// One case of the nearly-normalised-lines family.  Demanded of `intersect_cl`: the kind (Touch at the exact
/// tangency, Intersect / None by the sign of the radius change), every returned point on the circle and on the
/// EXACT line within 1e-7, the exact tangent point at the tangency, two returned points distinct.  At dr = 0 the
/// line itself is examined too: `contains` of points on it (true), 1e-8 … 1e-5 next to it and h off it (false),
/// `intersect_ll` / `parallel` with the perpendicular through the hand-over point (that point, both argument
/// orders) and with a parallel copy built the same way one normal vector further (parallel, no point).
fn check_nu(acc: &mut Acc, key: Key, k: &NuCase) {
    assert!(k.well_formed(), "check_nu needs a case of the family's shape");
    let (p, q, h) = k.line.dir;
    let r = k.r();
    let (t4, at) = (k.t4(), k.at4());
    let rp = r as f64 + k.dr;
    let dr = rp - r as f64; // exact: |dr| <= r / 2
    // domain: all points of the circle and the defining points of the line within |coordinate| <= 1e3
    // (the second defining point is ~1 from the hand-over point, those of the two auxiliary lines at most 3 h)
    let reach = (k.c4.0.abs().max(k.c4.1.abs()) as f64 / 4.0 + rp).max(at.0.abs().max(at.1.abs()) as f64 / 4.0 + (3 * h + 2) as f64);
    if reach > COORD_LIMIT {
        acc.inc(C::SkippedOutOfDomain);
        acc.inc(C::NuSkippedReach);
        return;
    }
    let line = match k.line.build(at) {
        None => {
            acc.inc(C::NuNotRepresentable);
            return;
        }
        Some(Err(e)) => {
            acc.inc(C::Evals);
            acc.fail("nu_line_panic", key, || Violation::new(format!("nu_line_panic:{}", k.sig()), format!("the Line constructor panicked on {:?}: {e}", k.line.fed(at)), k.replay("nu_line_panic")));
            return;
        }
        Some(Ok(l)) => l,
    };
    acc.inc(C::Evals);
    acc.inc(C::NuLines);
    if k.line.in_band() {
        acc.inc(C::NuLinesInBand);
    }
    acc.nu_reach = acc.nu_reach.max(reach);

    // exact class from the integers: the centre's distance from the line is |p dx + q dy| / h
    let cross4 = (p * (k.c4.0 - at.0) + q * (k.c4.1 - at.1)) as i128;
    assert!(cross4.abs() == 4 * (h * r) as i128, "nearly-normalised family: the centre is not exactly r away from the line");
    let exact = if dr == 0.0 {
        ClKind::Touch
    } else if dr > 0.0 {
        ClKind::Intersect
    } else {
        ClKind::None
    };
    match exact {
        ClKind::Touch => {
            acc.inc(C::NuClTouch);
            if k.line.in_band() && r >= 500 {
                acc.inc(C::NuClTouchFarInBand);
            }
        }
        ClKind::Intersect => acc.inc(C::NuClIntersect),
        ClKind::None => acc.inc(C::NuClNone),
    }
    if exact != ClKind::None {
        acc.inc(C::Nontrivial);
    }
    let fc = Point::new(k.c4.0 as f64 / 4.0, k.c4.1 as f64 / 4.0);
    let fat = Point::new(at.0 as f64 / 4.0, at.1 as f64 / 4.0);
    let ft = Point::new(t4.0 as f64 / 4.0, t4.1 as f64 / 4.0);
    // distance from the EXACT line (never the library's coefficients)
    let off_exact = |x: &Point| ((p as f64 * (x.x - fat.x) + q as f64 * (x.y - fat.y)) / h as f64).abs();
    let what = || {
        format!(
            "the line {p} (x - {:?}) + {q} (y - {:?}) = 0 handed over as {} with a raw normal of length {} = 1{:+e} (exact), and the circle centre {} r={rp:?}, whose centre is exactly {r} from the line (radius change {:+e}; library tolerance 1e-9)",
            fat.x, fat.y,
            match k.line.ctor { NuCtor::New => format!("Line::new{:?}", k.line.fed(at).unwrap_or_default()), NuCtor::Between => format!("Line::between{:?}", k.line.fed(at).unwrap_or_default()) },
            k.line.len_text(), k.line.excess(), ps(&fc), dr
        )
    };
    let bucket = |check: &str| format!("{check} ctor={} len={}", k.line.ctor_text(), k.line.len_text());

    let circle = Circle::new(fc, rp);
    let res = catch(|| util::intersect_cl(&circle, &line));
    acc.inc(C::Evals);
    match &res {
        Err(_) => {
            let s = cl_obs_string(&res);
            *acc.nu_fails.entry(bucket("panic")).or_insert(0) += 1;
            acc.fail("nu_cl_panic", key, || Violation::new(format!("nu_cl_panic:{}", k.sig()), format!("intersect_cl panicked on a nearly normalised line: {}: {s}", what()), k.replay("nu_cl_panic")));
        }
        Ok(v) => {
            iter_cl(acc, key, k, v);
            let (obs_kind, pts) = match v {
                CircleLineIntersection::None => (ClKind::None, vec![]),
                CircleLineIntersection::Touch(a) => (ClKind::Touch, vec![*a]),
                CircleLineIntersection::Intersect(a, b) => (ClKind::Intersect, vec![*a, *b]),
            };
            match obs_kind {
                ClKind::Touch => acc.inc(C::NuObsTouch),
                ClKind::Intersect => acc.inc(C::NuObsIntersect),
                ClKind::None => {}
            }
            if obs_kind != exact {
                let s = cl_obs_string(&res);
                *acc.nu_fails.entry(bucket("kind")).or_insert(0) += 1;
                acc.fail("nu_cl_kind", key, || Violation::new(format!("nu_cl_kind:{}", k.sig()), format!("intersect_cl kind on a nearly normalised line: {}: exact class {:?}, library returned {s} (Line::dist of the centre = {:?})", what(), exact, catch(|| line.dist(&fc))), k.replay("nu_cl_kind")));
            }
            let offs: Vec<f64> = pts.iter().flat_map(|x| [off_circle(x, &fc, rp), off_exact(x)]).collect();
            let apart = if pts.len() == 2 { d2(pts[0].x, pts[0].y, pts[1].x, pts[1].y) } else { f64::INFINITY };
            let dev = if exact == ClKind::Touch && pts.len() == 1 { d2(pts[0].x, pts[0].y, ft.x, ft.y) } else { 0.0 };
            if !(offs.iter().all(|w| within(*w)) && apart > TOL && within(dev)) {
                let s = cl_obs_string(&res);
                *acc.nu_fails.entry(bucket("points")).or_insert(0) += 1;
                acc.fail("nu_cl_points", key, || {
                    Violation::new(format!("nu_cl_points:{}", k.sig()), format!("intersect_cl points on a nearly normalised line: {}: library returned {s}; per point (off circle, off the exact line) = {:?} (tolerance 1e-7), mutual distance {:?}{}", what(), offs, apart, if exact == ClKind::Touch && pts.len() == 1 { format!(", distance from the exact tangent point {} = {:?}", ps(&ft), dev) } else { String::new() }), k.replay("nu_cl_points"))
                });
            } else if obs_kind == exact {
                acc.nu_max_off = offs.iter().fold(acc.nu_max_off, |m, w| m.max(*w));
            }
            if exact != ClKind::None && obs_kind == exact && k.line.in_band() && h > 1 && r >= 500 && k.dr.abs() <= 1e-6 && k.c4 != (0, 0) {
                acc.note(if exact == ClKind::Touch { "nu_tangent_far_from_an_almost_unit_normal" } else { "nu_secant_far_from_an_almost_unit_normal" }, key, || {
                    json!({"call": "intersect_cl", "constructor": k.line.ctor_text(), "fed_to_constructor": k.line.fed(at), "raw_normal_length": k.line.len_text(), "raw_normal_length_minus_1": k.line.excess(),
                           "exact_line": format!("{p}(x-{:?})+{q}(y-{:?})=0", fat.x, fat.y), "centre": pj(&fc), "centre_distance_from_line": r, "fed_r": rp, "exact": format!("{:?}", exact), "observed": cl_obs_string(&res), "off_circle_off_exact_line": offs})
                });
            }
        }
    }
    if k.dr != 0.0 {
        return;
    }

    // ---- the line itself -------------------------------------------------------------------------
    if let Ok(d) = catch(|| line.dist(&fc)) {
        let e = (d - r as f64).abs();
        acc.nu_max_dist_err = if e.is_nan() { f64::INFINITY } else { acc.nu_max_dist_err.max(e) };
    }
    let contains = |acc: &mut Acc, x: Point, on: bool, how: String| {
        if x.x.abs() > COORD_LIMIT || x.y.abs() > COORD_LIMIT {
            acc.inc(C::SkippedOutOfDomain);
            return;
        }
        acc.inc(if on { C::NuContainsOn } else { C::NuContainsOff });
        let got = catch(|| line.contains(&x));
        acc.inc(C::Evals);
        if got.as_ref().ok() != Some(&on) {
            *acc.nu_fails.entry(bucket("contains")).or_insert(0) += 1;
            acc.fail("nu_contains", key, || Violation::new(format!("nu_contains:{}", k.sig()), format!("Line::contains on a nearly normalised line: {}: the point {} is {how}, so on the line = {on}; library returned {got:?} (line a,b,c = {:?},{:?},{:?})", what(), ps(&x), line.a, line.b, line.c), k.replay("nu_contains")));
        }
    };
    for m in [0i64, 1, -9, 64] {
        let on = Point::new((at.0 + 4 * m * q) as f64 / 4.0, (at.1 - 4 * m * p) as f64 / 4.0);
        contains(acc, on, true, format!("the hand-over point moved by {m} * ({q},{})", -p));
        contains(acc, Point::new(on.x + (k.side * p) as f64, on.y + (k.side * q) as f64), false, format!("{h} off the line"));
        for d in &PERTS[1..] {
            let near = Point::new(on.x + p as f64 / h as f64 * d, on.y + q as f64 / h as f64 * d);
            if near.x.abs() <= COORD_LIMIT && near.y.abs() <= COORD_LIMIT {
                acc.nu_near_gap = acc.nu_near_gap.min(off_exact(&near));
            }
            contains(acc, near, false, format!("{:e} off the line", d.abs()));
        }
    }
    // the perpendicular through the hand-over point, an ordinary line (defining points 3 h apart)
    let beyond = Point::new((at.0 + 12 * p) as f64 / 4.0, (at.1 + 12 * q) as f64 / 4.0);
    let copy = k.line.build((at.0 + 4 * k.side * p, at.1 + 4 * k.side * q));
    let mut others: Vec<(&str, Line, bool)> = vec![];
    if let Ok(perp) = make_line(&fat, &beyond) {
        acc.inc(C::Evals);
        others.push(("the perpendicular through the hand-over point", perp, false));
    }
    if let Some(Ok(l2)) = copy {
        acc.inc(C::Evals);
        others.push(("a copy built the same way one normal vector further", l2, true));
    }
    for (name, other, par_exact) in &others {
        for (which, u, v) in [("(line, other)", &line, other), ("(other, line)", other, &line)] {
            acc.inc(if *par_exact { C::NuLlParallel } else { C::NuLlPoint });
            if !*par_exact {
                acc.inc(C::Nontrivial);
            }
            let par = catch(|| util::parallel(u, v));
            let pt = catch(|| util::intersect_ll(u, v));
            acc.inc(C::Evals);
            acc.inc(C::Evals);
            let dev = match &pt {
                Ok(Some(x)) => d2(x.x, x.y, fat.x, fat.y),
                _ => f64::NAN,
            };
            let good = par.as_ref().ok() == Some(par_exact) && if *par_exact { matches!(pt, Ok(None)) } else { within(dev) };
            if !good {
                *acc.nu_fails.entry(bucket("ll")).or_insert(0) += 1;
                acc.fail("nu_ll", key, || {
                    Violation::new(format!("nu_ll:{}", k.sig()), format!("parallel / intersect_ll{which} with a nearly normalised line: {}; other = {name}: exact answer {}; library returned parallel = {par:?}, intersect_ll = {pt:?} (distance from the exact point {dev:?}, tolerance 1e-7)", what(), if *par_exact { "parallel, no point".to_string() } else { format!("not parallel, the point {}", ps(&fat)) }), k.replay("nu_ll"))
                });
            }
        }
    }
}

/// The nearly-normalised-lines family: exponent s ascending, direction (axes first), the integers t next to
/// 2^s / h (k = h t - 2^s ascending, k = 0 left out), constructor, orientation; per line: centre (origin first),
/// radius ascending, side, hand-over point, radius change (0 first, then +-delta descending, then +-r/64, +-r/4).
struct NuFamily {
    tfi: u64,
    exps: Vec<u32>,
    dirs: Vec<(i64, i64, i64)>,
    centres4: Vec<IP>,
    /// aimed-at radii; the radius used is the nearest positive multiple of h
    radii: Vec<i64>,
    taus: Vec<i64>,
    deltas: Vec<f64>,
}

impl NuFamily {
    fn lines(&self) -> Vec<NuLine> {
        let mut v = vec![];
        for &s in &self.exps {
            for &dir in &self.dirs {
                let t0 = (1i64 << s) / dir.2;
                for t in t0 - 1..=t0 + 2 {
                    for ctor in [NuCtor::New, NuCtor::Between] {
                        for flip in [false, true] {
                            let l = NuLine { dir, s, t, ctor, flip };
                            if l.k() != 0 {
                                v.push(l);
                            }
                        }
                    }
                }
            }
        }
        v
    }
    fn run(&self) -> Acc {
        let lines = self.lines();
        (0..lines.len())
            .into_par_iter()
            .map(|li| {
                let mut acc = Acc::new();
                let line = lines[li];
                let h = line.dir.2;
                let mut rhos: Vec<i64> = self.radii.iter().map(|r| ((*r as f64 / h as f64).round() as i64).max(1)).collect();
                rhos.dedup();
                let mut minor = 0u64;
                for &c4 in &self.centres4 {
                    for &rho in &rhos {
                        let r = (h * rho) as f64;
                        let mut drs = vec![0.0];
                        drs.extend(self.deltas.iter().chain([r / 64.0, r / 4.0].iter()).flat_map(|d| [*d, -*d]));
                        for side in [1, -1] {
                            for &tau in &self.taus {
                                for &dr in &drs {
                                    let k = NuCase { line, c4, rho, side, tau, dr };
                                    if k.well_formed() {
                                        check_nu(&mut acc, (self.tfi, li as u64, minor), &k);
                                    }
                                    minor += 1;
                                }
                            }
                        }
                    }
                }
                acc
            })
            .reduce(Acc::new, Acc::merge)
    }
}

// ------------------------------------------------------------------------------------------------
// a lattice under one transform
// ------------------------------------------------------------------------------------------------

struct World {
    tf: Tf,
    tfi: u64,
    pts: Vec<IP>,
    fpts: Vec<Point>,
    lines: Vec<(u32, u32)>,
    flines: Vec<Line>,
    rmax: i64,
    /// construction routes: None = not on this image; Some(s) = on every configuration, line-line on every s-th
    /// of the second lines that are visited
    routes: Option<usize>,
}

/// lattice points of [-n,n]^2, simplest first
fn lattice(n: i64) -> Vec<IP> {
    let mut v: Vec<IP> = (-n..=n).flat_map(|x| (-n..=n).map(move |y| (x, y))).collect();
    v.sort_by_key(|&(x, y)| (x * x + y * y, x.abs() + y.abs(), x < 0, y < 0, x.abs(), y.abs()));
    v
}

fn make_line(a: &Point, b: &Point) -> Result<Line, String> {
    catch(|| Line::between(a, b))
}

/// `Line::between` on the images of two pre-image points (a panic is a violation; the line is then unusable)
fn build_line(acc: &mut Acc, tf: &Tf, key: Key, p1: IP, p2: IP) -> Line {
    acc.inc(C::Evals);
    match make_line(&tf.pt(p1), &tf.pt(p2)) {
        Ok(l) => l,
        Err(e) => {
            acc.fail("line_between_panic", key, || {
                Violation::new(format!("line_between_panic:tf={};l={}>{}", tf.tag(), tf.show(p1), tf.show(p2)), format!("Line::between panicked: {e}"), json!({"case": "between", "family": "line_between_panic", "tf": tf.json(), "p1": [p1.0, p1.1], "p2": [p2.0, p2.1]}))
            });
            nan_line()
        }
    }
}

impl World {
    fn new(tf: Tf, tfi: u64, n: i64, rmax: i64, routes: Option<usize>, acc: &mut Acc) -> World {
        let pts = lattice(n);
        let fpts: Vec<Point> = pts.iter().map(|&p| tf.pt(p)).collect();
        let mut lines = vec![];
        let mut flines = vec![];
        for i in 0..pts.len() {
            for j in 0..pts.len() {
                if i != j {
                    lines.push((i as u32, j as u32));
                    flines.push(build_line(acc, &tf, (tfi, i as u64, j as u64), pts[i], pts[j]));
                }
            }
        }
        World { tf, tfi, pts, fpts, lines, flines, rmax, routes }
    }

    fn run_cl(&self) -> Acc {
        let nc = self.pts.len() * self.rmax as usize;
        let combos = cl_combos();
        (0..nc)
            .into_par_iter()
            .map(|ci| {
                let mut acc = Acc::new();
                let (pi, r) = (ci / self.rmax as usize, (ci % self.rmax as usize) as i64 + 1);
                for (li, &(i, j)) in self.lines.iter().enumerate() {
                    let mut k = ClCase { tf: self.tf, c: self.pts[pi], r, p1: self.pts[i as usize], p2: self.pts[j as usize], pert: 0, rc: 0, rl: 0 };
                    let exact = check_cl(&mut acc, (self.tfi, ci as u64, li as u64), &k, &self.fpts[pi], &self.fpts[i as usize], &self.fpts[j as usize], &self.flines[li]);
                    if self.routes.is_some() {
                        routes_cl(&mut acc, (self.tfi, ci as u64, li as u64), &k, &combos, &self.fpts[pi], &self.fpts[i as usize], &self.fpts[j as usize], &self.flines[li]);
                    }
                    if exact == ClKind::Touch {
                        for pert in 1..PERTS.len() {
                            k.pert = pert;
                            let key = (self.tfi, ci as u64, (li * PERTS.len() + pert) as u64);
                            check_cl_near(&mut acc, key, &k, &self.fpts[pi], &self.fpts[i as usize], &self.fpts[j as usize], &self.flines[li]);
                            if self.routes.is_some() {
                                routes_cl(&mut acc, key, &k, &combos, &self.fpts[pi], &self.fpts[i as usize], &self.fpts[j as usize], &self.flines[li]);
                            }
                        }
                    }
                }
                acc
            })
            .reduce(Acc::new, Acc::merge)
    }

    fn run_cc(&self) -> Acc {
        let nc = self.pts.len() * self.rmax as usize;
        let combos = pair_combos(CIRCLE_ROUTES.len());
        (0..nc)
            .into_par_iter()
            .map(|ai| {
                let mut acc = Acc::new();
                let (pa, ra) = (ai / self.rmax as usize, (ai % self.rmax as usize) as i64 + 1);
                for bi in 0..nc {
                    let (pb, rb) = (bi / self.rmax as usize, (bi % self.rmax as usize) as i64 + 1);
                    let mut k = CcCase { tf: self.tf, a: self.pts[pa], ra, b: self.pts[pb], rb, pert: 0, rta: 0, rtb: 0 };
                    let exact = check_cc(&mut acc, (self.tfi, ai as u64, bi as u64), &k, &self.fpts[pa], &self.fpts[pb]);
                    if self.routes.is_some() {
                        routes_cc(&mut acc, (self.tfi, ai as u64, bi as u64), &k, &combos, &self.fpts[pa], &self.fpts[pb]);
                    }
                    if exact == CcKind::TouchInside || exact == CcKind::TouchOutside {
                        for pert in 1..PERTS.len() {
                            k.pert = pert;
                            let key = (self.tfi, ai as u64, (bi * PERTS.len() + pert) as u64);
                            check_cc_near(&mut acc, key, &k, &self.fpts[pa], &self.fpts[pb]);
                            if self.routes.is_some() {
                                routes_cc(&mut acc, key, &k, &combos, &self.fpts[pa], &self.fpts[pb]);
                            }
                        }
                    }
                }
                acc
            })
            .reduce(Acc::new, Acc::merge)
    }

    /// first line: every ordered pair; second line: every ordered pair whose index is a multiple of `stride`
    fn run_ll(&self, stride: usize) -> Acc {
        let combos = pair_combos(LINE_ROUTES.len());
        (0..self.lines.len())
            .into_par_iter()
            .map(|ui| {
                let mut acc = Acc::new();
                let (i, j) = self.lines[ui];
                let mut vi = 0;
                while vi < self.lines.len() {
                    let (m, n) = self.lines[vi];
                    let k = LlCase { tf: self.tf, p1: self.pts[i as usize], p2: self.pts[j as usize], q1: self.pts[m as usize], q2: self.pts[n as usize], ru: 0, rv: 0 };
                    check_ll(&mut acc, (self.tfi, ui as u64, vi as u64), &k, &self.fpts[i as usize], &self.fpts[j as usize], &self.fpts[m as usize], &self.fpts[n as usize], &self.flines[ui], &self.flines[vi]);
                    if self.routes.is_some_and(|s| (vi / stride) % s == 0) {
                        routes_ll(&mut acc, (self.tfi, ui as u64, vi as u64), &k, &combos, &self.fpts[i as usize], &self.fpts[j as usize], &self.fpts[m as usize], &self.fpts[n as usize], &self.flines[ui], &self.flines[vi]);
                    }
                    vi += stride;
                }
                acc
            })
            .reduce(Acc::new, Acc::merge)
    }

    fn run_pos(&self) -> Acc {
        let nc = self.pts.len() * self.rmax as usize;
        let combos = with_point_combos(CIRCLE_ROUTES.len());
        (0..nc)
            .into_par_iter()
            .map(|ci| {
                let mut acc = Acc::new();
                let (pi, r) = (ci / self.rmax as usize, (ci % self.rmax as usize) as i64 + 1);
                for qi in 0..self.pts.len() {
                    let mut k = PosCase { tf: self.tf, c: self.pts[pi], r, p: self.pts[qi], pert: 0, rc: 0, rp: 0 };
                    let border = check_pos(&mut acc, (self.tfi, ci as u64, qi as u64), &k, &self.fpts[pi], &self.fpts[qi]);
                    if self.routes.is_some() {
                        routes_pos(&mut acc, (self.tfi, ci as u64, qi as u64), &k, &combos, &self.fpts[pi], &self.fpts[qi]);
                    }
                    if border {
                        for pert in 1..PERTS.len() {
                            k.pert = pert;
                            let key = (self.tfi, ci as u64, (qi * PERTS.len() + pert) as u64);
                            check_pos_near(&mut acc, key, &k, &self.fpts[pi], &self.fpts[qi]);
                            if self.routes.is_some() {
                                routes_pos(&mut acc, key, &k, &combos, &self.fpts[pi], &self.fpts[qi]);
                            }
                        }
                    }
                }
                acc
            })
            .reduce(Acc::new, Acc::merge)
    }

    fn run_contains(&self) -> Acc {
        let combos = with_point_combos(LINE_ROUTES.len());
        (0..self.lines.len())
            .into_par_iter()
            .map(|li| {
                let mut acc = Acc::new();
                let (i, j) = self.lines[li];
                for qi in 0..self.pts.len() {
                    let k = ConCase { tf: self.tf, p1: self.pts[i as usize], p2: self.pts[j as usize], q: self.pts[qi], rl: 0, rp: 0 };
                    check_contains(&mut acc, (self.tfi, li as u64, qi as u64), &k, &self.flines[li], &self.fpts[qi]);
                    if self.routes.is_some() {
                        routes_contains(&mut acc, (self.tfi, li as u64, qi as u64), &k, &combos, &self.flines[li], &self.fpts[qi]);
                    }
                }
                acc
            })
            .reduce(Acc::new, Acc::merge)
    }
}

// ------------------------------------------------------------------------------------------------
// the skew plane: nearly axis-parallel lines with well-separated defining points
// ------------------------------------------------------------------------------------------------

/// Integer coordinates in units of 2^-19.  Ordinary lines: through all ordered pairs of distinct points of
/// the lattice [-n,n]^2 scaled by `scale`.  Skew lines: for every i in -n..=n the vertical line of the box
/// through (i,-n) and (i,n) and the horizontal one through (-n,i) and (n,i), with the SECOND point moved
/// sideways by +-2^-e for each exponent e, taken in both orientations.
struct SkewPlane {
    tfi: u64,
    pts: Vec<IP>,
    lines: Vec<(IP, IP)>,
    flines: Vec<Line>,
    /// (first defining point, second defining point, the un-nudged lattice endpoint)
    skew: Vec<(IP, IP, IP)>,
    fskew: Vec<Line>,
}

impl SkewPlane {
    fn new(tfi: u64, n: i64, scale: i64, exps: &[u32], acc: &mut Acc) -> SkewPlane {
        let tf = Tf::BINARY;
        let unit = scale * BIN;
        let pts: Vec<IP> = lattice(n).iter().map(|&(x, y)| (x * unit, y * unit)).collect();
        let mut lines = vec![];
        let mut flines = vec![];
        for i in 0..pts.len() {
            for j in 0..pts.len() {
                if i != j {
                    lines.push((pts[i], pts[j]));
                    flines.push(build_line(acc, &tf, (tfi, i as u64, j as u64), pts[i], pts[j]));
                }
            }
        }
        // mildest first: large nudge, central line, vertical, nudged to the positive side, forward orientation
        let mut order: Vec<i64> = (-n..=n).collect();
        order.sort_by_key(|i| (i.abs(), *i < 0));
        let mut skew = vec![];
        for &e in exps {
            let eps = BIN >> e;
            assert!(eps >= 1, "nudge 2^-{e} is not representable in units of 2^-19");
            for &i in &order {
                for vertical in [true, false] {
                    for sign in [1, -1] {
                        let (a, b, b0) = if vertical { ((i * unit, -n * unit), (i * unit + sign * eps, n * unit), (i * unit, n * unit)) } else { ((-n * unit, i * unit), (n * unit, i * unit + sign * eps), (n * unit, i * unit)) };
                        skew.push((a, b, b0));
                        skew.push((b, a, b0));
                    }
                }
            }
        }
        let fskew = skew.iter().enumerate().map(|(si, &(a, b, _))| build_line(acc, &tf, (tfi, u64::MAX, si as u64), a, b)).collect();
        SkewPlane { tfi, pts, lines, flines, skew, fskew }
    }

    /// every skew line x every ordinary line (both argument orders), x every skew line, contains() of every
    /// lattice point, of its own defining points and of the un-nudged endpoint
    fn run(&self) -> Acc {
        let tf = Tf::BINARY;
        (0..self.skew.len())
            .into_par_iter()
            .map(|si| {
                let mut acc = Acc::new();
                let (s1, s2, s0) = self.skew[si];
                let (f1, f2) = (tf.pt(s1), tf.pt(s2));
                let ls = &self.fskew[si];
                let nl = self.lines.len();
                for (li, &(q1, q2)) in self.lines.iter().enumerate() {
                    let (g1, g2) = (tf.pt(q1), tf.pt(q2));
                    let k = LlCase { tf, p1: s1, p2: s2, q1, q2, ru: 0, rv: 0 };
                    check_ll(&mut acc, (self.tfi, si as u64, 2 * li as u64), &k, &f1, &f2, &g1, &g2, ls, &self.flines[li]);
                    let k = LlCase { tf, p1: q1, p2: q2, q1: s1, q2: s2, ru: 0, rv: 0 };
                    check_ll(&mut acc, (self.tfi, si as u64, 2 * li as u64 + 1), &k, &g1, &g2, &f1, &f2, &self.flines[li], ls);
                }
                for (sj, &(t1, t2, _)) in self.skew.iter().enumerate() {
                    let k = LlCase { tf, p1: s1, p2: s2, q1: t1, q2: t2, ru: 0, rv: 0 };
                    check_ll(&mut acc, (self.tfi, si as u64, (2 * nl + sj) as u64), &k, &f1, &f2, &tf.pt(t1), &tf.pt(t2), ls, &self.fskew[sj]);
                }
                for (qi, &q) in self.pts.iter().chain([s1, s2, s0].iter()).enumerate() {
                    let k = ConCase { tf, p1: s1, p2: s2, q, rl: 0, rp: 0 };
                    check_contains(&mut acc, (self.tfi, si as u64, qi as u64), &k, ls, &tf.pt(q));
                }
                acc
            })
            .reduce(Acc::new, Acc::merge)
    }
}

// ------------------------------------------------------------------------------------------------
// plain re-execution of one recorded case
// ------------------------------------------------------------------------------------------------

fn confirm(v: &Value) -> Result<(), String> {
    let fam = v["family"].as_str().unwrap_or("").to_string();
    if v["case"].as_str() == Some("cc_ratio") {
        let k = RatioCase::from_json(v).ok_or("replay file does not describe a case of the extreme-radius-ratio family")?;
        let mut acc = Acc::new();
        check_cc_ratio(&mut acc, (0, 0, 0), &k);
        return match acc.fails.iter().find(|(f, _)| **f == fam.as_str()) {
            Some((_, (_, viol))) => Err(viol.summary.clone()),
            None => Ok(()),
        };
    }
    if v["case"].as_str() == Some("nu") {
        let k = NuCase::from_json(v).ok_or("replay file does not describe a case of the nearly-normalised-lines family")?;
        let mut acc = Acc::new();
        check_nu(&mut acc, (0, 0, 0), &k);
        return match acc.fails.iter().find(|(f, _)| **f == fam.as_str()) {
            Some((_, (_, viol))) => Err(viol.summary.clone()),
            None => Ok(()),
        };
    }
    if v["case"].as_str() == Some("cc_eq") {
        let k = EqCase::from_json(v).ok_or("replay file does not describe a case of the nearly-equal-radii family")?;
        let mut acc = Acc::new();
        check_cc_eq(&mut acc, (0, 0, 0), &k);
        return match acc.fails.iter().find(|(f, _)| **f == fam.as_str()) {
            Some((_, (_, viol))) => Err(viol.summary.clone()),
            None => Ok(()),
        };
    }
    let tf = Tf::from_json(&v["tf"]);
    let g = |name: &str| -> IP { (v[name][0].as_i64().unwrap(), v[name][1].as_i64().unwrap()) };
    // replay files of the near-boundary family name the radius change; anything else is the plain case
    let pert = v["pert"].as_u64().unwrap_or(0) as usize;
    if pert >= PERTS.len() {
        return Err(format!("replay file names an unknown radius change #{pert}"));
    }
    // construction routes of the operands (absent = the plain constructors); a route family's replay file names
    // the check of the full oracle that failed
    let route = |name: &str, n: usize| -> Result<usize, String> {
        let r = v[name].as_u64().unwrap_or(0) as usize;
        if r < n { Ok(r) } else { Err(format!("replay file names an unknown construction route {name} = {r}")) }
    };
    let fam = if fam.starts_with("route_") { v["inner_family"].as_str().unwrap_or("").to_string() } else { fam };
    let mut acc = Acc::new();
    let key = (0, 0, 0);
    match v["case"].as_str().unwrap_or("") {
        "cl" => {
            let k = ClCase { tf, c: g("c"), r: v["r"].as_i64().unwrap(), p1: g("p1"), p2: g("p2"), pert, rc: route("route_circle", CIRCLE_ROUTES.len())?, rl: route("route_line", LINE_ROUTES.len())? };
            let (fc, fp1, fp2) = (tf.pt(k.c), tf.pt(k.p1), tf.pt(k.p2));
            let fl = make_line(&fp1, &fp2).map_err(|e| format!("Line::between panicked: {e}"))?;
            if pert == 0 {
                check_cl(&mut acc, key, &k, &fc, &fp1, &fp2, &fl);
            } else {
                check_cl_near(&mut acc, key, &k, &fc, &fp1, &fp2, &fl);
            }
        }
        "cc" => {
            let k = CcCase { tf, a: g("a"), ra: v["ra"].as_i64().unwrap(), b: g("b"), rb: v["rb"].as_i64().unwrap(), pert, rta: route("route_a", CIRCLE_ROUTES.len())?, rtb: route("route_b", CIRCLE_ROUTES.len())? };
            if pert == 0 {
                check_cc(&mut acc, key, &k, &tf.pt(k.a), &tf.pt(k.b));
            } else {
                check_cc_near(&mut acc, key, &k, &tf.pt(k.a), &tf.pt(k.b));
            }
        }
        "ll" => {
            let k = LlCase { tf, p1: g("p1"), p2: g("p2"), q1: g("q1"), q2: g("q2"), ru: route("route_l", LINE_ROUTES.len())?, rv: route("route_m", LINE_ROUTES.len())? };
            let (a, b, c, d) = (tf.pt(k.p1), tf.pt(k.p2), tf.pt(k.q1), tf.pt(k.q2));
            let lu = make_line(&a, &b).map_err(|e| format!("Line::between panicked: {e}"))?;
            let lv = make_line(&c, &d).map_err(|e| format!("Line::between panicked: {e}"))?;
            check_ll(&mut acc, key, &k, &a, &b, &c, &d, &lu, &lv);
        }
        "pos" => {
            let k = PosCase { tf, c: g("c"), r: v["r"].as_i64().unwrap(), p: g("p"), pert, rc: route("route_circle", CIRCLE_ROUTES.len())?, rp: route("route_point", POINT_ROUTES.len())? };
            if pert == 0 {
                check_pos(&mut acc, key, &k, &tf.pt(k.c), &tf.pt(k.p));
            } else {
                check_pos_near(&mut acc, key, &k, &tf.pt(k.c), &tf.pt(k.p));
            }
        }
        "contains" => {
            let k = ConCase { tf, p1: g("p1"), p2: g("p2"), q: g("q"), rl: route("route_line", LINE_ROUTES.len())?, rp: route("route_point", POINT_ROUTES.len())? };
            let fl = make_line(&tf.pt(k.p1), &tf.pt(k.p2)).map_err(|e| format!("Line::between panicked: {e}"))?;
            check_contains(&mut acc, key, &k, &fl, &tf.pt(k.q));
        }
        "between" => {
            return match make_line(&tf.pt(g("p1")), &tf.pt(g("p2"))) {
                Ok(_) => Ok(()),
                Err(e) => Err(format!("Line::between panicked: {e}")),
            };
        }
        other => return Err(format!("replay file names an unknown case kind {other:?}")),
    }
    match acc.fails.iter().find(|(f, _)| **f == fam.as_str()) {
        Some((_, (_, viol))) => Err(viol.summary.clone()),
        None => Ok(()),
    }
}

// ------------------------------------------------------------------------------------------------

fn main() {
    let args = Args::parse();
    quiet_panics();
    if args.replay.is_some() {
        Run::replay_main(&args, &confirm);
    }
    let mut run = Run::new(&args, "geometry", "exploration");
    let quick = args.tier == Tier::Quick;

    // ---- bounds -------------------------------------------------------------------------------
    // lattice 1
    let n1: i64 = args.tier.pick(4, 6);
    let r1: i64 = args.tier.pick(6, 8);
    // lattice 2 (pre-image lattice; the image is rotated, shifted by quarters, scaled)
    let n2: i64 = args.tier.pick(4, 6);
    let r2: i64 = args.tier.pick(6, 8);
    let rotations: [(i64, i64, i64); 3] = [(3, 4, 5), (5, 12, 13), (8, 15, 17)];
    let shifts: Vec<(i64, i64)> = args.tier.pick(vec![(1, 3), (2, -5)], vec![(1, 3), (2, -5), (-3, 2)]);
    // second line of a line–line case: every `stride`-th ordered pair (1 = all)
    let ll_stride1: usize = args.tier.pick(1, 1);
    let ll_stride2: usize = args.tier.pick(5, 7);
    // construction routes of a line-line case: on every such-th of the second lines visited
    let ll_route_stride1: usize = args.tier.pick(13, 29);
    let ll_route_stride2: usize = args.tier.pick(3, 7);

    // skew plane: lattice [-ns,ns]^2 scaled by 100 (defining points of a skew line 800 apart), nudges 2^-e
    let ns: i64 = 4;
    let skew_scale: i64 = 100;
    let skew_exps: Vec<u32> = args.tier.pick(vec![7, 13, 19], vec![7, 10, 13, 16, 19]);

    let mut tfs: Vec<(Tf, i64, i64, usize)> = vec![(Tf::ID, n1, r1, ll_stride1)];
    let mut scale_notes = vec![];
    for &(p, q, h) in &rotations {
        for &(tx, ty) in &shifts {
            // largest integer scale keeping every fed coordinate AND every point of every circle within 1e3
            let reach = n2 as f64 * (p + q) as f64 / h as f64 + tx.abs().max(ty.abs()) as f64 / 4.0 + r2 as f64;
            let smax = (COORD_LIMIT / reach).floor() as i64;
            let scales: Vec<i64> = if quick { vec![1, smax] } else { vec![1, 7, smax] };
            for s in scales {
                tfs.push((Tf { p, q, h, tx, ty, s }, n2, r2, ll_stride2));
            }
            scale_notes.push(json!({"rotation": format!("{p}/{h},{q}/{h}"), "shift_quarters": [tx, ty], "max_scale": smax, "max_abs_coordinate_on_circles": reach * smax as f64}));
        }
    }

    let mut total = Acc::new();
    let mut per_tf = vec![];
    for (idx, (tf, n, rmax, stride)) in tfs.iter().enumerate() {
        let mut acc = Acc::new();
        // construction routes: on lattice 1 and on the image of largest scale under the first shift of the first
        // rotation (thorough: of every rotation)
        let routed = tf.is_id() || ((tf.tx, tf.ty) == shifts[0] && tf.s > 7 && (!quick || (tf.p, tf.q, tf.h) == rotations[0]));
        let routes = routed.then_some(if tf.is_id() { ll_route_stride1 } else { ll_route_stride2 });
        let w = World::new(*tf, idx as u64, *n, *rmax, routes, &mut acc);
        let t0 = run.elapsed();
        let mut acc = acc.merge(w.run_cl());
        acc = acc.merge(w.run_cc());
        acc = acc.merge(w.run_ll(*stride));
        acc = acc.merge(w.run_pos());
        acc = acc.merge(w.run_contains());
        per_tf.push(json!({"transform": tf.tag(), "lattice_half_width": n, "max_radius": rmax, "lines": w.lines.len(), "ll_second_line_stride": stride, "construction_routes": routes.map(|s| json!({"circle_line": "all", "circle_circle": "all", "position": "all", "contains": "all", "line_line_every_nth_visited_second_line": s})),
                            "evaluations": acc.get(C::Evals), "exact_cl_touch": acc.get(C::ClTouch), "exact_cc_touch_inside": acc.get(C::CcTouchInside),
                            "exact_cc_touch_outside": acc.get(C::CcTouchOutside), "seconds": ((run.elapsed() - t0) * 100.0).round() / 100.0}));
        total = total.merge(acc);
    }
    let skew_info = {
        let mut acc = Acc::new();
        let t0 = run.elapsed();
        let sp = SkewPlane::new(tfs.len() as u64, ns, skew_scale, &skew_exps, &mut acc);
        let acc = acc.merge(sp.run());
        let info = json!({"unit": "2^-19", "lattice_half_width": ns, "lattice_scale": skew_scale, "defining_points_apart": 2 * ns * skew_scale, "nudges": skew_exps.iter().map(|e| format!("2^-{e}")).collect::<Vec<_>>(),
                          "skew_lines": sp.skew.len(), "ordinary_lines": sp.lines.len(), "sub_sampling": "none: every skew line x every ordinary line in both argument orders, x every skew line",
                          "evaluations": acc.get(C::Evals), "seconds": ((run.elapsed() - t0) * 100.0).round() / 100.0});
        total = total.merge(acc);
        info
    };

    // extreme radius ratios: dyadic radii, centres in quarters (origin, a lattice point, two non-lattice positions)
    let ratio = RatioFamily {
        tfi: tfs.len() as u64 + 1,
        bigs: args.tier.pick(vec![8.0, 50.0, 100.0, 640.0], vec![8.0, 16.0, 50.0, 100.0, 200.0, 400.0, 640.0]),
        smalls: args.tier.pick(vec![2.0, 1.0, 0.5], vec![4.0, 2.0, 1.0, 0.5, 0.25]),
        deltas: args.tier.pick(vec![1e-3, 1e-5, 1e-6, 1e-7, 1e-8], vec![1e-3, 1e-4, 1e-5, 1e-6, 3e-7, 1e-7, 3e-8, 1e-8]),
        centres4: vec![(0, 0), (12, -8), (150, -49), (-481, 1242)],
        dirs: vec![(1, 0, 1), (0, 1, 1), (-1, 0, 1), (0, -1, 1), (3, 4, 5), (-4, 3, 5), (-5, -12, 13), (15, -8, 17), (-7, 24, 25)],
    };
    let ratio_info = {
        let t0 = run.elapsed();
        let acc = ratio.run();
        let fails: BTreeMap<String, u64> = acc.ratio_fails.clone();
        let info = json!({"larger_radii": ratio.bigs, "smaller_radii": ratio.smalls, "deltas": ratio.deltas, "centres_of_larger_circle": ratio.centres4.iter().map(|c| [c.0 as f64 / 4.0, c.1 as f64 / 4.0]).collect::<Vec<_>>(),
                          "directions": ratio.dirs.iter().map(|d| format!("{}/{},{}/{}", d.0, d.2, d.1, d.2)).collect::<Vec<_>>(), "centre_distances": ["R+r-delta (crossing)", "R-r+delta (crossing)", "R+r+delta (separated)", "R-r-delta (nested)"],
                          "pairs": acc.get(C::RatioCcIntersect) + acc.get(C::RatioCcNoneOutside) + acc.get(C::RatioCcNoneInside), "evaluations": acc.get(C::Evals),
                          "min_measured_distance_from_tangency": acc.ratio_gap, "max_relative_disagreement_measured_vs_intended_delta": acc.ratio_gap_rel_err, "max_abs_coordinate_on_circles": acc.ratio_reach,
                          "accepted_answers_max_point_distance_from_a_circle": acc.ratio_max_off, "accepted_answers_min_mutual_distance_of_two_points": if acc.ratio_min_apart.is_finite() { json!(acc.ratio_min_apart) } else { Value::Null },
                          "failing_calls_per_check_radii_distance": fails, "seconds": ((run.elapsed() - t0) * 100.0).round() / 100.0});
        total = total.merge(acc);
        info
    };

    // nearly equal radii / nearly concentric: every number on the 2^-43 grid; generic (non-lattice) radii and centres
    let eqf = EqFamily {
        tfi: tfs.len() as u64 + 2,
        ks: args.tier.pick(vec![7, 10, 13, 16, 20, 23, 26, 30], (7..=EQ_MAX_K).collect()),
        radii: [1.0, 8.5, 98.6, 250.3, 512.9, 731.2, 999.5].iter().map(|r| eq_grid(*r)).collect(),
        centres: [(0.0, 0.0), (3.0, -2.0), (12.7, -8.3), (417.77, -203.21), (-233.1, 260.9), (-480.3, 466.9), (-933.1, 871.9)].iter().map(|c| (eq_grid(c.0), eq_grid(c.1))).collect(),
        dirs: vec![(65, 0), (0, 65), (-65, 0), (0, -65), (39, 52), (-52, 39), (-25, -60), (60, -25), (16, 63), (-63, 16), (-33, -56), (56, -33)],
        deltas: ratio.deltas.clone(),
        ths: vec![0, 1, 4, 16],
    };
    let eq_info = {
        let t0 = run.elapsed();
        let acc = eqf.run();
        let fails: BTreeMap<String, u64> = acc.eq_fails.clone();
        let info = json!({"grid_unit": "2^-43", "g": eqf.ks.iter().map(|k| format!("65*2^-{k}")).collect::<Vec<_>>(), "g_min": EQ_HYP as f64 / (1u64 << eqf.ks.iter().max().unwrap()) as f64, "g_max": EQ_HYP as f64 / (1u64 << eqf.ks.iter().min().unwrap()) as f64,
                          "radii_of_larger_circle": eqf.radii.iter().map(|r| eq_f(*r)).collect::<Vec<_>>(), "centres_of_larger_circle": eqf.centres.iter().map(|c| [eq_f(c.0), eq_f(c.1)]).collect::<Vec<_>>(),
                          "directions_over_65": eqf.dirs.iter().map(|d| [d.0, d.1]).collect::<Vec<_>>(), "deltas_used_when_at_most_half_g": eqf.deltas,
                          "configurations": ["rb = ra-g, d = g (exact internal tangency)", "rb = ra-g, d = g+delta (crossing)", "rb = ra-g, d = g-delta (nested)", "d = g, rb = ra (crossing)", "d = g, rb = ra-g/2 (crossing)", "d = g, rb = ra-2g (nested)", "d = g, rb = ra-8g (nested)"],
                          "pairs": acc.get(C::EqCcTouchInside) + acc.get(C::EqCcIntersect) + acc.get(C::EqCcNoneInside), "pairs_skipped_reaching_beyond_1e3": acc.get(C::EqSkippedReach), "evaluations": acc.get(C::Evals),
                          "min_nonzero_exact_distance_from_tangency": acc.eq_gap, "max_relative_disagreement_exact_vs_intended_distance_from_tangency": acc.eq_gap_rel_err, "max_abs_coordinate_on_circles": acc.eq_reach,
                          "accepted_answers_max_point_distance_from_a_circle": acc.eq_max_off, "accepted_answers_min_mutual_distance_of_two_points": if acc.eq_min_apart.is_finite() { json!(acc.eq_min_apart) } else { Value::Null },
                          "failing_calls_per_check_g_radii_distance": fails, "seconds": ((run.elapsed() - t0) * 100.0).round() / 100.0});
        total = total.merge(acc);
        info
    };

    // nearly normalised lines: raw normal of length 1 + k * 2^-s through both constructors, circles up to the 1e3 box
    let nuf = NuFamily {
        tfi: tfs.len() as u64 + 3,
        exps: args.tier.pick(vec![20, 24, 27, 28, 29, 30, 31, 32, 33, 34, 36, 38], (20..=38).collect()),
        dirs: ratio.dirs.clone(),
        centres4: vec![(0, 0), (49, -34), (-603, 806), (1042, -1199)],
        radii: args.tier.pick(vec![1, 10, 100, 400, 700, 990], vec![1, 3, 10, 30, 100, 200, 400, 550, 700, 850, 990]),
        taus: vec![0, 3, -40],
        deltas: ratio.deltas.clone(),
    };
    let nu_info = {
        let t0 = run.elapsed();
        let acc = nuf.run();
        let lines = nuf.lines();
        let fails: BTreeMap<String, u64> = acc.nu_fails.clone();
        let info = json!({"public_constructors_of_Line": ["Line::new(a, b, c)", "Line::between(&u, &v)"], "each_also_with": "negated coefficients / swapped defining points",
                          "raw_normal": "(p, q) * t / 2^s for the directions (p, q, h) below and the integers t in [2^s/h - 1, 2^s/h + 2] with h t != 2^s; its length is exactly 1 + (h t - 2^s) / 2^s",
                          "exponents_s": nuf.exps, "directions": nuf.dirs.iter().map(|d| format!("{}/{},{}/{}", d.0, d.2, d.1, d.2)).collect::<Vec<_>>(),
                          "line_shapes": lines.len(), "line_shapes_with_raw_normal_length_within_1e-9_of_1": lines.iter().filter(|l| l.in_band()).count(),
                          "raw_normal_length_minus_1_range": [lines.iter().map(|l| l.excess().abs()).fold(f64::INFINITY, f64::min), lines.iter().map(|l| l.excess().abs()).fold(0.0, f64::max)],
                          "centres": nuf.centres4.iter().map(|c| [c.0 as f64 / 4.0, c.1 as f64 / 4.0]).collect::<Vec<_>>(), "aimed_at_radii_rounded_to_multiples_of_h": nuf.radii, "hand_over_point_offsets_along_the_line_in_h": nuf.taus,
                          "radius_changes": {"exact_tangency": 0, "plus_minus_deltas": nuf.deltas, "plus_minus_fractions_of_r": ["1/64", "1/4"]}, "contains_next_to_the_line_offsets": PERTS[1..].to_vec(),
                          "lines_built": acc.get(C::NuLines), "cases_skipped_reaching_beyond_1e3": acc.get(C::NuSkippedReach), "cases_not_formed_inexact_number": acc.get(C::NuNotRepresentable), "evaluations": acc.get(C::Evals),
                          "max_abs_coordinate": acc.nu_reach, "min_measured_distance_of_a_next_to_the_line_point": acc.nu_near_gap,
                          "accepted_answers_max_point_distance_from_circle_or_exact_line": acc.nu_max_off, "max_abs_error_of_Line_dist_at_the_centres_recorded_not_judged": acc.nu_max_dist_err,
                          "failing_calls_per_check_constructor_length": fails, "seconds": ((run.elapsed() - t0) * 100.0).round() / 100.0});
        total = total.merge(acc);
        info
    };

    // ---- evidence -----------------------------------------------------------------------------
    for (i, name) in CNAMES.iter().enumerate() {
        run.cov(name, total.c[i]);
    }
    run.cov("exhaustive", true);
    run.cov(
        "rule",
        "lattice 1: all integer centres in [-N,N]^2 x radii 1..=R, lines through all ordered pairs of distinct lattice points; circle-line = every circle x every line, circle-circle = every ordered pair of circles (both argument orders called), line-line + parallel = every ordered pair of lines, position = every circle x every lattice point, contains = every line x every lattice point. lattice 2: the same enumeration on [-N2,N2]^2 fed through rotation (3/5,4/5),(5/13,12/13),(8/17,15/17), shift by quarters, integer scale (second line of line-line cases restricted to every ll_second_line_stride-th ordered pair). Classes decided exactly in i128 on the pre-image integers. near-boundary family: EVERY exactly tangent circle-line configuration, EVERY exactly tangent ordered circle pair (inside and outside) and EVERY exact border point met by the above, in every lattice image (radii up to ~480), is fed again with one fed radius changed by each of +-1e-8, +-3e-7, +-1e-5; the sign of the change decides the class (secant/miss, crossing/separated/nested, inside/outside), the configuration is |change| away from the boundary; demanded: the kind, every returned point on both primitives within 1e-7, two returned points distinct. skew plane: coordinates in units of 2^-19; every axis-parallel line spanning the scaled lattice box with its second defining point nudged sideways by +-2^-e, both orientations, against every ordinary lattice line in both argument orders and against every skew line (parallel / crossing decided in i128; returned point on both lines within 1e-7 when the exact point is within 1e3), and contains() of all lattice points, the defining points and the un-nudged endpoint. distinct_nontrivial = enumerated configurations (each a distinct input) whose exact class is a contact: circle-line Touch/Intersect, circle-circle Same/TouchInside/TouchOutside/Intersect, non-parallel line pairs, near-boundary secants and crossing circle pairs. extreme radius ratios: every (R, r, delta, centre, direction) of the lists under ratio_family, the smaller circle's centre at distance R+r-delta, R-r+delta (crossing: kind Intersect demanded), R+r+delta, R-r-delta (separated / nested: kind None demanded) from the larger one's along the direction, both argument orders; delta >= 1e-8 = 10x the library tolerance decides the class by its sign; demanded as in the near-boundary family: kind, every returned point on both circles within 1e-7, two returned points distinct. nearly equal radii / nearly concentric: with g = 65*2^-k, every (k, ra, centre, direction/65) of the lists under eq_family (radii and centres are generic 53-bit numbers, every fed number an exact multiple of 2^-43): rb = ra-g with b's centre exactly g from a's along the direction (exact internal tangency: TouchInside demanded) and g+delta / g-delta for every listed delta <= g/2 (crossing: Intersect / nested: None, decided in i128 from the fed numbers), and centre distance exactly g with rb = ra, ra-g/2 (crossing) and ra-2g, ra-8g (nested); pairs with rb < ra/2 are not formed; both argument orders; demanded: kind, every returned point on both circles within 1e-7, two returned points distinct. nearly normalised lines: every line shape of nu_family (both public constructors Line::new and Line::between, both orientations, raw normal (p,q)*t/2^s of exactly known length 1+k*2^-s, |k| < 2h, s around 30, so lengths from 1e-6 down to 4e-12 away from 1 on both sides, every fed number verified to be an exact f64) through every listed hand-over point, against every listed circle placed exactly r = h*rho from the line on either side, with the fed radius r (exact tangency: Touch and the exact tangent point demanded), r+-delta for every delta of the extreme-ratio list and r+-r/64, r+-r/4 (Intersect / None by the sign); demanded: kind, every returned point on the circle and on the EXACT line within 1e-7, two returned points distinct; per line also contains() of exact points of the line (true), of points 1e-8..1e-5 next to it and h off it (false), and parallel / intersect_ll in both argument orders with the perpendicular through the hand-over point (that point within 1e-7) and with a parallel copy (parallel, no point). iterator protocol: EVERY result of intersect_cl / intersect_cc judged by any family (iter_results_put_through_the_iterator_protocol of them; none / one / two points counted separately) is consumed through its IntoIterator impl in every std way - for loop, next + size_hint, collect, extend, partition, count, last, nth(k) + rest, fold, for_each, reduce, find, position, all, any, max_by, min_by, skip(k), take(k), step_by, chain, zip, enumerate, peekable, fuse, filter + map, by_ref().take; with DoubleEndedIterator: next_back + size_hint, rev, rfold, rfind, nth_back(k) + rest, rev().nth/last/count/fold, j x next then alternating next_back / next in both phases; with ExactSizeIterator: len between calls, rposition; FusedIterator: None stays None; Clone: original and clone from every position, cycle; by reference if &T: IntoIterator (which of these groups the library's iterator type offers is detected at compile time, iter_ways_run_* count them); every way is run on every result of lattice 1, of the near-boundary companions, of the extreme-ratio and nearly-equal-radii families and on EVERY one-point result anywhere; the no-point and two-point results of the lattice-1 images under lattice 2 and of the nearly-normalised-lines family get the methods an iterator type implements itself (for loop, next + size_hint, count, last, nth(k) + rest, fold, next_back + size_hint, nth_back(k) + rest, rfold, mixed-end pulling, len) - and the points handed out must be the variant's points (draining ways: as a multiset; picking ways: a point of the variant, Some exactly when enough points exist; counting ways: their number; size_hint: lower <= left <= upper). construction routes: EVERY circle-line, circle-circle, position and contains configuration of lattice 1 and of the largest-scale image under the first shift of the first rotation (thorough tier: of each rotation; per_transform says which images) - the near-boundary companions included - and the line-line configurations of those images whose second line is every n-th visited one (n under per_transform) are run again with their operands arrived at by every other public route to the same value, listed under construction_routes (Default::default() + assignment of the public fields in either order, the constructor with other values + assignment of one or all public fields, in-place arithmetic on the public radius, assignment of the centre's own public fields, Copy / Clone of such an object, the other Line constructor, points built by default + assignment; no struct literal anywhere): every non-plain route of one operand with the other plain, and both operands by the route of equal index; a result that is bit-for-bit the plain-route result of the same configuration shares its verdict, any other result goes through the same oracle in full (route_results_differing_in_bits_judged_by_the_full_oracle) and a failure is reported under route_cl / route_cc / route_ll / route_position / route_contains",
    );
    run.cov("lattice1", json!({"half_width": n1, "max_radius": r1}));
    run.cov("lattice2", json!({"half_width": n2, "max_radius": r2, "rotations": ["3/5,4/5", "5/13,12/13", "8/17,15/17"], "shifts_in_quarters": shifts, "scales": scale_notes}));
    run.cov("per_transform", per_tf);
    run.cov("near_boundary_radius_changes", PERTS[1..].to_vec());
    run.cov("skew_plane", skew_info);
    run.cov("ratio_family", ratio_info);
    run.cov("eq_family", eq_info);
    run.cov("nu_family", nu_info);
    run.cov("construction_routes", json!({"circle": CIRCLE_ROUTES, "line": LINE_ROUTES, "point": POINT_ROUTES,
        "combinations": {"circle_line": cl_combos().len(), "circle_circle": pair_combos(CIRCLE_ROUTES.len()).len(), "line_line": pair_combos(LINE_ROUTES.len()).len(), "position": with_point_combos(CIRCLE_ROUTES.len()).len(), "contains": with_point_combos(LINE_ROUTES.len()).len()},
        "note": "in every route, `=` assigns the public field; c, r / a, b, c / x, y are the values of the judged configuration, so every route ends with the same public field values as the plain constructor (line routes 5-7: the same line within rounding)"}));
    run.cov(
        "skew_plane_min_nonzero_boundary_gap",
        json!({"parallel_sine": total.gap_skew_parallel, "contains_abs": total.gap_skew_contains, "note": "exact, from the integer coordinates; library EPS = 1e-9, required > 2e-9"}),
    );
    run.cov("point_tolerance", TOL);
    run.cov("max_accepted_deviation_from_exact_points", total.max_dev);
    let gaps = [("circle_line_abs", total.gap_cl), ("circle_circle_abs", total.gap_cc), ("position_relative", total.gap_pos_rel), ("contains_abs", total.gap_contains), ("parallel_sine", total.gap_parallel)];
    let min_gap = gaps.iter().map(|g| g.1).fold(f64::INFINITY, f64::min);
    run.cov(
        "min_nonzero_boundary_gap",
        json!({"overall": min_gap, "circle_line_abs": total.gap_cl, "circle_circle_abs": total.gap_cc, "position_relative": total.gap_pos_rel, "contains_abs": total.gap_contains, "parallel_sine": total.gap_parallel,
               "note": "measured on the pre-image integers of lattice 1 (lattice 2 is a sub-lattice scaled by >= 1, so its absolute gaps are at least these; relative ones are equal); library EPS = 1e-9, required > 1e-6"}),
    );
    let fc: BTreeMap<String, u64> = total.fail_counts.iter().map(|(k, v)| (k.to_string(), *v)).collect();
    run.cov("failing_cases_per_family", json!(fc));
    run.assume("tangent / identical / border configurations of lattice 2 are fed as f64 images that differ from the exact configuration by rounding (~1e-13 at magnitude 1e3), far inside the library's own 1e-9 tolerance, so the exact class is still demanded");
    run.assume("near-boundary family: the tangent configuration is fed with rounding of ~1e-13 (lattice 1: none), so after a radius change of magnitude >= 1e-8 the fed configuration is that far (+-1e-12) from the boundary and on the side given by the sign of the change; the property excludes only configurations within 1e-9 (position: within 1e-9 of the radius, relatively - such changes are skipped and counted)");
    run.assume("extreme-radius-ratio family: radii and the larger circle's centre are dyadic (exact); the smaller circle's centre is computed in f64 (direction cosines p/h, q/h, one multiplication and one addition per coordinate), so the fed centre distance differs from the intended R+-r+-delta by rounding of ~1e-13; the engine measures it (min_measured_distance_from_tangency) and refuses to run if it disagrees with the intended delta by more than 0.1 %, so every fed pair is >= 0.999e-8 from the tangency boundary on the side given by the sign of delta; all points of all circles have |coordinate| <= 1e3 (checked)");
    run.assume("nearly-equal-radii family: centres, radii and centre offsets are integers in units of 2^-43 below 2^53, so each f64 handed to the library is exactly that number (converted back and compared for every pair); tangent / crossing / nested is decided by comparing the squared centre distance with (ra-rb)^2 in i128 on those integers, and the distance from tangency is computed from the same integers: 0 for the tangent pairs (offset = direction * 2^-k exactly), otherwise >= 0.999e-8 = 10x the library tolerance and within 0.1 % of the intended g(1-th/2)+-delta (the engine refuses to run otherwise); all points of both circles have |coordinate| <= 1e3 (other pairs are skipped and counted); for two almost coincident circles the position of a point ALONG them is not determined to 1e-7 by the data and is not compared");
    run.assume("nearly-normalised-lines family: coefficients / defining points are dyadic rationals n/2^(s+2) whose integer numerators are checked to convert to f64 and back without change (members with an inexact number are not formed and counted), so the fed line IS p(x-x1)+q(y-y1)=0 and the raw normal's length IS 1+k/2^s; the circle's centre (quarters) is exactly r = h*rho from that line (asserted in integers); the fed radius r+dr is formed in f64 and dr re-measured exactly, |dr| >= 1e-8 = 10x the library tolerance decides the class by its sign; distances of returned points from the line are measured against the exact line, never the library's coefficients; points 'next to the line' are computed in f64 and their distance from the exact line is re-measured (min_measured_distance_of_a_next_to_the_line_point, required > 2e-9); all points of all circles and all defining points have |coordinate| <= 1e3 (other members are skipped and counted); the value of Line::dist is recorded but not judged (the property speaks of point-on-line tests, i.e. contains)");
    run.assume("construction routes: the property quantifies over circle / line / point values; an object whose public fields were assigned is the value its public fields say, whatever constructor it started from (only bit-difference from the plain-route result triggers the full oracle, never a violation by itself); line routes that re-normalise an already normalised normal may change a, b in the last bit, which moves no point by more than ~1e-13 within the 1e3 box");
    run.assume("iterator protocol: the order in which a result hands out its two points is not part of the property and is not demanded; CircleLineIntersection is not Clone, so an equal value is put together from its public variants for each way of consuming (CircleIntersection is Copy)");
    run.assume("near-boundary and skew families demand what the property states of a returned point (on both primitives within 1e-7) and not its position along two almost coincident directions, which the data do not determine to 1e-7");
    run.assume("the 1e-7 accuracy clause is applied only where all coordinates involved are <= 1e3 (line-line intersection points beyond that are counted in skipped_out_of_domain; their kind is still checked)");

    // samples: a fixed set of categories; VERIF_SEED only rotates their order
    let notes: Vec<(&&str, &(Key, Value))> = total.notes.iter().collect();
    if !notes.is_empty() {
        let off = (args.seed as usize) % notes.len();
        for i in 0..notes.len() {
            let (cat, (_, v)) = notes[(i + off) % notes.len()];
            run.sample(json!({"category": cat, "case": v}));
        }
    }

    // ---- self-checks (machinery) --------------------------------------------------------------
    for (name, g) in gaps {
        if !(g > GAP_FLOOR) || !g.is_finite() {
            run.machinery_failure(&format!("boundary gap {name} = {g:?} is not > 1e-6: the lattice contains configurations inside the excluded tolerance band"));
        }
    }
    for (name, g) in [("skew parallel_sine", total.gap_skew_parallel), ("skew contains_abs", total.gap_skew_contains)] {
        if !(g > NEAR_FLOOR) || !g.is_finite() {
            run.machinery_failure(&format!("boundary gap {name} = {g:?} is not > 2e-9: the skew plane contains configurations inside the excluded tolerance band"));
        }
    }
    if !(total.ratio_gap_rel_err <= RATIO_GAP_REL) || !(total.ratio_gap >= RATIO_FLOOR * (1.0 - RATIO_GAP_REL)) {
        run.machinery_failure(&format!("extreme-radius-ratio family: fed centre distances do not reproduce the intended deltas (min measured distance from tangency {:?}, max relative disagreement {:?})", total.ratio_gap, total.ratio_gap_rel_err));
    }
    if !(total.ratio_reach <= COORD_LIMIT) {
        run.machinery_failure(&format!("extreme-radius-ratio family: a fed circle reaches |coordinate| {:?} > 1e3", total.ratio_reach));
    }
    if !(total.eq_gap_rel_err <= RATIO_GAP_REL) || !(total.eq_gap >= RATIO_FLOOR * (1.0 - RATIO_GAP_REL)) {
        run.machinery_failure(&format!("nearly-equal-radii family: fed centre distances do not reproduce the intended distances from tangency (min non-zero exact distance {:?}, max relative disagreement {:?})", total.eq_gap, total.eq_gap_rel_err));
    }
    if !(total.eq_reach <= COORD_LIMIT) {
        run.machinery_failure(&format!("nearly-equal-radii family: a fed circle reaches |coordinate| {:?} > 1e3", total.eq_reach));
    }
    if !(total.nu_reach <= COORD_LIMIT) || !(total.nu_near_gap > NEAR_FLOOR) {
        run.machinery_failure(&format!("nearly-normalised-lines family: a fed object reaches |coordinate| {:?} > 1e3, or a point 'next to the line' is only {:?} from it", total.nu_reach, total.nu_near_gap));
    }
    if total.get(C::IterResults) == 0 || total.get(C::IterWaysForward) < 8 * total.get(C::IterResultsAgreed) {
        run.machinery_failure("non-vacuity: the iterator protocol ran fewer than 8 ways of consuming per judged result");
    }
    if !PERTS[1..].iter().all(|d| d.abs() > NEAR_FLOOR) {
        run.machinery_failure("a near-boundary radius change is inside the excluded tolerance band");
    }
    let need = [
        (C::NearClIntersect, "near-tangent secants"),
        (C::NearClNone, "near-tangent missing lines"),
        (C::NearCcIntersect, "near-tangent crossing circles"),
        (C::NearCcNoneOutside, "near-tangent separated circles"),
        (C::NearCcNoneInside, "near-tangent nested circles"),
        (C::NearPosInside, "points just inside a circle"),
        (C::NearPosOutside, "points just outside a circle"),
        (C::NearLargeRadiusInRelBand, "near-tangent cases whose distance from tangency is below radius * 1e-9"),
        (C::RatioCcIntersect, "crossing pairs with an extreme radius ratio"),
        (C::RatioCcNoneOutside, "separated pairs with an extreme radius ratio"),
        (C::RatioCcNoneInside, "nested pairs with an extreme radius ratio"),
        (C::EqCcTouchInside, "exact internal tangencies of nearly equal circles"),
        (C::EqCcTouchInsideFarCentre, "exact internal tangencies of nearly equal circles centred beyond |coordinate| 100"),
        (C::EqCcIntersect, "crossing nearly equal circles"),
        (C::EqCcIntersectConcentric, "crossing nearly concentric circles"),
        (C::EqCcNoneInside, "nested nearly equal circles"),
        (C::EqCcNoneInsideConcentric, "nested nearly concentric circles"),
        (C::EqObsTouchInside, "TouchInside answers for nearly equal circles"),
        (C::IterOnePoint, "one-point results put through the iterator protocol"),
        (C::IterTwoPoints, "two-point results put through the iterator protocol"),
        (C::IterNoPoint, "empty results put through the iterator protocol"),
        (C::NuLinesInBand, "lines whose raw normal length is within 1e-9 of 1"),
        (C::NuClTouch, "exact tangencies with nearly normalised lines"),
        (C::NuClTouchFarInBand, "exact tangencies 500 or more away from a line whose raw normal length is within 1e-9 of 1"),
        (C::NuClIntersect, "secants among the nearly normalised lines"),
        (C::NuClNone, "misses among the nearly normalised lines"),
        (C::NuObsTouch, "Touch answers for nearly normalised lines"),
        (C::NuContainsOn, "points on nearly normalised lines"),
        (C::NuContainsOff, "points off nearly normalised lines"),
        (C::NuLlPoint, "crossings with nearly normalised lines"),
        (C::NuLlParallel, "parallel copies of nearly normalised lines"),
        (C::RouteBitIdentical, "results of other construction routes"),
        (C::RouteClNone, "circle-line misses run through the construction routes"),
        (C::RouteClTouch, "circle-line tangencies run through the construction routes"),
        (C::RouteClIntersect, "circle-line secants run through the construction routes"),
        (C::RouteCcNone, "disjoint circle pairs run through the construction routes"),
        (C::RouteCcSame, "identical circles run through the construction routes"),
        (C::RouteCcTouch, "tangent circle pairs run through the construction routes"),
        (C::RouteCcIntersect, "crossing circle pairs run through the construction routes"),
        (C::RouteLlParallel, "parallel line pairs run through the construction routes"),
        (C::RouteLlPoint, "crossing line pairs run through the construction routes"),
        (C::RoutePos, "position configurations run through the construction routes"),
        (C::RouteContains, "contains configurations run through the construction routes"),
        (C::SkewLlParallel, "parallel pairs in the skew plane"),
        (C::SkewLlPointChecked, "skew-plane crossings within 1e3"),
        (C::SkewLlSteepFirst, "skew-plane crossings whose first line has a minor coefficient below 1e-6"),
        (C::SkewContainsOn, "points on skew lines"),
        (C::SkewContainsOff, "points off skew lines"),
        (C::ClTouchNonAxis, "non-axis-aligned circle-line tangencies"),
        (C::CcTouchInsideNonAxis, "non-axis-aligned inside circle-circle tangencies"),
        (C::CcTouchOutsideNonAxis, "non-axis-aligned outside circle-circle tangencies"),
        (C::ClIntersect, "circle-line two-point cases"),
        (C::ClNone, "circle-line empty cases"),
        (C::CcSame, "identical circles"),
        (C::CcNoneInside, "nested disjoint circles"),
        (C::CcNoneOutside, "separated circles"),
        (C::CcIntersect, "crossing circles"),
        (C::LlParallel, "parallel line pairs"),
        (C::LlPoint, "crossing line pairs"),
        (C::PosBorderOffAxis, "off-axis border points"),
        (C::PosInside, "inside points"),
        (C::PosOutside, "outside points"),
        (C::ContainsOn, "points on lines"),
        (C::ContainsOff, "points off lines"),
    ];
    // (no demand on how many route results differ in bits from the plain route: that depends on rounding
    // details of the implementation, e.g. whether `Line::new` re-normalises an already unit normal)
    for (c, what) in need {
        // recorded violations are reported first: a defect may empty a class (a kind that is never answered)
        if total.get(c) == 0 && total.fails.is_empty() {
            run.machinery_failure(&format!("non-vacuity: the enumeration contains no {what}"));
        }
    }
    if total.get(C::LlPoint) == total.get(C::LlPointFar) && total.fails.is_empty() {
        run.machinery_failure("non-vacuity: every line-line point was beyond 1e3");
    }

    for (_, (_, v)) in std::mem::take(&mut total.fails) {
        run.violation(v);
    }
    run.finish(&confirm)
}
