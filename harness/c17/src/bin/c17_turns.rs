//! One coarse-grained schedule of the C17 "turns" pass, on the real crate and real threads.
//!
//! usage: c17_turns <prelude> <word> <sizes>      e.g.  c17_turns 12 121221 3,4500,40
//!
//! Threads are numbered 1..=T (T = number of distinct digits in <prelude>).  First, in the order given by
//! <prelude>, every thread creates ONE node (whatever the library sets up per thread at a thread's first node
//! creation is set up in that fixed order).  Then the threads take turns as <word> says: each letter lets that
//! thread run its next BATCH (append `sizes[i]` nodes to a treap only it owns, then remove one from the
//! middle and split / merge once) while all other threads wait.  A thread that does not occur in <word> does
//! nothing after its prelude node.  A turn is handed over under a mutex + condvar, so the order of batches is
//! exactly <word> on every run; the process is fresh, so process-wide state starts from scratch.
//!
//! Output: one line `RESULT <json>` with, per thread, what its treap looks like at the end (priorities in
//! in-order and in creation order, shape, contents) — to be compared, by the orchestrator, with the same
//! thread's result in the run where it is the only thread that takes turns.

use rlib_treap::{Treap, TreapItem, TreapItemSized, TreapNode};
use std::sync::{Arc, Condvar, Mutex};

struct It {
    val: u32,
    size: usize,
}

impl TreapItem for It {
    fn update(&mut self, l: Option<&Self>, r: Option<&Self>) {
        self.size = 1 + l.map_or(0, |x| x.size) + r.map_or(0, |x| x.size);
    }
}

impl TreapItemSized for It {
    fn size(&self) -> usize {
        self.size
    }
}

fn fnv(h: &mut u64, x: u64) {
    for b in x.to_le_bytes() {
        *h ^= b as u64;
        *h = h.wrapping_mul(0x100_0000_01b3);
    }
}

/// in-order (value, priority) pairs and a hash of the shape (pre-order with end markers), iteratively: a
/// broken treap may be as deep as it is large
fn describe(root: &Option<Box<TreapNode<It>>>) -> (Vec<(u32, u32)>, u64, usize) {
    let mut inorder = vec![];
    let mut shape = 0xcbf2_9ce4_8422_2325u64;
    let mut depth_max = 0usize;
    // explicit stack of (node, state, depth)
    let mut stack: Vec<(&TreapNode<It>, u8, usize)> = vec![];
    if let Some(r) = root {
        stack.push((r, 0, 1));
    }
    while let Some((n, st, d)) = stack.pop() {
        depth_max = depth_max.max(d);
        match st {
            0 => {
                fnv(&mut shape, n.item.val as u64 + 1);
                stack.push((n, 1, d));
                if let Some(l) = &n.left {
                    stack.push((l, 0, d + 1));
                }
            }
            1 => {
                fnv(&mut shape, 0);
                inorder.push((n.item.val, n.priority));
                if let Some(r) = &n.right {
                    stack.push((r, 0, d + 1));
                }
            }
            _ => unreachable!(),
        }
    }
    (inorder, shape, depth_max)
}

fn main() {
    let a: Vec<String> = std::env::args().collect();
    if a.len() != 4 {
        eprintln!("usage: c17_turns <prelude> <word> <sizes,comma separated>");
        std::process::exit(2);
    }
    let prelude: Vec<usize> = a[1].bytes().map(|b| (b - b'0') as usize).collect();
    let word: Vec<usize> = a[2].bytes().map(|b| (b - b'0') as usize).collect();
    let sizes: Vec<usize> = a[3].split(',').map(|s| s.parse().expect("size")).collect();
    let t_count = prelude.len();
    // the global order of turns: prelude turns first, then the word
    let order: Arc<Vec<usize>> = Arc::new(prelude.iter().chain(word.iter()).copied().collect());
    let turn = Arc::new((Mutex::new(0usize), Condvar::new()));
    let mut hs = vec![];
    for t in 1..=t_count {
        let order = order.clone();
        let turn = turn.clone();
        let sizes = sizes.clone();
        let my_turns = order.iter().filter(|&&x| x == t).count();
        hs.push(
            std::thread::Builder::new()
                .stack_size(256 << 20)
                .spawn(move || {
                    let res = std::panic::catch_unwind(std::panic::AssertUnwindSafe(|| {
                        let mut tr: Treap<It> = Treap::new();
                        let mut created: Vec<u32> = vec![];
                        let mut next_val = t as u32 * 1_000_000;
                        for k in 0..my_turns {
                            // wait for my turn
                            {
                                let (m, cv) = &*turn;
                                let mut g = m.lock().unwrap_or_else(|e| e.into_inner());
                                while *g < order.len() && order[*g] != t {
                                    g = cv.wait(g).unwrap_or_else(|e| e.into_inner());
                                }
                            }
                            let body = std::panic::catch_unwind(std::panic::AssertUnwindSafe(|| {
                                if k == 0 {
                                    // prelude: one node
                                    let n = Treap::from_item(It { val: next_val, size: 1 });
                                    created.push(n.root.as_ref().unwrap().priority);
                                    next_val += 1;
                                    let old = std::mem::replace(&mut tr, Treap::new());
                                    tr = Treap::merge(old, n);
                                } else {
                                    let b = sizes[(k - 1) % sizes.len()];
                                    for _ in 0..b {
                                        let n = Treap::from_item(It { val: next_val, size: 1 });
                                        created.push(n.root.as_ref().unwrap().priority);
                                        next_val += 1;
                                        let old = std::mem::replace(&mut tr, Treap::new());
                                        tr = Treap::merge(old, n);
                                    }
                                    // one removal from the middle and one split / merge per batch
                                    let s = tr.size();
                                    if s > 2 {
                                        let _ = tr.remove_at(s / 2);
                                        let old = std::mem::replace(&mut tr, Treap::new());
                                        let (x, y) = old.split_at(s / 3);
                                        tr = Treap::merge(x, y);
                                    }
                                }
                            }));
                            // hand the turn on, also when the batch panicked (the others must not wait forever)
                            {
                                let (m, cv) = &*turn;
                                let mut g = m.lock().unwrap_or_else(|e| e.into_inner());
                                *g += 1;
                                cv.notify_all();
                            }
                            if let Err(p) = body {
                                std::panic::resume_unwind(p);
                            }
                        }
                        let (inorder, shape, depth) = describe(&tr.root);
                        let size = tr.size();
                        (created, inorder, shape, depth, size)
                    }));
                    match res {
                        Ok(r) => Ok(r),
                        Err(p) => {
                            // make sure nobody waits for turns this thread will not take any more
                            let (m, cv) = &*turn;
                            let mut g = m.lock().unwrap_or_else(|e| e.into_inner());
                            *g = usize::MAX / 2;
                            cv.notify_all();
                            Err(p.downcast_ref::<String>().cloned().or_else(|| p.downcast_ref::<&str>().map(|s| s.to_string())).unwrap_or_else(|| "panic".into()))
                        }
                    }
                })
                .unwrap(),
        );
    }
    let mut out = vec![];
    for h in hs {
        match h.join().unwrap() {
            Ok((created, inorder, shape, depth, size)) => {
                let mut hc = 0xcbf2_9ce4_8422_2325u64;
                for p in &created {
                    fnv(&mut hc, *p as u64);
                }
                let mut hi = 0xcbf2_9ce4_8422_2325u64;
                let mut hv = 0xcbf2_9ce4_8422_2325u64;
                for (v, p) in &inorder {
                    fnv(&mut hi, *v as u64);
                    fnv(&mut hi, *p as u64);
                    fnv(&mut hv, *v as u64);
                }
                out.push(format!(
                    "{{\"created\":{},\"created_hash\":\"{:016x}\",\"created_head\":{:?},\"first_difference_probe\":{:?},\"inorder_hash\":\"{:016x}\",\"values_hash\":\"{:016x}\",\"shape_hash\":\"{:016x}\",\"depth\":{},\"size\":{},\"nodes\":{},\"panicked\":null}}",
                    created.len(),
                    hc,
                    &created[..created.len().min(4)],
                    created.iter().step_by(97).take(64).collect::<Vec<_>>(),
                    hi,
                    hv,
                    shape,
                    depth,
                    size,
                    inorder.len()
                ));
            }
            Err(m) => out.push(format!("{{\"panicked\":{:?}}}", m)),
        }
    }
    println!("RESULT [{}]", out.join(","));
}
