//! C17 — orchestrates the two passes of /verif/harness-loom:
//!  * loom pass: the treap crate's own source (copied with its shared state rerouted to loom) explored
//!    under DPOR with a preemption bound; outcomes of unserialised executions must be among the
//!    outcomes of serialised ones, treap results must equal the solo run;
//!  * Miri pass: the same bodies free-running on real threads and the real crate; Miri's race detector
//!    reports unsynchronised accesses that a cooperative scheduler cannot see (`static mut`).

use std::process::Command;
use vcore::*;

const LOOM_WS: &str = "harness-loom";

fn root() -> std::path::PathBuf {
    std::path::PathBuf::from(std::env::var("VERIF_ROOT").unwrap_or_else(|_| "/verif".into()))
}

fn sh(cmd: &mut Command) -> (i32, String, String) {
    match cmd.output() {
        Ok(o) => (o.status.code().unwrap_or(-1), String::from_utf8_lossy(&o.stdout).into_owned(), String::from_utf8_lossy(&o.stderr).into_owned()),
        Err(e) => (-2, String::new(), format!("spawn failed: {e}")),
    }
}

fn normalise(line: &str) -> String {
    // drop allocation ids, addresses and thread ids so the signature is stable
    let mut out = String::new();
    let mut chars = line.chars().peekable();
    while let Some(c) = chars.next() {
        if c.is_ascii_digit() {
            while chars.peek().map_or(false, |d| d.is_ascii_alphanumeric()) {
                chars.next();
            }
            out.push('#');
        } else {
            out.push(c);
        }
    }
    out
}

struct MiriOut {
    ub: Option<(String, String)>,
    outcome: Option<Value>,
    solo: Option<Vec<u64>>,
    results_ok: Option<String>,
    raw_tail: String,
}

fn miri_pass(threads: u32, k: usize) -> Result<MiriOut, String> {
    let ws = root().join(LOOM_WS);
    // wall cap: an interpreter run that does not end (a spin loop that never gets its turn) is a machinery
    // failure, never a verdict and never a hang
    let (code, out, err) = sh(Command::new("timeout")
        .current_dir(&ws)
        .env("MIRIFLAGS", "-Zmiri-ignore-leaks -Zmiri-disable-isolation")
        .args(["-k", "10", "600", "cargo", "+nightly", "miri", "run", "--offline", "-q", "-p", "miri_pass", "--", &threads.to_string(), &k.to_string()]));
    if code == 124 || code == 137 {
        return Err(format!("cargo miri run (threads={threads}, creations={k}) did not end within 600 s and was killed"));
    }
    let tail: String = err.lines().rev().take(40).collect::<Vec<_>>().into_iter().rev().collect::<Vec<_>>().join("\n");
    let mut mo = MiriOut { ub: None, outcome: None, solo: None, results_ok: None, raw_tail: tail.clone() };
    if let Some(l) = err.lines().find(|l| l.contains("Undefined Behavior")) {
        // first frame of the backtrace names the racing function
        let frame = err.lines().skip_while(|l| !l.contains("stack backtrace")).nth(1).unwrap_or("").trim().to_string();
        let frame = frame.trim_start_matches("0: ").to_string();
        mo.ub = Some((l.trim().to_string(), frame));
        return Ok(mo);
    }
    if code != 0 {
        return Err(format!("cargo miri run exited {code} without reporting Undefined Behavior:\n{tail}"));
    }
    for l in out.lines() {
        if let Some(r) = l.strip_prefix("OUTCOME ") {
            mo.outcome = serde_json::from_str(r).ok();
        } else if let Some(r) = l.strip_prefix("SOLO ") {
            mo.solo = serde_json::from_str(r).ok();
        } else if let Some(r) = l.strip_prefix("RESULTS ") {
            mo.results_ok = Some(r.to_string());
        }
    }
    if mo.outcome.is_none() || mo.solo.is_none() {
        return Err(format!("miri pass printed no outcome:\n{out}\n{tail}"));
    }
    Ok(mo)
}

/// streams pairwise disjoint (a shared generator handing out distinct draws) or each equal to the stream
/// a thread gets alone (a per-thread generator)
fn stream_rule(outcome: &Value, solo: &[u64]) -> Result<(), String> {
    let ts = outcome["threads"].as_array().cloned().unwrap_or_default();
    let streams: Vec<Vec<u64>> = ts.iter().map(|t| t["prios"].as_array().unwrap().iter().map(|x| x.as_u64().unwrap()).collect()).collect();
    let all_solo = streams.iter().all(|s| s == solo);
    let mut seen = std::collections::BTreeSet::new();
    let mut disjoint = true;
    for s in &streams {
        for p in s {
            if !seen.insert(*p) {
                disjoint = false;
            }
        }
    }
    if all_solo || disjoint {
        Ok(())
    } else {
        Err(format!("per-thread priority streams {:?} are neither pairwise disjoint nor each equal to the solo stream {:?}: a draw was duplicated through interference", streams, solo))
    }
}

struct LoomOut {
    serial_execs: u64,
    serial_outcomes: u64,
    par_execs: u64,
    par_outcomes: u64,
    main_values: u64,
    has_static_mut: bool,
    rewrites: String,
    samples: Vec<Value>,
    bad: Vec<String>,
    aborted: Option<String>,
    /// explorations that hit the wall-time cap (what they covered until then still counts)
    capped: String,
}

fn loom_pass(profile: &str, threads: u32, k: usize, bound: usize, cap_s: u64, tall: usize) -> Result<LoomOut, String> {
    loom_pass_mode(profile, threads, k, bound, cap_s, tall, false)
}

/// `no_prios`: outcome sets are compared without the priority values (generator seeded from outside the program)
fn loom_pass_mode(profile: &str, threads: u32, k: usize, bound: usize, cap_s: u64, tall: usize, no_prios: bool) -> Result<LoomOut, String> {
    let ws = root().join(LOOM_WS);
    let bin = ws.join(format!("target/{profile}/loom_pass"));
    let (code, out, err) = sh(Command::new(&bin).env("C17_NO_PRIOS", if no_prios { "1" } else { "0" }).args([threads.to_string(), k.to_string(), bound.to_string(), cap_s.to_string(), tall.to_string()]));
    let mut lo = LoomOut { serial_execs: 0, serial_outcomes: 0, par_execs: 0, par_outcomes: 0, main_values: 0, has_static_mut: false, rewrites: String::new(), samples: vec![], bad: vec![], aborted: None, capped: String::new() };
    let num = |l: &str, key: &str| -> u64 { l.split_whitespace().find_map(|t| t.strip_prefix(key)).and_then(|v| v.parse().ok()).unwrap_or(0) };
    let mut done = false;
    for l in out.lines() {
        if let Some(r) = l.strip_prefix("REWRITES ") {
            lo.rewrites = r.to_string();
        } else if let Some(r) = l.strip_prefix("HAS_STATIC_MUT ") {
            lo.has_static_mut = r.trim() == "true";
        } else if l.starts_with("SERIAL ") {
            lo.serial_execs = num(l, "executions=");
            lo.serial_outcomes = num(l, "outcomes=");
        } else if l.starts_with("PARALLEL ") {
            lo.par_execs = num(l, "executions=");
            lo.par_outcomes = num(l, "outcomes=");
        } else if l.starts_with("TALL ") {
            lo.serial_execs += num(l, "serial_executions=");
            lo.par_execs += num(l, "executions=");
            lo.par_outcomes += num(l, "outcomes=");
        } else if l.starts_with("COLD ") {
            lo.serial_execs += num(l, "serial_executions=");
            lo.par_execs += num(l, "executions=");
            lo.par_outcomes += num(l, "outcomes=");
        } else if let Some(r) = l.strip_prefix("MAIN_DRAW_VALUES ") {
            lo.main_values = r.trim().parse().unwrap_or(0);
        } else if let Some(r) = l.strip_prefix("SAMPLE ") {
            if let Ok(v) = serde_json::from_str(r) {
                lo.samples.push(v);
            }
        } else if l.starts_with("BAD_RESULTS ") || l.starts_with("NOT_SERIALISABLE ") {
            lo.bad.push(l.to_string());
        } else if let Some(r) = l.strip_prefix("CAPPED ") {
            if !r.starts_with("[]") {
                lo.capped = r.to_string();
            }
        } else if l.starts_with("DONE ") {
            done = true;
        }
    }
    if !done {
        // loom panicked inside an execution (causality violation, deadlock, double panic…)
        let msg: String = err.lines().filter(|l| !l.trim().is_empty()).take(6).collect::<Vec<_>>().join(" | ");
        lo.aborted = Some(format!("exit {code}: {msg}"));
    }
    Ok(lo)
}

fn build_loom_ws() -> Result<(), String> {
    let ws = root().join(LOOM_WS);
    // two builds of the same pass: optimised, and with debug assertions + overflow checks (profile `dbg`)
    for profile in ["release", "dbg"] {
        let (code, _out, err) = sh(Command::new("cargo").current_dir(&ws).args(["build", "--offline", "--profile", profile, "-p", "loom_pass"]));
        if code != 0 {
            let tail: String = err.lines().rev().take(30).collect::<Vec<_>>().into_iter().rev().collect::<Vec<_>>().join("\n");
            return Err(format!("the loom pass ({profile}) does not build against the current treap sources (a primitive that loom does not model, or a rewrite this harness does not know):\n{tail}"));
        }
    }
    Ok(())
}


// ---- turns pass: coarse-grained schedules on the real crate and real threads ---------------------------

fn turns_bin(profile: &str) -> Option<std::path::PathBuf> {
    let exe = std::env::current_exe().ok()?;
    let target = exe.parent()?.parent()?;
    let b = target.join(profile).join("c17_turns");
    if b.exists() {
        Some(b)
    } else {
        None
    }
}

/// one fresh process per schedule: process-wide state of the library starts from scratch every time
fn turns_run(profile: &str, prelude: &str, word: &str, sizes: &str) -> Result<Vec<Value>, String> {
    let bin = turns_bin(profile).ok_or_else(|| format!("c17_turns ({profile}) is not built"))?;
    let (code, out, err) = sh(Command::new("timeout").args(["-k", "5", "120"]).arg(&bin).args([prelude, word, sizes]));
    if code == 124 || code == 137 {
        return Err(format!("HANG: the schedule prelude={prelude} word={word} sizes={sizes} did not end within 120 s"));
    }
    let line = out.lines().find_map(|l| l.strip_prefix("RESULT ")).ok_or_else(|| format!("c17_turns exited {code} without a result: {}", err.lines().rev().take(5).collect::<Vec<_>>().join(" | ")))?;
    let v: Value = serde_json::from_str(line).map_err(|e| format!("unreadable result: {e}"))?;
    Ok(v.as_array().cloned().unwrap_or_default())
}

/// all words in which every thread 1..=t occurs exactly s times, in lexicographic order
fn turn_words(t: usize, s: usize) -> Vec<String> {
    fn rec(left: &mut Vec<usize>, cur: &mut String, out: &mut Vec<String>) {
        if left.iter().all(|&x| x == 0) {
            out.push(cur.clone());
            return;
        }
        for i in 0..left.len() {
            if left[i] > 0 {
                left[i] -= 1;
                cur.push((b'1' + i as u8) as char);
                rec(left, cur, out);
                cur.pop();
                left[i] += 1;
            }
        }
    }
    let mut out = vec![];
    rec(&mut vec![s; t], &mut String::new(), &mut out);
    out
}

/// What is compared: what the property calls a thread's treap RESULTS — contents in order, sizes, number of
/// nodes created, panics — never the priority values or the shape.  A generator shared by all threads (one
/// stream behind a lock: the obvious repair of the original `static mut`) hands a thread other draws when
/// other threads draw in between; every execution of this pass is a serialised one, so whatever streams it
/// produces are by definition streams "some sequential execution could have produced".  (The first version
/// compared priorities and shape too and raised a false alarm on the shared-mutex generator,
/// mutants/benign-by-agents/B5-benign_treap_shared_mutex.diff.)
fn turns_view(v: &Value, _priorities_reproducible: bool) -> Value {
    if !v["panicked"].is_null() {
        v.clone()
    } else {
        json!({"size": v["size"], "nodes": v["nodes"], "created": v["created"], "values_hash": v["values_hash"], "panicked": v["panicked"]})
    }
}

/// thread `th` (1-based) in the schedule `word` against the same thread taking its turns alone
fn turns_compare(profile: &str, prelude: &str, word: &str, sizes: &str, th: usize, alone: Option<(&Value, bool)>) -> Result<Result<(), String>, String> {
    let s = word.bytes().filter(|&b| b == b'0' + th as u8).count();
    let (alone_v, repro) = match alone {
        Some((a, r)) => (a.clone(), r),
        None => {
            let w = ((b'0' + th as u8) as char).to_string().repeat(s);
            let a1 = turns_run(profile, prelude, &w, sizes)?.get(th - 1).cloned().unwrap_or(Value::Null);
            let a2 = turns_run(profile, prelude, &w, sizes)?.get(th - 1).cloned().unwrap_or(Value::Null);
            let r = a1 == a2;
            (a1, r)
        }
    };
    let got = turns_run(profile, prelude, word, sizes)?.get(th - 1).cloned().unwrap_or(Value::Null);
    if turns_view(&got, repro) == turns_view(&alone_v, repro) {
        return Ok(Ok(()));
    }
    let what = if !got["panicked"].is_null() {
        format!("its operations panicked ({})", got["panicked"])
    } else {
        format!("its treap differs: {} against {} alone", got, alone_v)
    };
    Ok(Err(format!("thread {th} of {} threads sharing no treap, batches of {sizes} node creations (one removal, one split / merge after each), turns taken in the order {word} (first node creations in the order {prelude}): {what}; the same batches with the other threads idle give another result", prelude.len())))
}

fn confirm(v: &Value) -> Result<(), String> {
    match v["pass"].as_str().unwrap_or("") {
        "turns" => {
            let g = |k: &str| v[k].as_str().unwrap_or("").to_string();
            let th = v["thread"].as_u64().unwrap_or(1) as usize;
            match turns_compare(&g("profile"), &g("prelude"), &g("word"), &g("sizes"), th, None) {
                Err(m) if m.starts_with("HANG") => Err("the schedule does not end".to_string()),
                Err(m) => Err(format!("machinery: {m}")),
                // the values in the message may differ from run to run (a racy or clock-dependent generator);
                // what must reproduce is that the thread's result differs from the same thread alone
                Ok(Err(_)) => Err(format!("thread {th} ends with another treap than when it takes its turns alone")),
                Ok(Ok(())) => Ok(()),
            }
        }
        "miri" => {
            let mo = miri_pass(v["threads"].as_u64().unwrap() as u32, v["k"].as_u64().unwrap() as usize)?;
            if let Some((l, f)) = mo.ub {
                return Err(format!("{} [{}]", normalise(&l), f));
            }
            if let (Some(o), Some(s)) = (&mo.outcome, &mo.solo) {
                stream_rule(o, s)?;
            }
            match mo.results_ok.as_deref() {
                Some("ok") | None => Ok(()),
                Some(m) => Err(m.to_string()),
            }
        }
        "loom" => {
            build_loom_ws()?;
            let lo = loom_pass(v["profile"].as_str().unwrap_or("release"), v["threads"].as_u64().unwrap() as u32, v["k"].as_u64().unwrap() as usize, v["bound"].as_u64().unwrap() as usize, v["cap_s"].as_u64().unwrap_or(60), v["tall"].as_u64().unwrap_or(0) as usize)?;
            if let Some(a) = lo.aborted {
                return Err(format!("loom aborted an execution: {}", normalise(&a)));
            }
            if let Some(b) = lo.bad.first() {
                return Err(b.split(" :: ").next().unwrap_or(b).split('{').next().unwrap_or(b).trim().to_string());
            }
            Ok(())
        }
        _ => Ok(()),
    }
}

fn main() {
    let args = Args::parse();
    if args.replay.is_some() {
        Run::replay_main(&args, &confirm);
    }
    let mut run = Run::new(&args, "c17", "model_checking");
    let quick = args.tier == Tier::Quick;

    // ---- Miri pass (free running, real crate) ------------------------------------------------
    let mut race_found = false;
    // more than 3 threads: all threads create their first node before any creates its second (what the
    // library registers per thread exists for all of them, e.g. a registry that grows)
    let miri_cfgs: Vec<(u32, usize)> = if quick { vec![(2, 2), (9, 2)] } else { vec![(2, 2), (3, 3), (9, 2), (17, 3), (33, 2)] };
    let mut miri_summ = vec![];
    for (t, k) in miri_cfgs {
        match miri_pass(t, k) {
            Err(m) => run.machinery_failure(&format!("Miri pass: {m}")),
            Ok(mo) => {
                if let Some((l, frame)) = mo.ub {
                    race_found = true;
                    let sig = format!("miri:{}:{}", normalise(&l).replace("error: ", ""), frame);
                    run.violation(Violation::new(sig, format!("Miri (threads={t}, creations per thread={k}): {l} at {frame}"), json!({"pass": "miri", "threads": t, "k": k})));
                    miri_summ.push(json!({"threads": t, "creations_per_thread": k, "undefined_behaviour": l}));
                    continue;
                }
                let o = mo.outcome.unwrap();
                let s = mo.solo.unwrap();
                if let Err(m) = stream_rule(&o, &s) {
                    run.violation(Violation::new(format!("miri-outcome:streams:t={t}:k={k}"), m, json!({"pass": "miri", "threads": t, "k": k})));
                }
                if mo.results_ok.as_deref() != Some("ok") {
                    run.violation(Violation::new(format!("miri-outcome:results:t={t}:k={k}"), mo.results_ok.clone().unwrap_or_default(), json!({"pass": "miri", "threads": t, "k": k})));
                }
                miri_summ.push(json!({"threads": t, "creations_per_thread": k, "undefined_behaviour": null, "outcome": o, "solo_stream": s}));
                let _ = mo.raw_tail;
            }
        }
    }
    run.cov("miri_pass", Value::Array(miri_summ));


    // ---- turns pass (real crate, real threads, every order of batches) --------------------------------
    let mut turn_summ = vec![];
    let mut turn_execs = 0u64;
    // what the turns pass could not decide; a machinery failure only if no pass reports a violation
    let mut turn_problems: Vec<String> = vec![];
    {
        // (first node creations in this order, batches per thread, batch sizes)
        let cfgs: Vec<(&str, usize, &str)> = if quick {
            vec![("12", 3, "3,4500,40"), ("21", 2, "4500,300"), ("123", 2, "4500,300")]
        } else {
            vec![("12", 3, "3,4500,40"), ("21", 3, "3,4500,40"), ("123", 2, "4500,300"), ("321", 2, "70,4500"), ("12", 2, "70000,5000"), ("123", 3, "3,4500,40"), ("1234", 2, "4500,300")]
        };
        for profile in ["release", "dbg"] {
            if run.has_violations() {
                // the Miri pass has a verdict already (undefined behaviour, duplicated draws, wrong results);
                // code with a data race gives no stable picture on real threads, so nothing is added here
                turn_summ.push(json!({"build": profile, "skipped": "the Miri pass reported a violation"}));
                continue;
            }
            if turns_bin(profile).is_none() {
                if profile == "release" {
                    run.machinery_failure("c17_turns (release) is not built");
                }
                continue;
            }
            for (prelude, s, sizes) in &cfgs {
                let t = prelude.len();
                let mut alone: Vec<Value> = vec![];
                // are priorities a function of the schedule at all?  (every alone run is made twice)
                let mut repro = true;
                for th in 1..=t {
                    let w = ((b'0' + th as u8) as char).to_string().repeat(*s);
                    let mut two = vec![];
                    for _ in 0..2 {
                        match turns_run(profile, prelude, &w, sizes) {
                            Ok(r) => two.push(r.get(th - 1).cloned().unwrap_or(Value::Null)),
                            Err(m) => {
                                turn_problems.push(format!("turns pass, thread {th} alone ({profile}, first creations {prelude}, batches {sizes}): {m}"));
                                two.push(json!({"panicked": "no result"}));
                            }
                        }
                        turn_execs += 1;
                    }
                    if two[0] != two[1] {
                        repro = false;
                    }
                    alone.push(two.swap_remove(0));
                }
                if alone.iter().any(|a| !a["panicked"].is_null()) {
                    // no reference to compare with: not this pass's verdict (the sequential checks C03 / C16 judge
                    // what one thread does alone)
                    turn_problems.push(format!("turns pass ({profile}, first creations {prelude}, batches {sizes}): a thread panics or gives no result when it takes its turns alone: {}", alone.iter().map(|a| a["panicked"].to_string()).collect::<Vec<_>>().join(" / ")));
                    continue;
                }
                let words = turn_words(t, *s);
                let prio_differs = std::sync::atomic::AtomicUsize::new(0);
                let results: Vec<(String, usize, Result<Result<(), String>, String>)> = {
                    let next = std::sync::atomic::AtomicUsize::new(0);
                    let out = std::sync::Mutex::new(vec![]);
                    prio_differs.store(0, std::sync::atomic::Ordering::Relaxed);
                    std::thread::scope(|sc| {
                        for _ in 0..12 {
                            sc.spawn(|| loop {
                                let i = next.fetch_add(1, std::sync::atomic::Ordering::Relaxed);
                                if i >= words.len() {
                                    break;
                                }
                                // one run per word, all threads judged from it
                                let got = turns_run(profile, prelude, &words[i], sizes);
                                for th in 1..=t {
                                    let r = match &got {
                                        Err(m) => Err(m.clone()),
                                        Ok(g) => {
                                            if g.get(th - 1).map_or(false, |x| x["created_hash"] != alone[th - 1]["created_hash"]) {
                                                prio_differs.fetch_add(1, std::sync::atomic::Ordering::Relaxed);
                                            }
                                            if g.get(th - 1).map(|x| turns_view(x, repro)) == Some(turns_view(&alone[th - 1], repro)) {
                                                Ok(Ok(()))
                                            } else {
                                                // re-run for the message (and to see that it is stable)
                                                turns_compare(profile, prelude, &words[i], sizes, th, Some((&alone[th - 1], repro)))
                                            }
                                        }
                                    };
                                    out.lock().unwrap().push((words[i].clone(), th, r));
                                }
                            });
                        }
                    });
                    let mut v = out.into_inner().unwrap();
                    v.sort_by(|a, b| (&a.0, a.1).cmp(&(&b.0, b.1)));
                    v
                };
                turn_execs += words.len() as u64;
                let mut bad = 0;
                for (w, th, r) in results {
                    match r {
                        Err(m) if m.starts_with("HANG") => {
                            bad += 1;
                            run.violation(Violation::new(format!("turns:{profile}:prelude={prelude}:sizes={sizes}:word={w}:hang"), m, json!({"pass": "turns", "profile": profile, "prelude": prelude, "word": w, "sizes": sizes, "thread": th})));
                        }
                        Err(m) => turn_problems.push(format!("turns pass: {m}")),
                        Ok(Ok(())) => {}
                        Ok(Err(m)) => {
                            bad += 1;
                            if bad <= 3 {
                                run.violation(Violation::new(format!("turns:{profile}:prelude={prelude}:sizes={sizes}:word={w}:thread={th}"), m, json!({"pass": "turns", "profile": profile, "prelude": prelude, "word": w, "sizes": sizes, "thread": th})));
                            }
                        }
                    }
                }
                turn_summ.push(json!({"build": profile, "threads": t, "first_creations_in_order": prelude, "batches_per_thread": s, "batch_sizes": sizes, "orders_of_batches_executed": words.len(), "all_orders": true, "thread_results_differing_from_alone": bad, "priorities_reproducible_between_processes": repro,
                    "thread_priority_streams_differing_from_alone_not_judged": prio_differs.load(std::sync::atomic::Ordering::Relaxed),
                    "nodes_created_by_thread_1_alone": alone[0]["created"], "distinct_priorities_probe_thread_1": alone[0]["created_head"]}));
            }
        }
    }
    run.cov("turns_pass", Value::Array(turn_summ));

    // ---- loom pass ----------------------------------------------------------------------------
    let mut execs = 0u64;
    let mut outcomes = 0u64;
    let mut loom_summ = vec![];
    let mut any_capped = false;
    let mut loom_limit: Option<String> = None;
    match build_loom_ws() {
        Err(m) => {
            if !race_found {
                run.machinery_failure(&m);
            }
            run.cov("loom_pass_note", "not built: see the Miri verdict");
        }
        Ok(()) => {
            // (profile, threads, creations, preemption bound, height of the hand-built path-shaped treaps)
            let cfgs: Vec<(&str, u32, usize, usize, usize)> = if quick {
                vec![("release", 2, 2, 2, 70), ("dbg", 2, 2, 2, 70)]
            } else {
                vec![("release", 2, 2, 3, 150), ("release", 2, 3, 2, 0), ("release", 3, 2, 2, 0), ("dbg", 2, 2, 3, 150), ("dbg", 3, 2, 2, 0)]
            };
            for (profile, t, k, b, tall) in cfgs {
                let cap_s: u64 = if quick { 45 } else { 240 };
                let mut lo = match loom_pass(profile, t, k, b, cap_s, tall) {
                    Ok(l) => l,
                    Err(m) => run.machinery_failure(&m),
                };
                let mut unseeded = false;
                if lo.aborted.is_none() && lo.main_values > 1 && !lo.has_static_mut && !race_found {
                    // The first priority of the process differs between executions although nothing is shared
                    // through a `static mut`.  Either the generator is seeded from outside the program (clock,
                    // address: priorities are then no function of the schedule and are left out of the
                    // comparison of outcome sets), or state survives executions some other way — told apart
                    // by two plain runs of one thread alone in fresh processes.
                    let a1 = turns_run("release", "1", "1", "3");
                    let a2 = turns_run("release", "1", "1", "3");
                    if let (Ok(x), Ok(y)) = (&a1, &a2) {
                        if x != y {
                            unseeded = true;
                            lo = match loom_pass_mode(profile, t, k, b, cap_s, tall, true) {
                                Ok(l) => l,
                                Err(m) => run.machinery_failure(&m),
                            };
                            lo.main_values = 1;
                            run.cov("loom_pass_note", "the priorities of a single thread differ between two fresh processes (generator seeded from outside the program): priority values are left out of the comparison of outcome sets; sequence results, tie shapes, renderings and panics are judged as always");
                        }
                    }
                }
                let _ = unseeded;
                let rep = json!({"pass": "loom", "profile": profile, "threads": t, "k": k, "bound": b, "cap_s": cap_s, "tall": tall});
                loom_summ.push(json!({"build": profile, "threads": t, "creations_per_thread": k, "preemption_bound": b, "tall_treap_nodes": tall,
                    "serialised_executions": lo.serial_execs, "serialised_outcomes": lo.serial_outcomes,
                    "unserialised_executions": lo.par_execs, "unserialised_outcomes": lo.par_outcomes,
                    "distinct_first_draws_of_main": lo.main_values, "source_rewrites": lo.rewrites, "static_mut_in_source": lo.has_static_mut,
                    "aborted": lo.aborted, "explorations_stopped_by_the_wall_time_cap": lo.capped, "wall_time_cap_s": cap_s}));
                if !lo.capped.is_empty() {
                    any_capped = true;
                }
                if let Some(a) = &lo.aborted {
                    // Limits of loom's own run time are never a verdict: thread-local destructors that touch
                    // loom objects, statics used while loom shuts an execution down, spin loops without a
                    // yield.  The Miri pass stands alone then, and the evidence says so.
                    let limitation = ["lazy_static during shutdown", "src/rt/object.rs", "exceeded maximum number of branches"].iter().any(|m| a.contains(m));
                    if limitation {
                        loom_limit = Some(format!("threads={t}, creations={k}, preemption bound {b}: {a}"));
                        continue;
                    }
                    run.violation(Violation::new(format!("loom-abort:{profile}:t={t}:k={k}:b={b}"), format!("loom aborted an execution (threads={t}, creations={k}, preemption bound {b}): {a}"), rep.clone()));
                    continue;
                }
                if lo.main_values > 1 {
                    // state survives from one loom execution to the next: it is not routed through loom
                    if race_found {
                        run.cov("loom_pass_note", "generator state is not routed through loom (static mut): outcome comparison skipped, see the Miri verdict");
                        continue;
                    }
                    run.machinery_failure(&format!("the first priority drawn by the main thread differs between loom executions ({} values): the generator state is shared process-wide through something this harness does not reroute to loom, so the exploration cannot decide", lo.main_values));
                }
                execs += lo.serial_execs + lo.par_execs;
                outcomes += lo.par_outcomes;
                for s in lo.samples.iter().take(2) {
                    run.sample(json!({"loom_outcome": s, "threads": t, "k": k}));
                }
                if let Some(bad) = lo.bad.first() {
                    let fam = if bad.starts_with("BAD_RESULTS") { "results" } else { "not-serialisable" };
                    run.violation(Violation::new(format!("loom:{fam}:{profile}:t={t}:k={k}:b={b}"), format!("unserialised execution (threads={t}, creations={k}, preemption bound {b}): {bad}"), rep));
                }
                if lo.bad.is_empty() && (lo.par_execs < 2 || lo.serial_execs < 2) {
                    run.machinery_failure("loom explored fewer than two schedules");
                }
            }
        }
    }
    run.cov("loom_pass", Value::Array(loom_summ));
    run.cov("states", outcomes.max(1));
    run.cov("transitions", (execs + turn_execs).max(1));
    run.cov("traces_validated_against_impl", execs + turn_execs);
    run.cov("evaluations", execs.max(1));
    run.cov("distinct_nontrivial", execs);
    run.cov("exhaustive", !run.has_violations() && !any_capped && loom_limit.is_none());
    if let Some(l) = &loom_limit {
        run.cov("loom_pass_note", format!("loom could not model this tree ({l}); the verdict rests on the Miri pass alone"));
    }
    run.cov("rule", "loom DPOR with the stated preemption bound over the 2-3 thread harness (each thread: k node creations through from_item/insert_at, merge, split, remove, collect on a treap it owns, a merge/split of three nodes with hand-set EQUAL priorities whose resulting shape must equal the solo run's, and the {:?} / TreePrinter renderings of both treaps, which must equal the renderings made again after all threads were joined; a panic inside a thread's operations is a result like any other and differs from the solo run; explored twice: a helper thread creates one node and is joined before the threads are spawned, and 'cold' where the threads' first creations are the first of the process; a third exploration gives every thread a hand-built path-shaped treap as tall as it is large and runs split / merge / remove / insert down its whole spine, so that anything shared per level of recursion is exercised on all threads at once), in two builds of the pass (optimised; debug assertions + overflow checks); every source file of the treap crate is copied and rerouted, so new modules and statics are covered; every execution runs the treap crate's own source with its shared state rerouted to loom; a TURNS pass on the real crate and real threads: 2-4 threads that share no treap each create one node (in a fixed order), then take turns running batches of node creations (3 to 4500 nodes per batch, thorough 70000; one removal and one split / merge after each batch) — EVERY order of the batches is executed, one fresh process per order, handed over under a mutex + condvar — and every thread's treap (priorities in creation order and in in-order, shape, size) must equal what the same thread gets when it takes its turns alone; this reaches per-thread counts (thousands of nodes) that the loom and Miri passes cannot; `transitions` = complete schedules executed (serialised reference + unserialised + orders of batches), `states` = distinct unserialised outcomes; each loom execution is a distinct schedule");
    run.assume("loom models the primitives that build.rs reroutes (thread_local!, std::sync, std::thread, non-mut statics); accesses it does not intercept (static mut, raw UnsafeCell) are covered only by the free-running Miri pass, one execution per configuration");
    if !race_found && execs == 0 && loom_limit.is_none() {
        run.machinery_failure("no loom execution was counted");
    }
    if !run.has_violations() {
        if let Some(p) = turn_problems.first() {
            run.machinery_failure(p);
        }
    }
    if run.samples_empty() {
        run.sample(json!({"note": "no loom outcome sampled: the Miri pass reported undefined behaviour first"}));
    }
    run.finish(&confirm)
}
